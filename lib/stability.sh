#!/bin/bash
# development aid: which obligations flip when only the solver's random seed changes? (brittle proofs = future false alarms)
# usage: lib/stability.sh [unit...]   (assembled files must be fresh: run ./check ALL first)
cd "$(dirname "$0")/../.work"
units="$@"; [ -z "$units" ] && units="u1 u2 u3 u4 u5 u6 u7 u8"
for u in $units; do
  extra=""; [ $u = u7 ] && extra="--rlimit 60"
  for sd in 1 7 13 42; do
    n=$(verus $u.rs $extra --multiple-errors 20 --smt-option smt.random_seed=$sd 2>&1 | grep -E "^error" | grep -vc "aborting")
    echo "$u seed=$sd errors(incl. canary)=$n"
  done
done
