#!/usr/bin/env python3
"""Writes seeded/<id>/meta.json from the agent's own report (meta.agent.json), my confirmation log (confirm.log, produced
by lib/confirm_seed.sh in a scratch worktree) and the seed x property matrix (seeded/matrix.json, produced by
lib/seed_matrix.sh against /repo with the patch applied and undone again). Also writes seeded/README.md (the table)."""
import json, os, re
ROOT = os.path.dirname(os.path.dirname(os.path.abspath(__file__)))
S = os.path.join(ROOT, "seeded")
matrix = json.load(open(os.path.join(S, "matrix.json")))
rows = []
for sid in sorted(d for d in os.listdir(S) if os.path.isdir(os.path.join(S, d))):
    d = os.path.join(S, sid)
    a = json.load(open(os.path.join(d, "meta.agent.json")))
    prop = re.sub(r"[a-z]+$", "", sid)
    log = open(os.path.join(d, "confirm.log")).read() if os.path.exists(os.path.join(d, "confirm.log")) else ""
    def sect(name):
        m = re.search(r"== %s\n(.*?)(?:\n== |\Z)" % re.escape(name), log, re.S)
        return m.group(1).strip().splitlines() if m else []
    row = matrix.get(sid, {})
    caught = {p: v.get("obligations", []) for p, v in row.items() if v["verdict"] == "VIOLATION"}
    undec = {p: v.get("reason", "") for p, v in row.items() if v["verdict"] == "UNDECIDED"}
    own = row.get(prop, {}).get("verdict", "NOT-CLAIMED" if prop not in row else "?")
    meta = {
        "seed": sid,
        "property_it_breaks": prop,
        "files_changed": a.get("files_changed"),
        "what_was_changed_and_why_it_breaks_the_property": a.get("summary"),
        "needs_to_manifest": a.get("needs_to_manifest"),
        "produced_by": "a fresh sub-agent that was given only the property text and its own scratch git worktree of /repo",
        "what_i_ran_to_confirm": {
            "script": "lib/confirm_seed.sh (scratch worktree under /tmp, removed afterwards): full suite with the patch; demo with the patch; demo without the patch",
            "existing_suite_with_patch": sect("existing suite WITH patch"),
            "demo_with_patch": sect("demo WITH patch"),
            "demo_without_patch": sect("demo WITHOUT patch"),
        },
        "checks_run_against_it": "lib/seed_matrix.sh: git apply patch.diff in /repo (or, for changes outside zvt_builder, in an isolated checkout of /repo HEAD via ZVT_REPO); ./check ALL; git checkout -- .",
        "verdict_of_its_own_property_check": own,
        "violations_reported": caught,
        "undecided": undec,
    }
    json.dump(meta, open(os.path.join(d, "meta.json"), "w"), indent=1, ensure_ascii=False)
    rows.append((sid, prop, own, sorted(caught), sorted(undec), a.get("files_changed")))
with open(os.path.join(S, "README.md"), "w") as f:
    f.write("# Seeded property-breaking changes\n\nEach directory: `patch.diff` (library change only), `demo/` (fails with the patch, passes without), "
            "`meta.agent.json` (the sub-agent's report), `confirm.log` (my confirmation run), `meta.json` (summary + what the checks said).\n"
            "None of these is ever committed to /repo. Regenerate the table: `lib/seed_matrix.sh && python3 lib/seed_meta.py`.\n\n"
            "| seed | breaks | own check | VIOLATION reported for | UNDECIDED for | files |\n|---|---|---|---|---|---|\n")
    for sid, prop, own, c, u, files in rows:
        f.write("| %s | %s | %s | %s | %s | %s |\n" % (sid, prop, own, " ".join(c) or "-", " ".join(u) or "-", ", ".join(files or [])))
print("wrote meta.json for", len(rows), "seeds")
