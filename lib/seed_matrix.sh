#!/bin/bash
# For every archived seeded change: apply to /repo, decide ALL registered properties from one verification per unit, undo.
# (ZVT_REPO / VERIF_WORK select another checkout of the repository and another scratch directory.)
# Writes seeded/matrix.json  { seed: { property: OK|VIOLATION|UNDECIDED } }   usage: lib/seed_matrix.sh [ID...]
cd "$(dirname "$0")/.."
R=${ZVT_REPO:-/repo}; W=${VERIF_WORK:-.work}; mkdir -p $W
ids="$@"; [ -z "$ids" ] && ids=$(ls seeded | grep -v matrix)
for id in $ids; do
  [ -f seeded/$id/patch.diff ] || continue
  if ! git -C $R diff --quiet; then echo "/repo is dirty, refusing"; exit 2; fi
  git -C $R apply "$PWD/seeded/$id/patch.diff" || { echo "$id: patch does not apply"; continue; }
  ./check ALL 2>/dev/null | grep -E "^(VIOLATION|UNDECIDED|OK)" > $W/matrix_$id.txt
  git -C $R checkout -- .
  echo "seed=$id $(grep -c ^VIOLATION $W/matrix_$id.txt) violation lines"
done
W=$W python3 - <<'PY'
import json,glob,re,os
p='seeded/matrix.json'
m=json.load(open(p)) if os.path.exists(p) else {}
for f in glob.glob(os.environ['W']+'/matrix_*.txt'):
    sid=f.split('matrix_')[1][:-4]
    row={}
    for l in open(f):
        k=l.split()[0]; pid=re.search(r'property=(\S+)',l).group(1)
        ob=re.search(r'obligation=(\S+)',l)
        if k=='VIOLATION':
            row.setdefault(pid,{'verdict':'VIOLATION','obligations':[]})
            if row[pid]['verdict']!='VIOLATION': row[pid]={'verdict':'VIOLATION','obligations':[]}
            if ob and len(row[pid]['obligations'])<3: row[pid]['obligations'].append(ob.group(1))
        elif pid not in row:
            row[pid]={'verdict':k}
            if k=='UNDECIDED': row[pid]['reason']=l.split('reason=',1)[1].strip()[:200]
    m[sid]=row
    os.remove(f)
json.dump(m,open(p,'w'),indent=1,sort_keys=True)
PY
