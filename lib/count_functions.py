#!/usr/bin/env python3
"""Record, per unit, how many functions Verus checks on the current tree (verified + failed, the canary included) as
`functions` in spec/units.json, and the form of every loop of the extracted functions as `loop_kinds`. The driver refuses a run that checked fewer (a verifier that died half-way).
Run on the unchanged tree after every change of a spec unit:  python3 lib/count_functions.py"""
import json, os, sys
sys.path.insert(0, os.path.dirname(os.path.abspath(__file__)))
import driver
p = os.path.join(driver.ROOT, "spec", "units.json")
units = json.load(open(p))
os.makedirs(driver.WORK, exist_ok=True)
crates = []
for u in units.values():
    for c in u.get("expand", []):
        if c not in crates:
            crates.append(c)
for c in crates:
    driver.expand(c)
for name, u in units.items():
    if name.startswith("_") or "template" not in u:
        continue
    path, mp = driver.assemble(name)
    args = (u.get("verus_arg_sets") or [u.get("verus_args") or []])[0]
    rc, j, diags, raw, dt, cmd = driver.verus(path, extra=list(args))
    res = j["verification-results"]
    u["functions"] = res["verified"] + res["errors"]
    # the form of every specified loop on the unchanged tree (`loop`, `while`, `for`, after normalisation): the invariants were
    # written for this form; a failure in a function whose loops have another form is undecided, not a violation
    u["loop_kinds"] = mp.get("loop_kinds", {})
    print(name, u["functions"], len(u["loop_kinds"]), "functions with loops")
json.dump(units, open(p, "w"), indent=1)
