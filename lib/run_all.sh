#!/bin/sh
# runs every claimed check once on the current tree (regression after tool/spec changes)
cd "$(dirname "$0")/.."
fail=0
for p in $(python3 -c "import json;print(' '.join(c['property_id'] for c in json.load(open('MANIFEST.json'))['checks']))"); do
  out=$(./check $p 2>/dev/null | grep -E "^(OK|VIOLATION|UNDECIDED|KNOWN)" | head -3 | cut -c1-140)
  echo "$out"
  case "$out" in OK*) ;; *) fail=1;; esac
done
exit $fail
