#!/usr/bin/env python3
"""Driver for the contract checks (DESIGN.md §4, §8).

  check <PROPERTY> [--tier quick|thorough]

exit 0  every obligation tagged with the property was discharged (or is a listed known finding)
exit 1  VIOLATION property=<id> replay=<path>   (an obligation of the baseline inventory failed)
exit 2  UNDECIDED property=<id> reason=...       (lost anchor, unsupported construct, solver budget, tool error)
"""
import concurrent.futures
import hashlib
import json
import os
import re
import subprocess
import sys
import time

ROOT = os.path.dirname(os.path.dirname(os.path.abspath(__file__)))
REPO = os.environ.get("ZVT_REPO", "/repo")
WORK = os.environ.get("VERIF_WORK") or os.path.join(ROOT, ".work")
EXP = os.path.join(WORK, "exp")
ZX = os.path.join(ROOT, "tool", "target", "release", "zx")
EVID = os.path.join(ROOT, "evidence")
REPLAY = os.path.join(EVID, "replay")

UNITS = json.load(open(os.path.join(ROOT, "spec", "units.json")))
PROPS = json.load(open(os.path.join(ROOT, "spec", "properties_map.json")))

VERIF_FAIL = (
    "postcondition not satisfied", "precondition not satisfied", "assertion failed",
    "possible arithmetic underflow/overflow", "loop invariant not satisfied",
    "invariant not satisfied", "decreases not satisfied", "possible division by zero",
    "unreachable", "could not prove termination", "recommendation not met",
    "failed to prove", "might not hold", "not satisfied",
)
UNSUPPORTED = ("not supported", "unsupported", "Unsupported", "does not yet support", "not yet supported", "cannot find", "Internal Verus Error",
               "is not allowed", "expected ", "mismatched types", "unresolved", "cannot be used", "must be", "not implemented", "no method named",
               "unrecognized", "cannot call", "cannot use", "mode error", "in this scope")
SOLVER_BUDGET = ("Resource limit", "rlimit", "timed out", "time limit")


def log(*a):
    print(*a, file=sys.stderr, flush=True)


def run(cmd, cwd=None, env=None, timeout=None):
    t0 = time.time()
    p = subprocess.run(cmd, cwd=cwd, env=env, stdout=subprocess.PIPE, stderr=subprocess.PIPE, timeout=timeout)
    return p.returncode, p.stdout.decode("utf-8", "replace"), p.stderr.decode("utf-8", "replace"), time.time() - t0


class Undecided(Exception):
    pass


# --------------------------------------------------------------------------- expansion
def expand(crate):
    """rustc's own macro expansion of the current working tree (DESIGN §2.2 step 1)."""
    os.makedirs(EXP, exist_ok=True)
    env = dict(os.environ)
    env["CARGO_TARGET_DIR"] = os.path.join(EXP, "target")
    env["CARGO_NET_OFFLINE"] = "true"
    out = os.path.join(EXP, crate + ".rs")
    tmp = out + ".tmp.%d" % os.getpid()
    rc, so, se, dt = run(["cargo", "+nightly", "rustc", "--offline", "-p", crate, "--lib", "--", "-Zunpretty=expanded"],
                         cwd=REPO, env=env, timeout=900)
    if rc != 0 or not so.strip():
        raise Undecided("expansion of crate %s failed: %s" % (crate, se.strip().splitlines()[-1:] or "?"))
    with open(tmp, "w") as f:
        f.write(so)
    os.replace(tmp, out)
    return dt


# --------------------------------------------------------------------------- assemble + verify
def assemble(unit, probe=False):
    u = UNITS[unit]
    sfx = "_probe" if probe else ""
    out = os.path.join(WORK, unit + sfx + ".rs")
    mp = os.path.join(WORK, unit + sfx + ".map.json")
    env = dict(os.environ)
    env["ZX_PROBE"] = "1" if probe else "0"
    rc, so, se, dt = run([ZX, "assemble", "--repo", REPO, "--exp", EXP, "--template",
                          os.path.join(ROOT, "spec", "units", u["template"]), "--out", out, "--map", mp], env=env)
    if rc != 0:
        m = re.search(r"ZX-ERROR kind=(\S+) (.*)", so)
        if m:
            raise Undecided("extraction (%s): %s" % (m.group(1), m.group(2)))
        raise Undecided("extraction tool failed: %s %s" % (so[-300:], se[-300:]))
    return out, json.load(open(mp))


def region_of(mp, line):
    best = None
    for r in mp["regions"]:
        if r["start"] <= line <= r["end"]:
            if best is None or (r["end"] - r["start"]) <= (best["end"] - best["start"]):
                best = r
    return best


def region_id(r):
    if r is None:
        return "untagged"
    if r["kind"] == "tpl":
        return "spec:" + r["clause"]
    base = r["item"]
    if r["kind"] in ("clause", "loop-clause", "ghost-clause"):
        return "%s#%s" % (base, r["clause"] or r["kind"])
    return "%s#%s" % (base, r["kind"])


def verus(path, rlimit=None, extra=None):
    cmd = ["verus", path, "--multiple-errors", "50", "--output-json", "--time"]
    if rlimit:
        cmd += ["--rlimit", str(rlimit)]
    if extra:
        cmd += extra
    cmd += ["--", "--error-format=json"]
    rc, so, se, dt = run(cmd, cwd=WORK, timeout=3600)
    try:
        j = json.loads(so)
    except Exception:
        j = None
    diags = []
    for l in se.splitlines():
        l = l.strip()
        if not l.startswith("{"):
            continue
        try:
            d = json.loads(l)
        except Exception:
            continue
        if d.get("$message_type") == "diagnostic" or "message" in d:
            diags.append(d)
    return rc, j, diags, se, dt, " ".join(cmd)


def classify(diags, mp, unit_name=""):
    """-> (failures: list of dict(region, rid, msg, rendered), undecided_reasons: list)"""
    fails, undec = [], []
    for d in diags:
        lvl = d.get("level")
        msg = d.get("message", "")
        if lvl != "error":
            continue
        if msg.startswith("aborting due to"):
            continue
        spans = d.get("spans", [])
        if any(k in msg for k in SOLVER_BUDGET):
            line = next((s["line_start"] for s in spans if s.get("is_primary")), 0)
            rg = region_of(mp, line)
            # the budget was exhausted somewhere inside this function: every tagged region of the function is affected
            bp = set()
            if rg is not None and rg.get("item"):
                for r3 in mp["regions"]:
                    if r3.get("item") == rg["item"]:
                        bp |= set(r3["props"])
            undec.append(("solver-budget", msg, region_id(rg), sorted(bp)))
            continue
        if d.get("code") is not None or any(k in msg for k in UNSUPPORTED) or not spans:
            undec.append(("unsupported-or-compile-error", msg.splitlines()[0][:200], "", []))
            continue
        # the span that names the obligation
        sp = None
        for s in spans:
            lab = (s.get("label") or "")
            if lab.startswith("failed this") or lab.startswith("failed precondition") and False:
                sp = s
        if sp is None:
            sp = next((s for s in spans if s.get("is_primary")), spans[0] if spans else None)
        line = sp["line_start"] if sp else 0
        r = region_of(mp, line)
        rid = region_id(r)
        # where the obligation arose (the implementing function), if the clause lives in a trait
        for s2 in spans:
            if s2 is sp:
                continue
            r2 = region_of(mp, s2["line_start"])
            if r2 is not None and r2.get("item") and r is not None and r2["item"] != r.get("item"):
                rid = rid + "@" + r2["item"]
                break
        props = set(r["props"]) if r else set()
        if "decreases not satisfied" in msg and r is not None:
            # Verus reports a failed termination measure at the `continue`/loop end inside the body: it belongs to the
            # clause that states the measure (tagged `...terminates`), not to the body's own properties
            tp = set()
            for r3 in mp["regions"]:
                if r3.get("item") == r.get("item") and r3["kind"] == "loop-clause" and "terminat" in r3.get("clause", ""):
                    tp |= set(r3["props"])
            if tp:
                props = tp
                rid = "%s#%s" % (r.get("item"), "termination-measure")
        impl_props = None
        for s2 in spans:
            r2 = region_of(mp, s2["line_start"])
            # a clause that lives in a trait declaration also carries the tags of the implementing function
            if r2 is not None and r is not None and r2.get("kind") in ("fn-body", "loop-clause", "ghost-clause") and r2.get("item") != r.get("item") and r.get("item", "").startswith("trait"):
                impl_props = (impl_props or set()) | set(r2["props"])
        if impl_props is not None:
            # `also=` of the implementing function: properties a failed trait clause additionally carries there
            for s2 in spans:
                r2 = region_of(mp, s2["line_start"])
                if r2 is not None and r2.get("item") and r is not None and r2["item"] != r.get("item"):
                    for r3 in mp["regions"]:
                        if r3["kind"] == "also" and r3["item"] == r2["item"]:
                            props |= set(r3["props"])
            if UNITS.get(unit_name, {}).get("attribute_to_impl"):
                # in this unit a failed trait-level clause is the business of the implementing function only:
                # the properties the clause and the function share, or the function's own if they share none
                both = props & impl_props
                props = both if both else impl_props
            # elsewhere the clause's own tags decide; the implementing function's tags are used only for a clause without any
            elif not props:
                props = impl_props
        fails.append({"region": r, "rid": rid, "msg": msg, "line": line, "props": sorted(props),
                      "rendered": d.get("rendered", "")[:4000]})
    return fails, undec


def verify_unit(unit, tier):
    """One verification of a unit at a time per scratch directory: two checks started side by side share `.work/<unit>.rs`;
    an exclusive lock per unit keeps one from reading a file the other is still writing."""
    import fcntl
    os.makedirs(WORK, exist_ok=True)
    with open(os.path.join(WORK, unit + ".lock"), "w") as lf:
        fcntl.flock(lf, fcntl.LOCK_EX)
        try:
            return _verify_unit(unit, tier)
        finally:
            fcntl.flock(lf, fcntl.LOCK_UN)


def _verify_unit(unit, tier):
    """Run Verus on the assembled unit. A unit may list several option sets (`verus_arg_sets`): an obligation is
    discharged if any run discharges it; it fails if some run refutes it and none discharges it; otherwise it is
    a solver-budget case (undecided)."""
    t0 = time.time()
    path, mp = assemble(unit)
    arg_sets = UNITS[unit].get("verus_arg_sets") or [UNITS[unit].get("verus_args") or []]
    if tier == "thorough":
        # proof stability: the same obligations under a different solver seed (an obligation still counts as discharged if any
        # run discharges it; the ones that flip are listed in the evidence as unstable)
        arg_sets = list(arg_sets) + [list(arg_sets[0]) + ["--smt-option", "smt.random_seed=7"]]

    def one(extra, rlimit=None):
        rc, j, diags, raw, dt, cmd = verus(path, rlimit=rlimit, extra=list(extra))
        if j is None:
            raise Undecided("verus produced no JSON for unit %s: %s" % (unit, raw[-400:]))
        fails, undec = classify(diags, mp, unit)
        # a verifier that crashed has verified nothing, whatever diagnostics it printed before: its own summary must
        # agree with the diagnostics (Verus 0.2026.09.13 panics in ast_to_sst on e.g. a `return` inside a match guard arm
        # used as a let initialiser, then reports verified=0 errors=0 while the canary diagnostic is still emitted)
        res = j.get("verification-results", {})
        panic = next((l.strip() for l in raw.splitlines() if "panicked at" in l), None)
        if panic is not None:
            nxt = raw[raw.index(panic) + len(panic):].strip().splitlines()
            undec.append(("verifier-crash", "verus panicked: %s %s" % (panic[:160], nxt[0][:120] if nxt else ""), "", []))
        elif fails and res.get("errors", 0) == 0 and not res.get("encountered-vir-error", False):
            undec.append(("verifier-crash", "verus printed failures but its summary counts none (verified=%s errors=%s)" % (res.get("verified"), res.get("errors")), "", []))
        elif res.get("verified", 0) == 0 and not undec:
            undec.append(("verifier-crash", "verus verified no function of unit %s" % unit, "", []))
        # ... and it must have looked at every function of the unit: verified + failed functions never drops below the number
        # recorded for the unit on the unchanged tree (`functions` in spec/units.json, written by lib/count_functions.py)
        expect = UNITS[unit].get("functions")
        if expect and not undec and res.get("verified", 0) + res.get("errors", 0) < expect:
            undec.append(("verifier-crash", "verus checked only %d of the %d functions of unit %s" % (res.get("verified", 0) + res.get("errors", 0), expect, unit), "", []))
        return {"j": j, "fails": fails, "undec": undec, "cmd": cmd, "dt": dt}

    with concurrent.futures.ThreadPoolExecutor(max_workers=4) as ex:
        runs = list(ex.map(one, arg_sets))
    attempts = len(runs)
    # a failure must persist with a larger solver budget (guards against solver instability)
    need_retry = any(any(f["rid"] != "spec:canary" for f in r["fails"]) or any(u[0] == "solver-budget" for u in r["undec"]) for r in runs) and not any(
        any(u[0] != "solver-budget" for u in r["undec"]) for r in runs)
    if need_retry and len(arg_sets) == 1 and "--rlimit" not in arg_sets[0]:
        runs.append(one(arg_sets[0], rlimit=60))
        attempts += 1
    # combine per obligation
    hard_undec = [u for r in runs for u in r["undec"] if u[0] != "solver-budget"]
    fail_by_rid, budget_rids = {}, set()
    for r in runs:
        for f in r["fails"]:
            fail_by_rid.setdefault(f["rid"], []).append(f)
        for u in r["undec"]:
            if u[0] == "solver-budget":
                budget_rids.add(u[2])
    fails, undec = [], list(hard_undec)
    nruns = len(runs)

    def item_of(rid):
        return rid.split("@")[1] if "@" in rid else rid.split("#")[0]

    def budget_items(r):
        return {item_of(u[2]) for u in r["undec"] if u[0] == "solver-budget"}

    refuted_items = set()
    for rid, fl in fail_by_rid.items():
        it = item_of(rid)
        # discharged in some run = that run neither refuted this obligation nor ran out of budget in its function
        bad = sum(1 for r in runs if any(f["rid"] == rid for f in r["fails"]) or it in budget_items(r))
        if bad == nruns:
            fails.append(fl[0])
            refuted_items.add(it)
    for rid in budget_rids:
        it = item_of(rid)
        out_everywhere = all(it in budget_items(r) or any(item_of(f["rid"]) == it for f in r["fails"]) for r in runs)
        if out_everywhere and it not in refuted_items:
            bp = sorted({p for r in runs for u in r["undec"] if u[0] == "solver-budget" and u[2] == rid for p in u[3]})
            undec.append(("solver-budget", "resource limit exceeded in every run", rid, bp))
    j = runs[0]["j"]
    res = j.get("verification-results", {})
    funcs = []
    for r in runs:
        for m in r["j"].get("times-ms", {}).get("smt", {}).get("smt-run-module-times", []):
            for fb in m.get("function-breakdown", []):
                funcs.append({"function": fb["function"], "ms": round(fb.get("time-micros", 0) / 1000.0, 2),
                              "rlimit": fb.get("rlimit"), "success": fb.get("success")})
    unstable = sorted(rid for rid, fl in fail_by_rid.items() if rid != "spec:canary" and 0 < sum(1 for r in runs if any(f["rid"] == rid for f in r["fails"])) < nruns)
    probes = None
    if tier == "thorough":
        probes = probe_unit(unit, arg_sets[0])
    return {"unit": unit, "path": path, "map": mp, "probes": probes, "unstable": unstable, "fails": fails, "undecided": undec, "verified": max(r["j"].get("verification-results", {}).get("verified", 0) for r in runs),
            "errors": res.get("errors", 0), "functions": funcs, "cmd": " ; ".join(r["cmd"] for r in runs), "wall": time.time() - t0,
            "attempts": attempts, "sha": hashlib.sha256(open(path, "rb").read()).hexdigest()[:16],
            "vir_error": any(r["j"].get("verification-results", {}).get("encountered-vir-error", False) for r in runs)}


def probe_unit(unit, extra):
    """Thorough tier: vacuity guard behind every contract. The unit is assembled once more with `assert(false)` at every
    function entry and at the start of every loop body; each of these must be REFUTED by Verus. A probe that is not refuted
    means the function's preconditions (or the loop's invariants and guard) are contradictory: everything proved there
    would be vacuous."""
    path, mp = assemble(unit, probe=True)
    ex = [a for a in extra if a != "--rlimit" and not a.isdigit()]
    rc, j, diags, raw, dt, cmd = verus(path, rlimit=60, extra=ex)
    if j is None:
        raise Undecided("verus produced no JSON for the probe run of unit %s: %s" % (unit, raw[-300:]))
    if "panicked at" in raw:
        raise Undecided("verus panicked in the probe run of unit %s: %s" % (unit, next(l.strip() for l in raw.splitlines() if "panicked at" in l)[:200]))
    plist = [r for r in mp["regions"] if r["kind"] == "probe"]
    refuted, budget_items = set(), set()
    for d in diags:
        if d.get("level") != "error":
            continue
        msg = d.get("message", "")
        for sp in d.get("spans", []):
            rg = region_of(mp, sp["line_start"])
            if rg is None:
                continue
            if "Resource limit" in msg or "rlimit" in msg:
                budget_items.add(rg.get("item"))
            elif rg["kind"] == "probe" and "assertion failed" in msg:
                refuted.add(rg["start"])
        if d.get("code") is not None:
            raise Undecided("probe run of unit %s does not compile: %s" % (unit, msg.splitlines()[0][:200]))
    not_refuted = [(r["item"], "%s, line %d of the probe file" % (r["clause"], r["start"])) for r in plist if r["start"] not in refuted and r["item"] not in budget_items]
    inconclusive = [(r["item"], r["clause"]) for r in plist if r["start"] not in refuted and r["item"] in budget_items]
    return {"unit": unit, "probes": len(plist), "refuted": len(refuted), "not_refuted": not_refuted, "inconclusive": inconclusive,
            "cmd": cmd, "wall": round(dt, 2)}


# --------------------------------------------------------------------------- trust scan
def trust_scan(path):
    txt = open(path).read().splitlines()
    found = []
    cur_impl = ""
    for i, l in enumerate(txt):
        s = l.strip()
        if s.startswith("//"):
            continue
        m0 = re.match(r"\s*(?:pub\s+)?(impl\b[^{]*|trait\s+\w+)", l)
        if m0 and not l.startswith("        "):
            cur_impl = re.sub(r"\s+", " ", m0.group(1)).strip()[:80]
        for kw in ("external_body", "assume_specification", "assume(", "admit(", "uninterp spec fn", "exec_allows_no_decreases_clause"):
            if kw in s:
                # name: next fn line
                name = ""
                for k in range(i, min(i + 6, len(txt))):
                    m = re.search(r"(?:fn|assume_specification[^\[]*\[)\s*([A-Za-z0-9_:<>\[\] ]+)", txt[k])
                    if m:
                        name = m.group(1).strip()
                        break
                where = (" in [" + cur_impl + "]") if (l.startswith("        ") and cur_impl) else ""
                found.append("%s: %s%s" % (kw.rstrip("("), name or s[:60], where))
    return sorted(set(found))


# --------------------------------------------------------------------------- main
_UNIT_CACHE = {}
_EXPANDED = set()


def ensure_tool():
    """the extraction tool is built by ./setup.sh; build it here too if it is missing or older than its sources"""
    tdir = os.path.join(ROOT, "tool")
    srcs = [os.path.join(tdir, "Cargo.toml")] + [os.path.join(tdir, "src", f) for f in os.listdir(os.path.join(tdir, "src"))]
    if os.path.exists(ZX) and all(os.path.getmtime(f) <= os.path.getmtime(ZX) for f in srcs):
        return True
    env = dict(os.environ)
    env["CARGO_NET_OFFLINE"] = "true"
    try:
        subprocess.run(["cargo", "build", "--release", "--offline"], cwd=tdir, env=env, capture_output=True, text=True, timeout=1800)
    except Exception:  # noqa
        pass
    return os.path.exists(ZX)


def main():
    if len(sys.argv) < 2:
        print(__doc__)
        return 2
    pid = sys.argv[1]
    if not ensure_tool():
        print("UNDECIDED property=%s reason=the extraction tool (tool/) could not be built" % pid)
        return 2
    tier = os.environ.get("VERIF_TIER", "quick")
    if "--tier" in sys.argv:
        tier = sys.argv[sys.argv.index("--tier") + 1]
    if pid == "ALL":
        # development aid: every registered property from ONE verification of each unit
        rc = 0
        global EVID
        EVID = os.path.join(WORK, "evidence_all")  # the per-property evidence files are written by the registered commands only
        os.makedirs(EVID, exist_ok=True)
        for q in sorted(PROPS):
            rc = max(rc, check_one(q, tier))
        return rc
    return check_one(pid, tier)


def check_one(pid, tier):
    seed = int(os.environ.get("VERIF_SEED", "0") or 0)
    if pid not in PROPS:
        print("UNDECIDED property=%s reason=no check registered" % pid)
        return 2
    cfg = PROPS[pid]
    t0 = time.time()
    os.makedirs(WORK, exist_ok=True)
    os.makedirs(REPLAY, exist_ok=True)
    evidence_path = os.path.join(EVID, pid + ".json")
    known = json.load(open(os.path.join(ROOT, "known_findings.json")))

    def undecided(reason):
        # Fallback for the leaf codecs: the deductive check cannot decide (rewritten body, unsupported construct, failed
        # support), but the bounded stand-ins (kani/) run on the real code whatever its shape. A harness that FAILS and whose
        # input replays on the real code is a violation with a concrete failing input; a harness that passes proves nothing
        # beyond its domain and the outcome stays undecided.
        if pid in ("C01", "C02", "C04", "C16", "C17") and not os.environ.get("VERIF_NO_KANI_FALLBACK") and REPO == "/repo":
            cex = None
            try:
                sys.path.insert(0, os.path.join(ROOT, "lib"))
                import kani_twin
                cex = kani_twin.refute(pid, reason)
            except Exception:  # noqa
                cex = None
            if cex:
                rid = "kani:" + cex["harness"]
                rp = os.path.join(REPLAY, "%s-kani_%s.json" % (pid, cex["harness"]))
                json.dump({"property": pid, "obligation": rid, "counterexample": cex,
                           "note": "the deductive check ended undecided (%s); the bounded stand-in refutes the property on the real code with this input" % reason[:300]},
                          open(rp, "w"), indent=1)
                ev = {"property_id": pid, "tier": tier, "seed": seed, "level": "other",
                      "coverage": {"explanation": "deductive check undecided (%s); violation found by the bounded Kani harness %s (%s) and replayed on the real code" % (reason[:300], cex["harness"], cex["harness_domain"]),
                                   "evaluations": 1, "distinct_nontrivial": 1, "samples": [{"harness": cex["harness"], "input": cex["input"]}]},
                      "assumptions": [], "wall_s": round(time.time() - t0, 2), "violations": 1}
                json.dump(ev, open(evidence_path, "w"), indent=1)
                print("VIOLATION property=%s replay=%s obligation=%s (bounded stand-in; deductive check undecided)" % (pid, rp, rid))
                return 1
        print("UNDECIDED property=%s reason=%s" % (pid, reason))
        ev = {"property_id": pid, "tier": tier, "seed": seed, "level": "other",
              "coverage": {"explanation": "undecided: " + reason, "evaluations": 1, "distinct_nontrivial": 0},
              "assumptions": [], "wall_s": round(time.time() - t0, 2), "violations": 0}
        json.dump(ev, open(evidence_path, "w"), indent=1)
        return 2

    # `supports`: units whose contracts this property's own units ASSUME (e.g. the client proofs assume that the sequences
    # deliver every fault as an error item). No obligation there is this property's; a failure there (optionally only in the
    # listed items) leaves the property undecided instead of silently proved from a broken assumption.
    supports = cfg.get("supports", {})
    units = list(cfg["units"]) + [u for u in supports if u not in cfg["units"]]
    try:
        crates = []
        for u in units:
            for c in UNITS[u].get("expand", []):
                if c not in crates:
                    crates.append(c)
        exp_s = 0.0
        for c in crates:
            if c not in _EXPANDED:
                exp_s += expand(c)
                _EXPANDED.add(c)
        todo = [u for u in units if u not in _UNIT_CACHE]
        with concurrent.futures.ThreadPoolExecutor(max_workers=8) as ex:
            for u, r in zip(todo, ex.map(lambda u: verify_unit(u, tier), todo)):
                _UNIT_CACHE[u] = r
        results = [_UNIT_CACHE[u] for u in units]
    except Undecided as e:
        return undecided(str(e))
    except subprocess.TimeoutExpired as e:
        return undecided("timeout: %s" % e)

    # obligations of this property
    obligations, failed, foreign_fail, untagged_fail, canary_ok = [], [], [], [], True
    undec_reasons = []
    for r in results:
        mp = r["map"]
        failing_rids = {}
        for f in r["fails"]:
            failing_rids.setdefault(f["rid"], []).append(f)
        # vacuity canary: the unit's canary obligation must fail
        if not any(rg["clause"] == "canary" for rg in mp["regions"]):
            undec_reasons.append("unit %s has no canary" % r["unit"])
        elif "spec:canary" not in failing_rids:
            canary_ok = False
        for rg in mp["regions"]:
            if pid in rg["props"]:
                if rg["kind"] in ("fn-sig", "item", "assumed-clause", "also") or (rg["kind"] == "clause" and not rg["clause"]):
                    continue
                rid = region_id(rg)
                if rid not in [o["id"] for o in obligations if o["unit"] == r["unit"]]:
                    obligations.append({"unit": r["unit"], "id": rid, "kind": rg["kind"]})
        closure_items = set(mp.get("unspecified_closures", []))
        for rid, fl in failing_rids.items():
            if rid == "spec:canary":
                continue
            rg = fl[0]["region"]
            it = rid.split("@")[1] if "@" in rid else rid.split("#")[0]
            base_kinds = UNITS.get(r["unit"], {}).get("loop_kinds", {})
            now_kinds = mp.get("loop_kinds", {})
            if it in base_kinds and it in now_kinds and base_kinds[it] != now_kinds[it]:
                # the loop was rewritten in another form (`loop` <-> `while`/`for`): the invariants and the exit clause were written
                # for the form on the unchanged tree and may simply not fit - a failed obligation here decides nothing
                fpr = set()
                for f in fl:
                    fpr |= set(f["props"])
                if pid in fpr or ("~" + pid) in fpr or r["unit"] in supports:
                    undec_reasons.append("%s: the loops of %s changed form (%s -> %s); its invariants were written for the former, obligation %s cannot be decided" % (r["unit"], it, base_kinds[it], now_kinds[it], rid))
                continue
            if it in closure_items:
                # a closure without a contract: the verifier knows nothing about its result, so a failed obligation in this
                # function says nothing about the property (tool limit, not an alarm)
                fpr = set()
                for f in fl:
                    fpr |= set(f["props"])
                if pid in fpr or ("~" + pid) in fpr:
                    undec_reasons.append("%s: %s contains a closure without contract; obligation %s cannot be decided" % (r["unit"], it, rid))
                continue
            fprops = set()
            for f in fl:
                fprops |= set(f["props"])
            if r["unit"] in supports and pid not in fprops:
                only = supports[r["unit"]]
                if not only or any(k in rid for k in only):
                    undec_reasons.append("%s: supporting obligation %s failed (it belongs to %s); this property's proof assumes it" % (r["unit"], rid, ",".join(sorted(p for p in fprops if not p.startswith("~"))) or "-"))
                continue
            if rg is None or not fprops:
                untagged_fail.append((r["unit"], rid, fl[0]))
            elif ("~" + pid) in fprops and pid not in fprops:
                # an obligation that only SUPPORTS this property's clauses failed: the property is undecided, not violated
                undec_reasons.append("%s: supporting obligation %s failed (it belongs to %s)" % (r["unit"], rid, ",".join(sorted(p for p in fprops if not p.startswith("~")))))
            elif pid in fprops:
                failed.append((r["unit"], rid, fl[0]))
            else:
                foreign_fail.append((r["unit"], rid))
        for u in r["undecided"]:
            if u[0] == "solver-budget" and u[3] and pid not in u[3] and ("~" + pid) not in u[3]:
                continue  # a function that carries no clause of this property ran out of budget: not this property's concern
            undec_reasons.append("%s: %s %s %s" % (r["unit"], u[0], u[1], u[2]))
        if r["vir_error"]:
            undec_reasons.append("%s: verus reported a VIR error" % r["unit"])

    probe_summary = []
    for r in results:
        pr = r.get("probes")
        if pr:
            probe_summary.append({k: pr[k] for k in ("unit", "probes", "refuted", "inconclusive", "wall")})
            for it, cl in pr["not_refuted"]:
                undec_reasons.append("%s: vacuity probe not refuted at %s (%s): its contract is contradictory" % (r["unit"], it, cl))
    # thorough tier, leaf-level properties: the Kani twins run on the real crate as an independent cross-check (and of T6)
    kani_cc = []
    KSETS = {"C16": ["tlv_roundtrip", "adpu_roundtrip", "llv_roundtrip", "lllv_roundtrip", "tlv_bare", "adpu_bare", "llv_bare", "lllv_bare"],
             "C04": ["adpu_roundtrip", "adpu_bare"],
             "C17": ["le_u8_roundtrip", "le_u16_roundtrip", "le_u32_roundtrip", "le_u64_roundtrip", "le_usize_roundtrip", "be_u8_roundtrip", "be_u16_roundtrip",
                     "be_u32_roundtrip", "be_u64_roundtrip", "be_usize_roundtrip", "tag_default_roundtrip", "tag_be_roundtrip", "bcd_u8_roundtrip", "bcd_u16_roundtrip"],
             "C01": None}
    if tier == "thorough" and pid in KSETS:
        try:
            sys.path.insert(0, os.path.join(ROOT, "lib"))
            import kani_twin
            kani_cc = kani_twin.cross_check(KSETS[pid])
        except Exception as e:  # noqa
            undec_reasons.append("kani cross-check could not run: %s" % str(e)[:200])
        for k in kani_cc:
            if k["status"] == "error":
                undec_reasons.append("kani harness %s did not finish: %s" % (k["harness"], str(k.get("detail", ""))[:120]))
    # C20 (both tiers): the one repository function U6 leaves as an external_body shell, `ErrorMessages::from_u8`, is discharged
    # against the same frozen table on the compiled zvt crate by the loop-free Kani harness K3 (all 256 codes: complete)
    if pid == "C20":
        try:
            sys.path.insert(0, os.path.join(ROOT, "lib"))
            import kani_codes
            k3s = kani_codes.run()
        except Exception as e:  # noqa
            k3s = [{"harness": "errcode_table", "status": "error", "detail": str(e)[:200]}]
        for k3 in k3s:
            kani_cc.append(k3)
            if k3["status"] == "error":
                undec_reasons.append("kani harness %s did not finish: %s" % (k3["harness"], str(k3.get("detail", ""))[:160]))
            elif k3["status"] == "failed" and k3.get("replay_exit_code") != 1:
                undec_reasons.append("kani harness %s failed but its input does not fail on the real code: %s" % (k3["harness"], str(k3.get("input"))))
                k3["status"] = "unconfirmed"
    hard = [u for u in undec_reasons if "supporting obligation" not in u]
    if hard:
        return undecided("; ".join(hard)[:600])
    if not canary_ok:
        return undecided("canary obligation did not fail: pipeline is vacuous")
    # an obligation tagged with this property failed: that is a violation even if supporting obligations failed too
    # (postconditions are checked against the ASSUMED invariants, so their failure does not stem from a broken support)
    if undec_reasons and not failed:
        return undecided("; ".join(undec_reasons)[:600])
    if untagged_fail:
        return undecided("supporting lemma failed: " + ", ".join("%s/%s" % (u, rid) for u, rid, _ in untagged_fail)[:400])
    if not obligations:
        return undecided("no obligation is tagged with this property")

    for k in kani_cc:
        if k["status"] == "failed":
            failed.append(("kani", "kani:" + k["harness"], {"msg": "Kani harness %s failed" % k["harness"], "rendered": json.dumps(k)[:3000], "line": 0, "kani": k}))
    # known findings
    open_known = [k for k in known.get("open", []) if k["property"] == pid]
    new_viol = []
    for (u, rid, f) in failed:
        k = next((k for k in open_known if k.get("unit") == u and k.get("obligation") == rid), None)
        if k:
            print("KNOWN-FINDING: property=%s %s" % (pid, k["what"]))
        else:
            new_viol.append((u, rid, f))

    trusted = []
    for r in results:
        for t in trust_scan(r["path"]):
            trusted.append("%s: %s" % (r["unit"], t))
    norm_counts = {}
    for r in results:
        for k, v in r["map"].get("normalisations", {}).items():
            norm_counts[k] = norm_counts.get(k, 0) + v
    nfail = len({(u, rid) for u, rid, _ in failed})
    fn_under_contract = sorted({o["id"].split("#")[0] for o in obligations if o["kind"] != "tpl"})
    samples = [{"unit": o["unit"], "obligation": o["id"], "kind": o["kind"]} for o in obligations[:12]]
    solver_ms = round(sum(f["ms"] for r in results for f in r["functions"]), 1)
    ev = {
        "property_id": pid, "tier": tier, "seed": seed, "level": "proof",
        "coverage": {
            "obligations": len(obligations),
            "discharged": len(obligations) - nfail,
            "checker_cmd": "; ".join(r["cmd"] for r in results),
            "trusted_base": sorted(set(trusted)) + cfg.get("assumptions", []),
            "samples": samples,
            "back_end": "Verus 0.2026.09.13 (Z3) on text extracted from /repo by tool/zx",
            "units": [{"unit": r["unit"], "functions_verified_by_verus": r["verified"], "errors_other_than_canary": max(0, r["errors"] - 1),
                       "assembled_sha256_16": r["sha"], "wall_s": round(r["wall"], 2), "verus_attempts": r["attempts"],
                       "role": ("assumed by this property's units: a failure here%s leaves the property undecided" % ((" in " + "/".join(supports[r["unit"]])) if supports.get(r["unit"]) else "")) if (r["unit"] in supports and r["unit"] not in cfg["units"]) else "carries this property's obligations"} for r in results],
            "functions_under_contract": fn_under_contract,
            "solver_ms_total": solver_ms,
            "slowest_functions": sorted([f for r in results for f in r["functions"]], key=lambda x: -x["ms"])[:8],
            "normalisations_applied": norm_counts,
            "expansion_s": round(exp_s, 2),
            "explanation": cfg.get("scope", ""),
            "exhaustive": False,
            "failures_tagged_with_other_properties": ["%s/%s" % x for x in foreign_fail],
            "reachability_probes": probe_summary,
            "kani_cross_check": kani_cc,
            "obligations_that_flip_between_solver_configurations": sorted({x for r in results for x in r.get("unstable", [])}),
        },
        "assumptions": cfg.get("assumptions", []),
        "wall_s": round(time.time() - t0, 2),
        "violations": len(new_viol),
    }
    json.dump(ev, open(evidence_path, "w"), indent=1)

    if new_viol:
        nprinted = 0
        for (u, rid, f) in new_viol:
            safe = re.sub(r"[^A-Za-z0-9_.-]+", "_", rid)[:120]
            rp = os.path.join(REPLAY, "%s-%s.json" % (pid, safe))
            replay = {"property": pid, "unit": u, "obligation": rid, "verus_message": f["msg"],
                      "verus_output": f["rendered"], "assembled_file": os.path.join(WORK, u + ".rs"),
                      "line": f["line"], "counterexample": None,
                      "note": "Verus gives no counterexample; obligation was in the baseline inventory and now fails"}
            # Kani twin, if one is registered for this obligation
            cex = None
            if f.get("kani"):
                # found by the Kani cross-check itself
                k = f["kani"]
                if k.get("replay_exit_code") == 1:
                    cex = {"engine": k.get("engine", "kani 0.68 (cbmc) on the real zvt_builder crate"), "harness": k["harness"], "harness_domain": k.get("domain"),
                           "input": k.get("input"), "replay_cmd": k.get("replay_cmd"), "replay_exit_code": 1, "replay_output": k.get("replay_output")}
            else:
                try:
                    sys.path.insert(0, os.path.join(ROOT, "lib"))
                    import kani_twin
                    cex = kani_twin.counterexample(pid, u, rid)
                except Exception as e:  # noqa
                    cex = None
            tail = " no-failing-input-found"
            if cex:
                replay["counterexample"] = cex
                tail = ""
            json.dump(replay, open(rp, "w"), indent=1)
            if nprinted < 10:
                print("VIOLATION property=%s replay=%s obligation=%s%s" % (pid, rp, rid, tail))
            nprinted += 1
        if nprinted > 10:
            print("(%d further failed obligations of %s; replay files written under %s)" % (nprinted - 10, pid, REPLAY))
        return 1
    print("OK property=%s obligations=%d discharged=%d units=%s wall=%.1fs" % (pid, len(obligations), len(obligations) - nfail, ",".join(units), time.time() - t0))
    return 0


if __name__ == "__main__":
    sys.exit(main())
