#!/bin/bash
# usage: lib/confirm_seed.sh <PROP> <demo-file> <dest-dir-in-worktree> <cargo package> <test name>
# Confirms a seeded change in its scratch worktree (/tmp/wt_<PROP>): existing suite passes with the patch,
# demo fails with it, demo passes without it. Then archives it under /verif/seeded/<PROP>/ with what was run.
set -u
P="$1"; DEMO="$2"; DEST="$3"; PKG="$4"; TEST="$5"; ID="${6:-$P}"
WT=/tmp/wt_$P
export CARGO_TARGET_DIR=$WT/target
cd $WT || exit 9
git checkout -q -- . ; rm -f "$DEST/$(basename $DEMO)"
log=$WT/seed/confirm.log; : > $log
echo "== existing suite WITH patch" | tee -a $log
git apply seed/patch.diff || { echo "patch does not apply"; exit 9; }
cargo test --workspace --no-fail-fast --offline 2>&1 | grep -E "^test result" | awk '{p+=$4; f+=$6} END {print "passed",p,"failed",f}' | tee -a $log
echo "== demo WITH patch" | tee -a $log
created=0; [ -d "$DEST" ] || { mkdir -p "$DEST"; created=1; }
cp "$DEMO" "$DEST/"
cargo test -p $PKG --test $TEST --offline 2>&1 | grep -E "^test result|^test .* (FAILED|ok)" | tail -12 | tee -a $log
echo "== demo WITHOUT patch" | tee -a $log
git apply -R seed/patch.diff
cargo test -p $PKG --test $TEST --offline 2>&1 | grep -E "^test result|^test .* (FAILED|ok)" | tail -12 | tee -a $log
rm -f "$DEST/$(basename $DEMO)"; [ $created = 1 ] && rmdir "$DEST"; git checkout -q -- .
mkdir -p /verif/seeded/$ID/demo
cp seed/patch.diff /verif/seeded/$ID/patch.diff
cp -r seed/demo/. /verif/seeded/$ID/demo/
cp seed/meta.json /verif/seeded/$ID/meta.agent.json
cp $log /verif/seeded/$ID/confirm.log
echo archived /verif/seeded/$ID
