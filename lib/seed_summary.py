#!/usr/bin/env python3
"""Summary of seeded/matrix.json: how each seeded change ended for the property it was made to break."""
import json, os, re
ROOT = os.path.dirname(os.path.dirname(os.path.abspath(__file__)))
m = json.load(open(os.path.join(ROOT, "seeded", "matrix.json")))
cls = {"own VIOLATION": [], "own UNDECIDED, reported under another property": [], "own UNDECIDED only": [],
       "own OK, reported under another property": [], "nothing reported (missed)": [], "property not claimed": []}
for sid in sorted(m):
    if not os.path.isdir(os.path.join(ROOT, "seeded", sid)):
        continue
    row = m[sid]
    prop = re.sub(r"[a-z]+$", "", sid)
    others = sorted(p for p, v in row.items() if v["verdict"] == "VIOLATION" and p != prop)
    own = row.get(prop, {}).get("verdict")
    if own is None:
        cls["property not claimed"].append(sid)
    elif own == "VIOLATION":
        cls["own VIOLATION"].append(sid)
    elif own == "UNDECIDED":
        cls["own UNDECIDED, reported under another property" if others else "own UNDECIDED only"].append(sid)
    elif others:
        cls["own OK, reported under another property"].append("%s(%s)" % (sid, ",".join(others)))
    else:
        cls["nothing reported (missed)"].append(sid)
n = sum(len(v) for v in cls.values())
print("%d seeded changes" % n)
for k, v in cls.items():
    print("%-50s %3d  %s" % (k, len(v), " ".join(v)))
