#!/usr/bin/env python3
"""Route K: Kani twins of leaf-level obligations (kani/). Verus gives no counterexample; when it refutes an obligation of a
length style, integer/BCD/tag encoding, the matching Kani harness (loop-free or width-bounded with unwinding assertions, on
the REAL zvt_builder crate) is asked for a concrete failing input, which is then replayed against the real code by
`kani/src/bin/replay.rs`. Returns None when no twin exists, Kani finds nothing, or the replay does not confirm."""
import json, os, re, subprocess, time

ROOT = os.path.dirname(os.path.dirname(os.path.abspath(__file__)))
KDIR = os.path.join(ROOT, "kani")
WORK = os.environ.get("VERIF_WORK") or os.path.join(ROOT, ".work")
HARNESSES = ["tlv_roundtrip", "adpu_roundtrip", "llv_roundtrip", "lllv_roundtrip", "tlv_bare", "adpu_bare", "llv_bare", "lllv_bare",
             "le_u8_roundtrip", "le_u16_roundtrip", "le_u32_roundtrip", "le_u64_roundtrip", "le_usize_roundtrip",
             "be_u8_roundtrip", "be_u16_roundtrip", "be_u32_roundtrip", "be_u64_roundtrip", "be_usize_roundtrip",
             "tag_default_roundtrip", "tag_be_roundtrip", "bcd_u8_roundtrip", "bcd_u16_roundtrip"]
BOUNDS = {"tlv_roundtrip": "len <= 65535, any suffix byte; unwind 9 (complete: unwinding assertions)",
          "adpu_roundtrip": "len <= 65535, any suffix byte; unwind 9 (complete)",
          "llv_roundtrip": "len <= 99; unwind 9 (complete)", "lllv_roundtrip": "len <= 999; unwind 9 (complete)",
          "tlv_bare": "len <= 65535, every truncation of the prefix; unwind 9 (complete)", "adpu_bare": "len <= 65535, every truncation; unwind 9 (complete)",
          "llv_bare": "len <= 99, every truncation; unwind 9 (complete)", "lllv_bare": "len <= 999, every truncation; unwind 9 (complete)",
          "bcd_u8_roundtrip": "all u8; unwind 4 (complete)", "bcd_u16_roundtrip": "all u16; unwind 5 (complete)"}


def twins_for(rid):
    """harnesses that exercise the function named in an obligation id (`implLengthforTlv::deserialize#..`) or in an extraction
    message (`impl Length for Tlv | deserialize`)"""
    r = rid.replace(" ", "").replace("|", "::")
    out = []
    if "implLengthforTlv::" in r:
        out += ["tlv_roundtrip", "tlv_bare"]
    if "implLengthforAdpu::" in r:
        out += ["adpu_roundtrip", "adpu_bare"]
    if "implLengthforLlvImpl<N>::" in r:
        out += ["llv_roundtrip", "lllv_roundtrip", "llv_bare", "lllv_bare"]
    m = re.search(r"Encoding<(u8|u16|u32|u64|usize)>for(?:encoding::)?(Default|BigEndian|Bcd)::", r)
    if m:
        h = {"Default": "le", "BigEndian": "be", "Bcd": "bcd"}[m.group(2)] + "_" + m.group(1) + "_roundtrip"
        if h in HARNESSES:
            out.append(h)
    if re.search(r"Encoding<Tag>forDefault::", r):
        out.append("tag_default_roundtrip")
    if re.search(r"Encoding<Tag>forBigEndian::", r):
        out.append("tag_be_roundtrip")
    return out


def props_of(h, failed_checks):
    """which properties a FAILED harness refutes: the round trip it asserts (C01 and the codec's own property), the APDU header
    agreement for the APDU style (C04), and C02 when the failure is a panic of the real code rather than a wrong result"""
    ps = {"C01"}
    ps.add("C16" if h.split("_")[0] in ("tlv", "adpu", "llv", "lllv") else "C17")
    if h.startswith("adpu"):
        ps.add("C04")
    if re.search(r"overflow|index out of bounds|out of range|unwrap|expect|panic|slice", failed_checks or "", re.I):
        ps.add("C02")
    return ps


def refute(pid, hint=""):
    """Fallback when the deductive check of `pid` ends undecided (a rewritten body lost its loop anchor, an unsupported
    construct, a crashed verifier): the bounded stand-ins still run on the real code whatever its shape. Returns a
    counterexample record (as `counterexample`) if a harness that speaks about `pid` fails AND the replay confirms it,
    else None - a harness that passes proves nothing beyond its stated domain and leaves the outcome undecided."""
    cands = [h for h in twins_for(hint)] or list(HARNESSES)
    for h in cands:
        base = {"C01", "C02", "C04" if h.startswith("adpu") else "", "C16" if h.split("_")[0] in ("tlv", "adpu", "llv", "lllv") else "C17"}
        if pid not in base:
            continue
        st, vals, dt, tail = run_harness(h)
        if st != "failed" or not vals or pid not in props_of(h, tail):
            continue
        rc, out, cmd = replay(h, vals)
        if rc == 1:
            return {"engine": "kani 0.68 (cbmc) on the real zvt_builder crate", "harness": h, "harness_domain": BOUNDS.get(h, "full domain of the type, loop-free"),
                    "input": vals, "kani_failed_checks": tail, "kani_seconds": round(dt, 1),
                    "replay_cmd": cmd, "replay_exit_code": rc, "replay_output": out}
    return None


def _env():
    e = dict(os.environ)
    e["CARGO_NET_OFFLINE"] = "true"
    return e


def _prepare():
    lock = os.path.join(os.environ.get("ZVT_REPO", "/repo"), "Cargo.lock")
    if os.path.exists(lock):
        try:
            open(os.path.join(KDIR, "Cargo.lock"), "w").write(open(lock).read())
        except Exception:
            pass


_CACHE = {}


def run_harness(h, timeout=600):
    """-> (status, values, seconds, tail)   status in verified|failed|error  (memoised per process)"""
    if h not in _CACHE:
        _CACHE[h] = _run_harness(h, timeout)
    return _CACHE[h]


def _run_harness(h, timeout=600):
    _prepare()
    t0 = time.time()
    env = _env()
    env["CARGO_TARGET_DIR"] = os.path.join(WORK, "kani_target")
    cmd = ["cargo", "kani", "--harness", "proofs::" + h, "--exact", "-Z", "concrete-playback", "--concrete-playback=print"]
    try:
        p = subprocess.run(cmd, cwd=KDIR, env=env, capture_output=True, text=True, timeout=timeout)
    except subprocess.TimeoutExpired:
        return "error", [], time.time() - t0, "timeout"
    out = p.stdout + p.stderr
    dt = time.time() - t0
    if "VERIFICATION:- SUCCESSFUL" in out:
        return "verified", [], dt, ""
    if "VERIFICATION:- FAILED" in out:
        vals = []
        blk = out[out.find("let concrete_vals"):]
        for m in re.finditer(r"^\s*//\s*(-?\d+)[a-z]*\s*$", blk, re.M):
            vals.append(m.group(1))
        fc = re.findall(r"Failed Checks: (.*)", out)
        return "failed", vals, dt, "; ".join(fc)[:300]
    return "error", [], dt, out[-400:]


def replay(h, vals, timeout=600):
    _prepare()
    env = _env()
    env["CARGO_TARGET_DIR"] = os.path.join(WORK, "kani_replay_target")
    cmd = ["cargo", "run", "--offline", "-q", "--bin", "replay", "--", h] + list(vals)
    p = subprocess.run(cmd, cwd=KDIR, env=env, capture_output=True, text=True, timeout=timeout)
    return p.returncode, (p.stdout + p.stderr)[-1500:], "cd %s && CARGO_NET_OFFLINE=true CARGO_TARGET_DIR=%s %s" % (KDIR, env["CARGO_TARGET_DIR"], " ".join(cmd))


def counterexample(pid, unit, rid):
    for h in twins_for(rid):
        st, vals, dt, tail = run_harness(h)
        if st != "failed" or not vals:
            continue
        rc, out, cmd = replay(h, vals)
        if rc == 1:
            return {"engine": "kani 0.68 (cbmc) on the real zvt_builder crate", "harness": h, "harness_domain": BOUNDS.get(h, "full domain of the type, loop-free"),
                    "input": vals, "kani_failed_checks": tail, "kani_seconds": round(dt, 1),
                    "replay_cmd": cmd, "replay_exit_code": rc, "replay_output": out}
    return None


def cross_check(harnesses=None):
    """thorough tier: every harness on the current tree -> list of dict(harness, status, seconds[, input, replay])"""
    res = []
    for h in (harnesses or HARNESSES):
        st, vals, dt, tail = run_harness(h)
        r = {"harness": h, "status": st, "seconds": round(dt, 1), "domain": BOUNDS.get(h, "full domain of the type, loop-free")}
        if st == "failed":
            r["input"] = vals
            if vals:
                rc, out, cmd = replay(h, vals)
                r.update({"replay_cmd": cmd, "replay_exit_code": rc, "replay_output": out})
        elif st == "error":
            r["detail"] = tail
        res.append(r)
    return res


if __name__ == "__main__":
    import sys
    print(json.dumps(cross_check(sys.argv[1:] or None), indent=1))
