#!/bin/bash
# Behaviour-preserving refactorings (refactors/*.diff) must never raise a VIOLATION: apply each to an isolated checkout, ./check ALL, undo.
# usage: ZVT_REPO=<isolated checkout> lib/refactor_suite.sh [diff...]
cd /verif
R=${ZVT_REPO:?set ZVT_REPO to an isolated checkout of /repo (git -C /repo worktree add --detach DIR HEAD)}; export VERIF_WORK=${VERIF_WORK:-/tmp/work_refactors}
for f in ${@:-refactors/*.diff}; do
  id=$(basename $f .diff)
  git -C $R checkout -q -- .
  git -C $R apply $PWD/$f || { echo "$id APPLY-FAIL"; continue; }
  out=$(./check ALL 2>/dev/null | grep -E "^(VIOLATION|UNDECIDED)" | awk '{print $1" "$2}' | sort -u | tr '\n' ';')
  git -C $R checkout -q -- .
  echo "$id :: ${out:-all OK}"
done
echo REFAC-DONE
