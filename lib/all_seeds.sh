#!/bin/bash
# Regression over the archived seeded changes: apply each to /repo, run the check of the property it breaks, undo.
# usage: lib/all_seeds.sh [ID...]
cd "$(dirname "$0")/.."
ids="$@"; [ -z "$ids" ] && ids=$(ls seeded)
for id in $ids; do
  [ -f seeded/$id/patch.diff ] || continue
  if ! git -C /repo diff --quiet; then echo "/repo is dirty, refusing"; exit 2; fi
  git -C /repo apply "$PWD/seeded/$id/patch.diff" || { echo "$id: patch does not apply"; continue; }
  pid=$(echo $id | sed "s/[a-z]*$//"); out=$(./check $pid 2>&1 | grep -E "^(VIOLATION|UNDECIDED|OK|KNOWN|NOT)" | head -2 | cut -c1-220)
  git -C /repo checkout -- .
  echo "seed=$id :: $out"
done
