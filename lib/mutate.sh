#!/bin/sh
# usage: lib/mutate.sh <file-in-repo> <python-regex> <replacement> <PROPERTY...>
# applies a one-off mutation to /repo, runs the checks, reverts. For development only.
f="$1"; pat="$2"; rep="$3"; shift 3
cd /repo || exit 9
python3 - "$f" "$pat" "$rep" <<'PY'
import re,sys
f,pat,rep=sys.argv[1:4]
s=open(f).read()
n=len(re.findall(pat,s))
if n!=1:
    print("pattern matches",n,"times"); sys.exit(7)
open(f,'w').write(re.sub(pat,rep,s,count=1))
PY
[ $? = 0 ] || exit 7
git -C /repo diff --stat | tail -1
for p in "$@"; do /verif/check "$p" 2>/dev/null | grep -E "^(OK|VIOLATION|UNDECIDED|KNOWN)"; done
git -C /repo checkout -- .
