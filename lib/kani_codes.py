#!/usr/bin/env python3
"""Harness K3 (kani_codes/): `ErrorMessages::from_u8` of the real zvt crate against the frozen result-code table for all 256
codes. Loop-free over kani::any::<u8>() - a complete proof of the contract `r == em_from_u8(c)` that U6 otherwise only assumes
of its one external_body shell. A failure comes with the code, which `kani_codes/src/bin/replay.rs` runs on the real code."""
import json, os, re, subprocess, sys, time

ROOT = os.path.dirname(os.path.dirname(os.path.abspath(__file__)))
KDIR = os.path.join(ROOT, "kani_codes")
WORK = os.environ.get("VERIF_WORK", os.path.join(ROOT, ".work"))
ENGINE = "kani 0.68 (cbmc) on the real zvt crate"
DOMAINS = {"errcode_table": "all 256 result codes, loop-free (complete)",
           "errmsg_fingerprint": "all 256 result codes, loop-free (complete) - but a FINGERPRINT of the text only: total length, first and last byte of what Display writes equal those of the frozen message of that code"}


def _env(target):
    e = dict(os.environ)
    e["CARGO_NET_OFFLINE"] = "true"
    e["CARGO_TARGET_DIR"] = os.path.join(WORK, target)
    return e


def _prepare():
    repo = os.environ.get("ZVT_REPO", "/repo")
    lock = os.path.join(repo, "Cargo.lock")
    if os.path.exists(lock):
        open(os.path.join(KDIR, "Cargo.lock"), "w").write(open(lock).read())
    subprocess.run([sys.executable, os.path.join(KDIR, "gen_table.py")], check=True)
    # the crate names /repo/zvt as its path dependency; an isolated checkout (ZVT_REPO) gets its own manifest text
    mf = os.path.join(KDIR, "Cargo.toml")
    txt = open(mf).read()
    new = re.sub(r'zvt = \{ path = "[^"]*" \}', 'zvt = { path = "%s/zvt" }' % repo, txt)
    if new != txt:
        open(mf, "w").write(new)


def _kani(h, timeout):
    cmd = ["cargo", "kani", "--harness", "proofs::" + h, "--exact", "-Z", "concrete-playback", "--concrete-playback=print"]
    p = subprocess.run(cmd, cwd=KDIR, env=_env("kani_codes_target"), capture_output=True, text=True, timeout=timeout)
    return p.stdout + p.stderr


def run_one(h, timeout=900):
    """-> dict(harness, status verified|failed|error, seconds, domain[, input, replay_cmd, replay_exit_code, replay_output, detail])"""
    t0 = time.time()
    r = {"harness": h, "engine": ENGINE, "domain": DOMAINS[h]}
    try:
        _prepare()
        out = _kani(h, timeout)
        cov = _kani("errcode_cover", timeout) if h == "errcode_table" else "Status: SATISFIED Status: SATISFIED (cover harness runs with errcode_table)"
    except Exception as e:  # noqa
        r.update({"status": "error", "seconds": round(time.time() - t0, 1), "detail": str(e)[:300]})
        return r
    r["seconds"] = round(time.time() - t0, 1)
    m = re.search(r"\*\* (\d+) of (\d+) failed", out)
    r["cbmc_checks"] = int(m.group(2)) if m else 0
    r["covers_satisfied"] = len(re.findall(r"Status: SATISFIED", cov))
    if "VERIFICATION:- SUCCESSFUL" in out:
        if r["cbmc_checks"] == 0 or r["covers_satisfied"] < 2:
            r.update({"status": "error", "detail": "vacuity guard: %d checks, %d of 2 covers satisfied" % (r["cbmc_checks"], r["covers_satisfied"])})
        else:
            r["status"] = "verified"
        return r
    if "VERIFICATION:- FAILED" in out:
        blk = out[out.find("let concrete_vals"):]
        vals = re.findall(r"^\s*//\s*(-?\d+)[a-z]*\s*$", blk, re.M)
        r.update({"status": "failed", "input": vals, "kani_failed_checks": "; ".join(re.findall(r"Failed Checks: (.*)", out))[:300]})
        if vals:
            cmd = ["cargo", "run", "--offline", "-q", "--bin", "replay", "--", vals[0]] + (["msg"] if h == "errmsg_fingerprint" else [])
            env = _env("kani_codes_replay_target")
            p = subprocess.run(cmd, cwd=KDIR, env=env, capture_output=True, text=True, timeout=timeout)
            r.update({"replay_cmd": "cd %s && CARGO_NET_OFFLINE=true CARGO_TARGET_DIR=%s %s" % (KDIR, env["CARGO_TARGET_DIR"], " ".join(cmd)),
                      "replay_exit_code": p.returncode, "replay_output": (p.stdout + p.stderr[-300:])[-1500:]})
        return r
    r.update({"status": "error", "detail": out[-400:]})
    return r


def run(timeout=900):
    """both harnesses -> list of result dicts"""
    return [run_one("errcode_table", timeout), run_one("errmsg_fingerprint", timeout)]


if __name__ == "__main__":
    print(json.dumps(run(), indent=1))
