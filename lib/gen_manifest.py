#!/usr/bin/env python3
"""Writes MANIFEST.json from spec/properties_map.json + spec/manifest_notes.json."""
import json, os
ROOT = os.path.dirname(os.path.dirname(os.path.abspath(__file__)))
props = [json.loads(l) for l in open(os.path.join(ROOT, "properties.jsonl"))]
pm = json.load(open(os.path.join(ROOT, "spec", "properties_map.json")))
notes = json.load(open(os.path.join(ROOT, "spec", "manifest_notes.json")))
checks, na = [], []
for p in props:
    pid = p["id"]
    if pid in pm:
        n = notes["claimed"].get(pid, {})
        checks.append({
            "property_id": pid,
            "quick_cmd": "./check %s --tier quick" % pid,
            "thorough_cmd": "./check %s --tier thorough" % pid,
            "evidence_file": "/verif/evidence/%s.json" % pid,
            "replay_cmd_template": "./replay {path}",
            "engine": "verus-contracts",
            "level_claimed": {"category": "proof", "text": n.get("level_text", pm[pid].get("scope", "")), "design_ref": n.get("design_ref", "DESIGN.md §6 " + pid)},
            "level_note": n.get("level_note", "; ".join(pm[pid].get("assumptions", []))),
            "technique": n.get("technique", "contract-based deductive verification (Verus) of functions extracted mechanically from /repo"),
        })
    else:
        na.append({"property_id": pid, "reason": notes["not_applicable"].get(pid, "check not built yet (work in progress; see DESIGN.md)")})
m = {
    "version": 1,
    "setup_cmd": "./setup.sh",
    "hooks": {"guard": "zvt_verif", "enable": "none needed: route V reads /repo sources and rustc's macro expansion, route K links public items; no hook commits", "baseline_off_cmd": "cd /repo && cargo test --workspace --no-fail-fast --offline", "source_commits": [], "add_only": True},
    "engines": [{"name": "kani-errcodes", "path": "/verif/lib/kani_codes.py", "serves_properties": ["C20"], "kind_free_text": "COMPLETE over its domain (loop-free harness over kani::any::<u8>(), 1051 CBMC checks): Kani 0.68 harnesses K3 (kani_codes/) on the real zvt crate discharges the contract `ErrorMessages::from_u8(c) == em_from_u8(c)` that Verus unit U6 assumes of its one external_body repository function, for all 256 result codes, against spec/tables/errcodes.json (table.rs regenerated from it on every run); a returned variant also carries the code it was found under. Vacuity guard: two kani::cover! (Some and None reachable) and a non-zero check count. Second harness errmsg_fingerprint: Display of each listed code has the length, first and last byte of the frozen message text (spec/tables/errcodes.json `messages`; a fingerprint, NOT the full text). A failure yields the code, replayed on the real code by kani_codes/src/bin/replay.rs"}, {"name": "kani-twins", "path": "/verif/lib/kani_twin.py", "serves_properties": ["C01", "C02", "C03", "C04", "C14", "C16", "C17"], "kind_free_text": "BOUNDED stand-in, never counted as proved: 22 Kani 0.68 harnesses (kani/) on the real zvt_builder crate (domains stated per harness in lib/kani_twin.py BOUNDS). (a) asked for a concrete failing input when Verus refutes a leaf obligation (length styles, integer/BCD/tag encodings), replayed against the real code by ./replay; (b) in the thorough tier run as an independent cross-check; (c) when the deductive check of C01/C02/C04/C16/C17 ends undecided (rewritten body, unsupported construct), a harness that fails AND replays on the real code is reported as a VIOLATION with that input - a harness that passes leaves the outcome undecided"}, {"name": "verus-contracts", "path": "/verif/check", "serves_properties": sorted(pm.keys()), "kind_free_text": "Verus 0.2026.09.13 on units assembled by /verif/tool (zx) from /repo's working tree on every run"}],
    "checks": checks,
    "not_applicable": na,
    "notes": notes.get("notes", ""),
}
json.dump(m, open(os.path.join(ROOT, "MANIFEST.json"), "w"), indent=1)
print("claimed:", [c["property_id"] for c in checks])
