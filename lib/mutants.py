#!/usr/bin/env python3
"""Mechanical mutation sampling (development aid, complements the agent-made seeds): small operator mutations in the anchored
source files. A mutant that still compiles and passes the 34 existing tests is run against all checks (in an isolated
worktree: ZVT_REPO / VERIF_WORK), and the verdicts are recorded. usage: lib/mutants.py N SEED [out.jsonl]"""
import json, os, random, re, subprocess, sys, time

ROOT = os.path.dirname(os.path.dirname(os.path.abspath(__file__)))
MID = os.environ.get("MUT_ID", "")
WT = "/tmp/mut_wt" + MID
WORK = "/tmp/mut_work" + MID
FILES = ["zvt_builder/src/length.rs", "zvt_builder/src/encoding.rs", "zvt_builder/src/lib.rs", "zvt_derive/src/lib.rs", "zvt/src/io.rs",
         "zvt/src/sequences.rs", "zvt/src/feig/sequences.rs", "zvt/src/feig/packets/tlv.rs", "zvt/src/packets.rs", "zvt/src/packets/tlv.rs",
         "zvt_feig_terminal/src/feig.rs", "zvt_feig_terminal/src/stream.rs"]
if os.environ.get("MUT_FILES"):
    FILES = os.environ["MUT_FILES"].split(",")
OPS = [
    ("rel", r" < ", " <= "), ("rel", r" <= ", " < "), ("rel", r" > ", " >= "), ("rel", r" >= ", " > "), ("rel", r" == ", " != "), ("rel", r" != ", " == "),
    ("arith", r" \+ ", " - "), ("arith", r" - ", " + "),
    ("bool", r" && ", " || "), ("bool", r" \|\| ", " && "),
    ("neg", r"\(!", "("), ("neg", r"if !", "if "),
]


def sh(cmd, cwd=None, env=None, timeout=1800):
    p = subprocess.run(cmd, cwd=cwd, env=env, shell=isinstance(cmd, str), capture_output=True, text=True, timeout=timeout)
    return p.returncode, p.stdout + p.stderr


def candidates():
    out = []
    for f in FILES:
        src = open(os.path.join(WT, f)).read()
        cut = src.find("#[cfg(test)]")
        lines = (src if cut < 0 else src[:cut]).split("\n")
        for i, l in enumerate(lines):
            s = l.strip()
            if "AsyncReadExt" in s or "Pin<Box" in s or "dyn " in s or s.startswith("where") or s.startswith("impl<"):
                continue
            if not s or s.startswith("//") or s.startswith("///") or s.startswith("use ") or s.startswith("#[derive") or "debug!(" in s or "warn!(" in s or "info!(" in s or "println!(" in s:
                continue
            for kind, pat, rep in OPS:
                for m in re.finditer(pat, l):
                    if "->" in l[max(0, m.start() - 2):m.end() + 2] or "=>" in l[max(0, m.start() - 2):m.end() + 2]:
                        continue
                    out.append((f, i, kind, m.start(), m.end(), rep))
            # integer literals (decimal or hex), not in type positions
            for m in re.finditer(r"(?<![\w.])(0x[0-9a-fA-F]+|\d+)(?![\w.])", l):
                tok = m.group(1)
                if s.startswith("#[") and "zvt_" not in s:
                    continue
                v = int(tok, 16) if tok.startswith("0x") else int(tok)
                rep = ("0x%x" % (v + 1)) if tok.startswith("0x") else str(v + 1)
                out.append((f, i, "lit", m.start(1), m.end(1), rep))
            # statement deletion: a call statement on its own line
            if re.match(r"^[A-Za-z_][\w.]*(\.|::)[\w]+\(.*\);$", s) and not s.startswith("return") and not s.startswith("let "):
                out.append((f, i, "del", 0, len(l), "// (deleted) "))
    return out


def main():
    n, seed = int(sys.argv[1]), int(sys.argv[2])
    outp = sys.argv[3] if len(sys.argv) > 3 else os.path.join(ROOT, "mutants", "results.jsonl")
    if not os.path.isdir(WT):
        rc, o = sh("git -C /repo worktree add --detach %s" % WT)
        if rc:
            print(o); return 2
    sh("git checkout -q -- .", cwd=WT)
    cands = candidates()
    random.Random(seed).shuffle(cands)
    env = dict(os.environ, CARGO_TARGET_DIR=os.path.join(WT, "target"), CARGO_NET_OFFLINE="true")
    cenv = dict(os.environ, ZVT_REPO=WT, VERIF_WORK=WORK)
    done = 0
    for (f, i, kind, a, b, rep) in cands:
        if done >= n:
            break
        sh("git checkout -q -- .", cwd=WT)
        p = os.path.join(WT, f)
        lines = open(p).read().split("\n")
        before = lines[i]
        lines[i] = (rep + before) if kind == "del" else before[:a] + rep + before[b:]
        open(p, "w").write("\n".join(lines))
        t0 = time.time()
        try:
            rc, o = sh("timeout 900 cargo test --workspace --no-fail-fast --offline 2>&1 | grep -E '^test result|^error' ", cwd=WT, env=env, timeout=1000)
        except subprocess.TimeoutExpired:
            o = "error: test suite hangs"
            sh("pkill -f /tmp/mut_wt%s/target" % MID)
        passed = sum(int(x) for x in re.findall(r"(\d+) passed", o)); failed = sum(int(x) for x in re.findall(r"(\d+) failed", o))
        rec = {"file": f, "line": i + 1, "kind": kind, "before": before.strip(), "after": lines[i].strip(), "tests": "pass" if (passed == 34 and failed == 0 and "error" not in o) else "killed"}
        if rec["tests"] == "pass":
            rc, o = sh([os.path.join(ROOT, "check"), "ALL"], cwd=ROOT, env=cenv, timeout=3600)
            v = sorted(set(re.findall(r"^VIOLATION property=(\S+)", o, re.M))); u = sorted(set(re.findall(r"^UNDECIDED property=(\S+)", o, re.M)))
            rec.update({"violation": v, "undecided": u, "verdict": "VIOLATION" if v else ("UNDECIDED" if u else "ALL-OK")})
            done += 1
        rec["seconds"] = round(time.time() - t0, 1)
        open(outp, "a").write(json.dumps(rec) + "\n")
        print(rec["tests"], rec.get("verdict", ""), f, i + 1, kind, "|", rec["before"][:60], "=>", rec["after"][:60], flush=True)
    sh("git checkout -q -- .", cwd=WT)


if __name__ == "__main__":
    sys.exit(main())
