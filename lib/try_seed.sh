#!/bin/sh
# usage: lib/try_seed.sh <patch.diff> <PROPERTY...>   — apply a seeded change to /repo, run the checks, undo it
patch="$1"; shift
git -C /repo apply "$patch" || { echo "patch does not apply"; exit 9; }
git -C /repo diff --stat | tail -1
for p in "$@"; do /verif/check "$p" 2>/dev/null | grep -E "^(OK|VIOLATION|UNDECIDED|KNOWN|\()" | cut -c1-230 | head -4; done
git -C /repo checkout -- .
