//! K3: `ErrorMessages::from_u8` on the real zvt crate against the frozen result-code table, for all 256 codes.
pub mod table;
use num_traits::FromPrimitive;
use zvt::constants::ErrorMessages;

/// the contract U6 assumes of `from_u8` (`r == em_from_u8(c)`), plus: a returned variant carries the code it was found under
/// (C20 "the error identifies c")
pub fn check_code(c: u8) -> bool {
    let r = ErrorMessages::from_u8(c);
    let same_code = match &r {
        Some(e) => discriminant_of(e) == c,
        None => true,
    };
    table::agrees(c, &r) && same_code
}
fn discriminant_of(e: &ErrorMessages) -> u8 {
    // SAFETY-free: ErrorMessages is #[repr(u8)] and fieldless; `as u8` needs a value, so go through a pointer read of the tag
    unsafe { *(e as *const ErrorMessages as *const u8) }
}

#[cfg(kani)]
mod proofs {
    use super::*;
    /// loop-free over kani::any::<u8>(): complete for all 256 codes
    #[kani::proof]
    fn errcode_table() {
        let c: u8 = kani::any();
        assert!(check_code(c));
    }
    /// vacuity guard: both outcomes are reachable
    #[kani::proof]
    fn errcode_cover() {
        let c: u8 = kani::any();
        let r = ErrorMessages::from_u8(c);
        kani::cover!(r.is_some());
        kani::cover!(r.is_none());
    }
}
