//! K3: `ErrorMessages::from_u8` on the real zvt crate against the frozen result-code table, for all 256 codes.
pub mod table;
use num_traits::FromPrimitive;
use zvt::constants::ErrorMessages;

/// the contract U6 assumes of `from_u8` (`r == em_from_u8(c)`), plus: a returned variant carries the code it was found under
/// (C20 "the error identifies c")
pub fn check_code(c: u8) -> bool {
    let r = ErrorMessages::from_u8(c);
    let same_code = match &r {
        Some(e) => discriminant_of(e) == c,
        None => true,
    };
    table::agrees(c, &r) && same_code
}
fn discriminant_of(e: &ErrorMessages) -> u8 {
    // SAFETY-free: ErrorMessages is #[repr(u8)] and fieldless; `as u8` needs a value, so go through a pointer read of the tag
    unsafe { *(e as *const ErrorMessages as *const u8) }
}

/// a `fmt::Write` sink that compares what `Display` writes with the expected text on the fly (no allocation, no copy)
pub struct Expect { pub want: &'static [u8], pub at: usize, pub ok: bool }
impl std::fmt::Write for Expect {
    fn write_str(&mut self, s: &str) -> std::fmt::Result {
        let b = s.as_bytes();
        if self.at + b.len() > self.want.len() || &self.want[self.at..self.at + b.len()] != b { self.ok = false; }
        self.at += b.len();
        Ok(())
    }
}
/// C20 "for card reading the specification's message for c": what `Display` prints for the variant of code `c` is the
/// table's text for `c`, whole and nothing else
pub fn check_message(c: u8) -> bool {
    use std::fmt::Write;
    match (ErrorMessages::from_u8(c), table::message_of(c)) {
        (Some(e), Some(m)) => {
            let mut w = Expect { want: m.as_bytes(), at: 0, ok: true };
            let r = write!(w, "{}", e);
            r.is_ok() && w.ok && w.at == m.len()
        }
        (None, None) => true,
        _ => false,
    }
}

/// loop-free fingerprint sink: total length, first byte of the first piece, last byte of the last piece
pub struct Finger { pub n: usize, pub first: u8, pub last: u8 }
impl std::fmt::Write for Finger {
    fn write_str(&mut self, s: &str) -> std::fmt::Result {
        let b = s.as_bytes();
        if b.len() > 0 {
            if self.n == 0 { self.first = b[0]; }
            self.last = b[b.len() - 1];
            self.n += b.len();
        }
        Ok(())
    }
}
pub fn check_message_fingerprint(c: u8) -> bool {
    use std::fmt::Write;
    match (ErrorMessages::from_u8(c), table::message_of(c)) {
        (Some(e), Some(m)) => {
            let mut w = Finger { n: 0, first: 0, last: 0 };
            let r = write!(w, "{}", e);
            let mb = m.as_bytes();
            r.is_ok() && w.n == mb.len() && mb.len() > 0 && w.first == mb[0] && w.last == mb[mb.len() - 1]
        }
        (None, None) => true,
        _ => false,
    }
}

#[cfg(kani)]
mod proofs {
    use super::*;
    /// loop-free over kani::any::<u8>(): complete for all 256 codes
    #[kani::proof]
    fn errcode_table() {
        let c: u8 = kani::any();
        assert!(check_code(c));
    }
    // NOT a harness: `check_message` over kani::any::<u8>() (Display through core::fmt, memcmp unwinding 92) spent 260 s in
    // symbolic execution and did not finish within 10 minutes on this image; the message texts stay uninterpreted (seed C20g).
    #[kani::proof]
    fn errmsg_fingerprint() {
        let c: u8 = kani::any();
        assert!(check_message_fingerprint(c));
    }
    /// vacuity guard: both outcomes are reachable
    #[kani::proof]
    fn errcode_cover() {
        let c: u8 = kani::any();
        let r = ErrorMessages::from_u8(c);
        kani::cover!(r.is_some());
        kani::cover!(r.is_none());
    }
}
