//! `replay <code>`: runs ONE result code through the real `ErrorMessages::from_u8` and prints what the table prescribes.
use num_traits::FromPrimitive;
use zvt::constants::ErrorMessages;
fn main() {
    let a: Vec<String> = std::env::args().collect();
    if a.len() < 2 { eprintln!("usage: replay <code 0..255>"); std::process::exit(2); }
    let c: u8 = a[1].parse().expect("code");
    let r = ErrorMessages::from_u8(c);
    println!("ErrorMessages::from_u8({c} = {c:#04x}) = {r:?}; agrees with spec/tables/errcodes.json: {}", zvt_kani_codes::table::agrees(c, &r));
    let msg = a.get(2).map(|x| x == "msg").unwrap_or(false);
    if msg {
        println!("Display of that variant: {:?}; message of code {c:#04x} in the frozen table: {:?}", r.as_ref().map(|e| e.to_string()), zvt_kani_codes::table::message_of(c));
    }
    let ok = if msg { zvt_kani_codes::check_message_fingerprint(c) && zvt_kani_codes::check_message(c) } else { zvt_kani_codes::check_code(c) };
    println!("{}", if ok { "HOLDS" } else { "FAILS" });
    std::process::exit(if ok { 0 } else { 1 });
}
