//! Minimal token pretty-printer (no prettyplease offline).
//! Correctness rule: tokens are emitted in order and separated by a space unless
//! `Spacing::Joint` says they form one operator; everything else is cosmetic.
use proc_macro2::{Delimiter, Spacing, TokenStream, TokenTree};

const KEYWORDS: &[&str] = &[
    "if", "match", "while", "for", "in", "return", "let", "else", "loop", "as", "mut", "ref", "move",
    "break", "continue", "where", "impl", "fn", "pub", "use", "mod", "struct", "enum", "trait",
    "type", "const", "static", "unsafe", "dyn", "yield", "await", "async",
];
const PRIMS: &[&str] = &[
    "u8", "u16", "u32", "u64", "u128", "usize", "i8", "i16", "i32", "i64", "i128", "isize", "bool",
    "str", "char",
];

#[derive(Clone, PartialEq, Debug)]
enum Prev {
    None,
    Open,         // just after an opening delimiter or line start
    Ident(String),
    Lit,
    Close,        // after ) ] }
    Punct(char, bool), // char, was_joint
}

pub struct Printer {
    pub out: String,
    indent: usize,
    at_line_start: bool,
    prev: Prev,
    prevprev: Prev,
    generic_depth: usize,
    unary_mark: bool,
}

impl Printer {
    pub fn new(indent: usize) -> Self {
        Printer { out: String::new(), indent, at_line_start: true, prev: Prev::None, prevprev: Prev::None, generic_depth: 0, unary_mark: false }
    }
    fn newline(&mut self) {
        if !self.at_line_start {
            self.out.push('\n');
            self.at_line_start = true;
        }
        self.prev = Prev::Open;
        self.prevprev = Prev::Open;
        self.generic_depth = 0;
    }
    fn emit(&mut self, s: &str, space_before: bool) {
        if self.at_line_start {
            for _ in 0..self.indent {
                self.out.push_str("    ");
            }
            self.at_line_start = false;
        } else if space_before {
            self.out.push(' ');
        }
        self.out.push_str(s);
    }
    fn set_prev(&mut self, p: Prev) {
        self.prevprev = std::mem::replace(&mut self.prev, p);
    }
    fn is_kw(s: &str) -> bool {
        KEYWORDS.contains(&s)
    }
    fn unary_position(&self) -> bool {
        match &self.prev {
            Prev::None | Prev::Open => true,
            Prev::Punct(c, _) => *c != '?',
            Prev::Ident(s) => Self::is_kw(s),
            _ => false,
        }
    }
    fn generic_open_position(&self) -> bool {
        match &self.prev {
            Prev::None | Prev::Open => true,
            Prev::Punct(':', _) => true,
            Prev::Punct(c, _) => *c != '?',
            Prev::Ident(s) => {
                s.chars().next().map(|c| c.is_uppercase()).unwrap_or(false)
                    || PRIMS.contains(&s.as_str())
                    || s == "impl"
                    || matches!(&self.prevprev, Prev::Ident(p) if p == "fn")
            }
            _ => false,
        }
    }

    pub fn print(&mut self, ts: TokenStream, in_brace: bool) {
        let toks: Vec<TokenTree> = ts.into_iter().collect();
        let n = toks.len();
        let mut i = 0;
        while i < n {
            let tt = &toks[i];
            match tt {
                TokenTree::Group(g) => match g.delimiter() {
                    Delimiter::Brace => {
                        let sp = !matches!(self.prev, Prev::Open | Prev::None);
                        self.emit("{", sp);
                        if g.stream().is_empty() {
                            self.emit("}", false);
                        } else {
                            self.indent += 1;
                            self.newline();
                            self.print(g.stream(), true);
                            self.indent -= 1;
                            self.newline();
                            self.emit("}", false);
                        }
                        self.set_prev(Prev::Close);
                        // decide about newline after a closing brace
                        if in_brace {
                            let next = toks.get(i + 1);
                            let keep = match next {
                                None => true,
                                Some(TokenTree::Ident(id)) => id == "else",
                                Some(TokenTree::Punct(p)) => matches!(p.as_char(), ',' | ';' | '.' | '?' | ')'),
                                _ => false,
                            };
                            if !keep {
                                self.newline();
                            }
                        }
                    }
                    Delimiter::Parenthesis | Delimiter::Bracket => {
                        let (o, c) = if g.delimiter() == Delimiter::Parenthesis { ("(", ")") } else { ("[", "]") };
                        let sp = match &self.prev {
                            Prev::Ident(s) => Self::is_kw(s),
                            Prev::Punct('!', _) => false,
                            Prev::Punct('.', _) => false,
                            Prev::Punct(':', _) => false,
                            Prev::Punct('&', _) | Prev::Punct('*', _) | Prev::Punct('#', _) => false,
                            Prev::Punct('>', _) if self.generic_depth == 0 && matches!(self.prevprev, Prev::Ident(_) | Prev::Close) => false,
                            Prev::Punct(_, _) => true,
                            Prev::Close => false,
                            Prev::Lit => true,
                            Prev::Open | Prev::None => false,
                        };
                        self.emit(o, sp);
                        let saved = self.generic_depth;
                        self.generic_depth = 0;
                        self.set_prev(Prev::Open);
                        self.print(g.stream(), false);
                        self.generic_depth = saved;
                        self.emit(c, false);
                        self.set_prev(Prev::Close);
                    }
                    Delimiter::None => {
                        self.print(g.stream(), in_brace);
                    }
                },
                TokenTree::Ident(id) => {
                    let s = id.to_string();
                    let sp = match &self.prev {
                        Prev::Open | Prev::None => false,
                        Prev::Punct('.', false) => false,
                        Prev::Punct(':', _) if matches!(self.prevprev, Prev::Punct(':', true)) => false,
                        Prev::Punct('\'', _) => false,
                        Prev::Punct('<', _) if self.generic_depth > 0 => false,
                        Prev::Punct('$', _) => false,
                        Prev::Punct(c, _) if matches!(c, '&' | '*' | '!' | '-') && self.unary_mark => false,
                        _ => true,
                    };
                    self.emit(&s, sp);
                    self.set_prev(Prev::Ident(s));
                }
                TokenTree::Literal(l) => {
                    let s = l.to_string();
                    let sp = match &self.prev {
                        Prev::Open | Prev::None => false,
                        Prev::Punct('.', false) => false,
                        Prev::Punct('<', _) if self.generic_depth > 0 => false,
                        Prev::Punct(c, _) if matches!(c, '&' | '*' | '!' | '-') && self.unary_mark => false,
                        _ => true,
                    };
                    self.emit(&s, sp);
                    self.set_prev(Prev::Lit);
                }
                TokenTree::Punct(p) => {
                    let c = p.as_char();
                    let joint = p.spacing() == Spacing::Joint;
                    let prev_joint = matches!(self.prev, Prev::Punct(_, true));
                    let mut sp = !prev_joint;
                    let mut this_unary = false;
                    if !prev_joint {
                        match c {
                            ',' | ';' | '?' => sp = false,
                            '.' => {
                                // method call / field: no space; range `..` after expr: keep tight too
                                sp = false;
                            }
                            ':' => {
                                if joint {
                                    // `::`
                                    sp = matches!(self.prev, Prev::Punct(c2, _) if c2 != '<' && c2 != '&' && c2 != '(' ) && !matches!(self.prev, Prev::Punct('<', _));
                                    if matches!(self.prev, Prev::Ident(_) | Prev::Close | Prev::Open | Prev::None) { sp = false; }
                                    if matches!(self.prev, Prev::Punct('>', _)) { sp = false; }
                                } else {
                                    sp = false;
                                }
                            }
                            '<' => {
                                if !joint && self.generic_open_position() {
                                    self.generic_depth += 1;
                                    sp = matches!(self.prev, Prev::Punct(c2, _) if c2 != ':' && c2 != '&' && c2 != '<') ;
                                }
                            }
                            '>' => {
                                if self.generic_depth > 0 {
                                    self.generic_depth -= 1;
                                    sp = false;
                                }
                            }
                            '&' | '*' | '!' | '-' => {
                                if self.unary_position() && !(c == '-' && joint) {
                                    this_unary = true;
                                    sp = !matches!(self.prev, Prev::Open | Prev::None | Prev::Punct('&', _) | Prev::Punct('*', _) | Prev::Punct('!', _))
                                        || false;
                                    if matches!(self.prev, Prev::Punct('<', _)) && self.generic_depth > 0 { sp = false; }
                                } else if c == '!' && matches!(self.prev, Prev::Ident(_)) && !joint {
                                    // macro bang
                                    sp = false;
                                }
                            }
                            '\'' => {
                                if matches!(self.prev, Prev::Punct('<', _) | Prev::Punct('&', _)) { sp = false; }
                            }
                            '#' => {}
                            _ => {}
                        }
                    } else {
                        // second char of a joint operator
                        if c == '>' && self.generic_depth > 0 && !matches!(self.prev, Prev::Punct('-', _) | Prev::Punct('=', _)) {
                            self.generic_depth -= 1;
                        }
                    }
                    if matches!(self.prev, Prev::Open | Prev::None) {
                        sp = false;
                    }
                    let s = c.to_string();
                    self.emit(&s, sp);
                    self.unary_mark = this_unary;
                    self.set_prev(Prev::Punct(c, joint));
                    if in_brace && !joint {
                        if c == ';' {
                            self.newline();
                        } else if c == ',' {
                            self.newline();
                        }
                    }
                    i += 1;
                    continue;
                }
            }
            self.unary_mark = false;
            i += 1;
        }
    }
}

pub fn pretty(ts: TokenStream, indent: usize) -> String {
    let mut p = Printer::new(indent);
    p.print(ts, false);
    if !p.out.ends_with('\n') {
        p.out.push('\n');
    }
    p.out
}
