//! The closed list of normalisations (DESIGN.md §2.2, N1–N13). Each rewrite bumps
//! a counter that ends up in the evidence file. Anything not listed here is left
//! token-identical.
use crate::die;
use proc_macro2::Span;
use quote::ToTokens;
use std::collections::BTreeMap;
use syn::visit_mut::{self, VisitMut};
use syn::{parse_quote, Expr, Stmt};

#[derive(Default)]
pub struct Stats {
    pub counts: BTreeMap<String, usize>,
}
impl Stats {
    pub fn bump(&mut self, k: &str) {
        *self.counts.entry(k.to_string()).or_insert(0) += 1;
    }
}

/// stable 32-bit id of a format-string literal (FNV-1a), used to keep error sites apart
pub fn fmt_id(lit: &str) -> u64 {
    let mut h: u32 = 0x811c9dc5;
    for b in lit.bytes() {
        h ^= b as u32;
        h = h.wrapping_mul(0x01000193);
    }
    h as u64
}

/// split the arguments of bail!/anyhow!/format! into (format literal, other args)
fn fmt_args(m: &syn::Macro, desc: &str) -> Option<(String, Vec<Expr>)> {
    let parser = syn::punctuated::Punctuated::<Expr, syn::Token![,]>::parse_terminated;
    let args = match syn::parse::Parser::parse2(parser, m.tokens.clone()) {
        Ok(a) => a,
        Err(_) => die("unsupported", &format!("cannot parse arguments of `{}!` in {}", path_last(&m.path), desc)),
    };
    let mut it = args.into_iter();
    match it.next() {
        Some(Expr::Lit(syn::ExprLit { lit: syn::Lit::Str(ls), .. })) => Some((ls.value(), it.collect())),
        _ => None,
    }
}

fn ident(s: &str) -> syn::Ident {
    syn::Ident::new(s, Span::call_site())
}

pub fn rename_underscore_params(sig: &mut syn::Signature, stats: &mut Stats) {
    let mut k = 0;
    for a in sig.inputs.iter_mut() {
        if let syn::FnArg::Typed(pt) = a {
            if let syn::Pat::Wild(_) = &*pt.pat {
                let id = ident(&format!("_p{}", k));
                *pt.pat = parse_quote!(#id);
                k += 1;
                stats.bump("N1.wild_param");
            }
        }
    }
}

pub fn strip_item_attrs(item: &mut syn::Item, stats: &mut Stats) {
    fn keep(a: &syn::Attribute) -> bool {
        a.path().is_ident("repr")
    }
    match item {
        syn::Item::Struct(s) => {
            let n = s.attrs.len();
            s.attrs.retain(keep);
            for f in s.fields.iter_mut() {
                f.attrs.clear();
                f.vis = parse_quote!(pub);
                // N11: std HashMap<String, usize> -> VMap (specified finite map)
                let t = f.ty.to_token_stream().to_string().replace(' ', "");
                if t == "HashMap<String,usize>" || t == "std::collections::HashMap<String,usize>" {
                    f.ty = parse_quote!(VMap);
                    stats.bump("N11.hashmap_field");
                }
            }
            s.vis = parse_quote!(pub);
            if n > 0 {
                stats.bump("N13.item_attrs");
            }
        }
        syn::Item::Enum(e) => {
            e.attrs.retain(keep);
            for v in e.variants.iter_mut() {
                v.attrs.clear();
            }
            e.vis = parse_quote!(pub);
            stats.bump("N13.item_attrs");
        }
        syn::Item::Const(c) => {
            c.attrs.clear();
            c.vis = parse_quote!(pub);
            // `&T` in a const item is `&'static T` (lifetime elision rule for consts); Verus wants it spelled out
            if let syn::Type::Reference(r) = &mut *c.ty {
                if r.lifetime.is_none() {
                    r.lifetime = Some(syn::Lifetime::new("'static", Span::call_site()));
                    stats.bump("N13.const_static_lifetime");
                }
            }
        }
        syn::Item::Type(t) => {
            t.attrs.clear();
            t.vis = parse_quote!(pub);
        }
        syn::Item::Trait(t) => {
            t.attrs.clear();
            t.vis = parse_quote!(pub);
            for ti in t.items.iter_mut() {
                match ti {
                    syn::TraitItem::Const(c) => c.attrs.clear(),
                    syn::TraitItem::Fn(f) => f.attrs.clear(),
                    syn::TraitItem::Type(ty) => ty.attrs.clear(),
                    _ => {}
                }
            }
        }
        _ => {}
    }
}

fn path_last(p: &syn::Path) -> String {
    p.segments.last().map(|s| s.ident.to_string()).unwrap_or_default()
}

const LOG_MACROS: &[&str] = &["debug", "info", "warn", "error", "trace", "println", "eprintln"];

fn is_log_macro(m: &syn::Macro) -> bool {
    let last = path_last(&m.path);
    if !LOG_MACROS.contains(&last.as_str()) {
        return false;
    }
    // either bare (`debug!`) or `log::debug!`
    let n = m.path.segments.len();
    n == 1 || (n == 2 && m.path.segments[0].ident == "log")
}

/// N4 purity check: arguments of a dropped logging call may only be field
/// reads, literals, references, and calls to `simple_hex` / `len`.
fn log_args_pure(m: &syn::Macro, desc: &str) {
    struct Chk<'a> {
        desc: &'a str,
    }
    impl<'a> syn::visit::Visit<'a> for Chk<'a> {
        fn visit_expr(&mut self, e: &'a Expr) {
            match e {
                Expr::Call(c) => {
                    let f = c.func.to_token_stream().to_string().replace(' ', "");
                    if !(f.ends_with("simple_hex")) {
                        die("unsupported", &format!("N4: logging argument calls `{}` in {}", f, self.desc));
                    }
                }
                Expr::MethodCall(mc) => {
                    let n = mc.method.to_string();
                    if n != "len" {
                        die("unsupported", &format!("N4: logging argument calls `.{}()` in {}", n, self.desc));
                    }
                }
                Expr::Assign(_) | Expr::Macro(_) | Expr::Await(_) | Expr::Try(_) => {
                    die("unsupported", &format!("N4: impure logging argument in {}", self.desc));
                }
                _ => {}
            }
            syn::visit::visit_expr(self, e);
        }
    }
    let parser = syn::punctuated::Punctuated::<Expr, syn::Token![,]>::parse_terminated;
    match syn::parse::Parser::parse2(parser, m.tokens.clone()) {
        Ok(args) => {
            let mut c = Chk { desc };
            for a in args.iter() {
                syn::visit::Visit::visit_expr(&mut c, a);
            }
        }
        Err(_) => {
            // format strings with inline `{x:?}` args parse fine; anything else is refused
            die("unsupported", &format!("N4: cannot parse logging arguments in {}", desc));
        }
    }
}

/// Recognise rustc's expansion of a `log::…!` call:
/// `{ let lvl = ::log::Level::X; if lvl <= … { ::log::__private_api::log(…) } }`
fn is_expanded_log_block(b: &syn::Block) -> bool {
    if b.stmts.is_empty() {
        return false;
    }
    if let Stmt::Local(l) = &b.stmts[0] {
        if let syn::Pat::Ident(pi) = &l.pat {
            if pi.ident == "lvl" {
                if let Some(init) = &l.init {
                    let s = init.expr.to_token_stream().to_string().replace(' ', "");
                    return s.starts_with("::log::Level::");
                }
            }
        }
    }
    false
}

/// N4: arguments of a logging call that could panic when evaluated (indexing/slicing, arithmetic, casts of those, calls
/// other than `len`/`simple_hex`). Logging evaluates its arguments only when the record is enabled; the extraction keeps
/// such arguments as `let _ = &(ARG);` so that their safety stays an obligation (conservative: as if always enabled).
fn log_args_to_keep(tokens: proc_macro2::TokenStream) -> Option<Vec<Expr>> {
    struct Risky(bool);
    impl<'a> syn::visit::Visit<'a> for Risky {
        fn visit_expr(&mut self, e: &'a Expr) {
            match e {
                Expr::Index(_) | Expr::Range(_) => self.0 = true,
                Expr::Binary(b) => {
                    if matches!(b.op, syn::BinOp::Add(_) | syn::BinOp::Sub(_) | syn::BinOp::Mul(_) | syn::BinOp::Div(_) | syn::BinOp::Rem(_) | syn::BinOp::Shl(_) | syn::BinOp::Shr(_)) {
                        self.0 = true;
                    }
                }
                Expr::Unary(u) => { if matches!(u.op, syn::UnOp::Neg(_)) { self.0 = true; } }
                Expr::MethodCall(mc) => { if mc.method == "unwrap" || mc.method == "expect" { self.0 = true; } }
                _ => {}
            }
            syn::visit::visit_expr(self, e);
        }
    }
    let parser = syn::punctuated::Punctuated::<Expr, syn::Token![,]>::parse_terminated;
    match syn::parse::Parser::parse2(parser, tokens) {
        Ok(args) => {
            let mut keep = vec![];
            for a in args.iter().skip(1) {
                // named arguments `x = expr`
                let val: &Expr = if let Expr::Assign(asg) = a { &asg.right } else { a };
                let mut r = Risky(false);
                syn::visit::Visit::visit_expr(&mut r, val);
                if r.0 { keep.push(val.clone()); }
            }
            Some(keep)
        }
        Err(_) => None,
    }
}
/// the `format_args!(..)` inside rustc's expansion of a `log::…!` call
fn expanded_log_format_args(b: &syn::Block) -> Vec<proc_macro2::TokenStream> {
    struct F(Vec<proc_macro2::TokenStream>);
    impl<'a> syn::visit::Visit<'a> for F {
        fn visit_macro(&mut self, m: &'a syn::Macro) {
            if path_last(&m.path) == "format_args" { self.0.push(m.tokens.clone()); }
        }
    }
    let mut f = F(vec![]);
    syn::visit::Visit::visit_block(&mut f, b);
    f.0
}

fn stmt_is_log(s: &Stmt, desc: &str) -> bool {
    match s {
        Stmt::Macro(sm) => {
            if is_log_macro(&sm.mac) {
                log_args_pure(&sm.mac, desc);
                return true;
            }
            false
        }
        Stmt::Expr(Expr::Macro(em), _) => {
            if is_log_macro(&em.mac) {
                log_args_pure(&em.mac, desc);
                return true;
            }
            false
        }
        Stmt::Expr(Expr::Block(eb), _) => eb.label.is_none() && is_expanded_log_block(&eb.block),
        _ => false,
    }
}

struct Norm<'a> {
    stats: &'a mut Stats,
    desc: &'a str,
    loops: usize,
    /// kind of each loop in pre-order, after normalisation (`loop`, `while`, `for`)
    loop_kinds: Vec<&'static str>,
    tmp: usize,
    closure_args: usize,
    deref_idents: Vec<String>,
    keep_async: bool,
    yieldctx: Option<String>,
    opt_map: bool,
    dropnote: Option<String>,
    selfty: Option<String>,
    skip_sort: bool,
    subst: Option<(String, String)>,
    strviews: bool,
    forlist: bool,
    forslice: bool,
    nexton: Option<String>,
    before: Vec<String>,
    pub before_hits: Vec<usize>,
}

impl<'a> Norm<'a> {
    fn mark_loop(&mut self, body: &mut syn::Block, kind: &'static str) {
        let k = self.loops;
        self.loops += 1;
        self.loop_kinds.push(kind);
        let m = ident(&format!("__zx_loop_{}", k));
        let st: Stmt = parse_quote!(#m!(););
        body.stmts.insert(0, st);
    }

    /// N6 rewrites on one expression (after children were visited).
    /// N6: `S[a..b] == [x, y, ..]` (slice against array literal) ==> `v_bytes_eq(&S[a..b], &[x, y, ..])`
    /// (`==` between a slice and an array has no Verus specification; the adapter states element-wise equality)
    fn n6_slice_eq(&mut self, e: &mut Expr) {
        if let Expr::Binary(b) = e {
            if matches!(b.op, syn::BinOp::Eq(_)) {
                if let (Expr::Index(ix), Expr::Array(_)) = (&*b.left, &*b.right) {
                    if matches!(&*ix.index, Expr::Range(_)) {
                        let l = &b.left;
                        let r = &b.right;
                        *e = parse_quote!(v_bytes_eq(&#l, &#r));
                        self.stats.bump("N6.slice_eq_array");
                    }
                }
            }
        }
    }

    fn n6(&mut self, e: &mut Expr) {
        // X.to_le_bytes().to_vec()  /  X.to_be_bytes().to_vec()
        if let Expr::MethodCall(mc) = e {
            if mc.method == "to_vec" && mc.args.is_empty() {
                if let Expr::MethodCall(inner) = &*mc.receiver {
                    let m = inner.method.to_string();
                    if (m == "to_le_bytes" || m == "to_be_bytes") && inner.args.is_empty() {
                        let recv = &inner.receiver;
                        let name = ident(&format!("v_{}_vec", m));
                        *e = parse_quote!(#recv.#name());
                        self.stats.bump("N6.to_bytes_vec");
                        return;
                    }
                }
            }
            // [a, b].concat()
            if mc.method == "concat" && mc.args.is_empty() {
                if let Expr::Array(arr) = &*mc.receiver {
                    if arr.elems.len() == 2 {
                        let a = &arr.elems[0];
                        let b = &arr.elems[1];
                        *e = parse_quote!(v_concat2(#a, #b));
                        self.stats.bump("N6.concat2");
                        return;
                    }
                }
            }
        }
        // TY::from_xx_bytes(ARG)
        if let Expr::Call(c) = e {
            if let Expr::Path(p) = &*c.func {
                let last = path_last(&p.path);
                if (last == "from_le_bytes" || last == "from_be_bytes") && c.args.len() == 1 {
                    // type name: either qself `<u16>::f` or `u16::f`
                    let ty = if let Some(q) = &p.qself {
                        q.ty.to_token_stream().to_string().replace(' ', "")
                    } else if p.path.segments.len() == 2 {
                        p.path.segments[0].ident.to_string()
                    } else {
                        String::new()
                    };
                    if ["u8", "u16", "u32", "u64", "usize"].contains(&ty.as_str()) {
                        let arg = &c.args[0];
                        // ARG = R.try_into().unwrap()
                        if let Expr::MethodCall(un) = arg {
                            if un.method == "unwrap" {
                                if let Expr::MethodCall(ti) = &*un.receiver {
                                    if ti.method == "try_into" {
                                        let r = &ti.receiver;
                                        let name = ident(&format!("v_{}_{}_slice", ty, last));
                                        *e = parse_quote!(#name(&#r));
                                        self.stats.bump("N6.from_bytes_slice");
                                        return;
                                    }
                                }
                            }
                        }
                        let name = ident(&format!("v_{}_{}", ty, last));
                        *e = parse_quote!(#name(#arg));
                        self.stats.bump("N6.from_bytes");
                        return;
                    }
                }
            }
        }
        // N16: S.read_exact(&mut V[a..b]) ==> S.read_exact_range(&mut V, a, b);  `a..` ==> read_exact_from(&mut V, a)
        // (vstd has no specification for `IndexMut<Range>` on Vec; the adapter states what the sub-slice denotes)
        if let Expr::MethodCall(mc) = e {
            if mc.method == "read_exact" && mc.args.len() == 1 {
                if let Expr::Reference(rf) = &mc.args[0] {
                    if rf.mutability.is_some() {
                        if let Expr::Index(ix) = &*rf.expr {
                            if let Expr::Range(rg) = &*ix.index {
                                if let syn::RangeLimits::HalfOpen(_) = rg.limits {
                                    let base = &ix.expr;
                                    let recv = &mc.receiver;
                                    match (&rg.start, &rg.end) {
                                        (Some(lo), Some(hi)) => {
                                            *e = parse_quote!(#recv.read_exact_range(&mut #base, #lo, #hi));
                                            self.stats.bump("N16.read_exact_subslice");
                                            return;
                                        }
                                        (Some(lo), None) => {
                                            *e = parse_quote!(#recv.read_exact_from(&mut #base, #lo));
                                            self.stats.bump("N16.read_exact_subslice");
                                            return;
                                        }
                                        _ => {}
                                    }
                                }
                            }
                        }
                    }
                }
            }
        }
        // N9: X.map_err(|e| anyhow::anyhow!(..))  ==>  v_map_err_anyhow(X)
        if let Expr::MethodCall(me) = e {
            if me.method == "map_err" && me.args.len() == 1 {
                if let Expr::Closure(cl) = &me.args[0] {
                    let is_anyhow = match &*cl.body {
                        Expr::Macro(m) => path_last(&m.mac.path) == "anyhow",
                        // the inner `anyhow!(..)` has already been rewritten (post-order)
                        other => other.to_token_stream().to_string().replace(' ', "").starts_with("VErr::Msg("),
                    };
                    if is_anyhow {
                        let r = &me.receiver;
                        *e = parse_quote!(v_map_err_anyhow(#r));
                        self.stats.bump("N9.map_err_anyhow");
                        return;
                    }
                }
            }
        }
        // R.map_err(|_| X)?   ==>  match R { Ok(a) => a, Err(_) => return Err(X) }   (definition of map_err followed by `?`)
        if let Expr::Try(t) = e {
            if let Expr::MethodCall(me) = &*t.expr {
                if me.method == "map_err" && me.args.len() == 1 {
                    let is_try_into = matches!(&*me.receiver, Expr::MethodCall(ti) if ti.method == "try_into");
                    if !is_try_into {
                        if let Expr::Closure(cl) = &me.args[0] {
                            if cl.inputs.len() == 1 && matches!(cl.inputs[0], syn::Pat::Wild(_) | syn::Pat::Ident(_)) {
                                let uses_param = match &cl.inputs[0] {
                                    syn::Pat::Ident(pi) => cl.body.to_token_stream().to_string().split(|c: char| !c.is_alphanumeric() && c != '_').any(|w| w == pi.ident.to_string()),
                                    _ => false,
                                };
                                if !uses_param {
                                    let r = &me.receiver;
                                    let body = &cl.body;
                                    *e = parse_quote!(match #r { Ok(__a) => __a, Err(_) => return Err(#body) });
                                    self.stats.bump("N6.map_err_try");
                                    return;
                                }
                            }
                        }
                    }
                }
            }
        }
        // R.try_into().map_err(|_| X)?   ==>  match v_try_into(&R) { Ok(a) => a, Err(_) => return Err(X) }
        if let Expr::Try(t) = e {
            if let Expr::MethodCall(me) = &*t.expr {
                if me.method == "map_err" && me.args.len() == 1 {
                    if let Expr::MethodCall(ti) = &*me.receiver {
                        if ti.method == "try_into" && ti.args.is_empty() {
                            if let Expr::Closure(cl) = &me.args[0] {
                                if cl.inputs.len() == 1 && matches!(cl.inputs[0], syn::Pat::Wild(_) | syn::Pat::Ident(_)) {
                                    let r = &ti.receiver;
                                    let body = &cl.body;
                                    *e = parse_quote!(match v_try_into(&#r) { Ok(__a) => __a, Err(_) => return Err(#body) });
                                    self.stats.bump("N6.try_into_map_err");
                                    return;
                                }
                            }
                        }
                    }
                }
            }
        }
    }
}

impl<'a> Norm<'a> {
    /// N9: anyhow / format / error-conversion idioms (DESIGN.md §2.2)
    /// N9 rules that must see the whole expression before its parts are rewritten
    fn n9_pre(&mut self, e: &mut Expr) {
        if let Expr::MethodCall(mc) = e {
            // X.strip_prefix(LIT).unwrap_or(&Y).to_string()  ==>  v_strip_prefix_or(&X, LIT, &Y)
            if mc.method == "to_string" && mc.args.is_empty() {
                if let Expr::MethodCall(uo) = &*mc.receiver {
                    if uo.method == "unwrap_or" && uo.args.len() == 1 {
                        if let Expr::MethodCall(sp) = &*uo.receiver {
                            if sp.method == "strip_prefix" && sp.args.len() == 1 {
                                let x = &sp.receiver;
                                let lit = &sp.args[0];
                                let y = &uo.args[0];
                                *e = parse_quote!(v_strip_prefix_or(&#x, #lit, #y));
                                self.stats.bump("N9.strip_prefix_or");
                                return;
                            }
                        }
                    }
                }
            }
            // S[a..].to_string()  ==>  v_str_from(&S, a)
            if mc.method == "to_string" && mc.args.is_empty() {
                if let Expr::Index(ix) = &*mc.receiver {
                    if let Expr::Range(rg) = &*ix.index {
                        if let (Some(lo), None) = (&rg.start, &rg.end) {
                            let base = &ix.expr;
                            *e = parse_quote!(v_str_from(&#base, #lo));
                            self.stats.bump("N9.str_suffix");
                            return;
                        }
                    }
                }
            }
        }
    }

    /// N9 (string views): `&S[a..]` on a `String` and `X.strip_prefix(LIT).unwrap_or(Y)` on `&str` values, only in
    /// functions whose directive says `strviews` (the syntax alone does not tell a text slice from a byte slice)
    /// N17: `stream.next()` ==> `stream.next_on(&mut SOCK)` in client functions (directive option `nexton=SOCK`): the real
    /// stream owns `&mut SOCK`; the model's stream does not, so the poll names the socket whose ghost state it updates
    fn n17_nexton(&mut self, e: &mut Expr) {
        let Some(sock) = self.nexton.clone() else { return; };
        if let Expr::MethodCall(mc) = e {
            if mc.method == "next" && mc.args.is_empty() {
                if let Expr::Path(p) = &*mc.receiver {
                    if p.path.is_ident("stream") {
                        let sk: Expr = syn::parse_str(&sock).unwrap_or_else(|_| die("template", "nexton= is not an expression"));
                        let r = &mc.receiver;
                        *e = parse_quote!(#r.next_on(&mut #sk));
                        self.stats.bump("N17.next_on_socket");
                    }
                }
            }
        }
    }

    fn n9_strviews(&mut self, e: &mut Expr) {
        if !self.strviews { return; }
        if let Expr::Reference(rf) = e {
            if rf.mutability.is_none() {
                if let Expr::Index(ix) = &*rf.expr {
                    if let Expr::Range(rg) = &*ix.index {
                        if let (Some(lo), None) = (&rg.start, &rg.end) {
                            let base = &ix.expr;
                            *e = parse_quote!(v_str_tail(&#base, #lo));
                            self.stats.bump("N9.str_tail_view");
                            return;
                        }
                    }
                }
            }
        }
        if let Expr::MethodCall(uo) = e {
            if uo.method == "unwrap_or" && uo.args.len() == 1 {
                if let Expr::MethodCall(sp) = &*uo.receiver {
                    if sp.method == "strip_prefix" && sp.args.len() == 1 {
                        let x = &sp.receiver;
                        let lit = &sp.args[0];
                        let y = &uo.args[0];
                        *e = parse_quote!(v_strip_prefix_or_view(#x, #lit, #y));
                        self.stats.bump("N9.strip_prefix_or_view");
                    }
                }
            }
        }
    }

    /// N9 (hex crate): `<Vec<u8>>::from_hex(A)` ==> `v_from_hex(A)`, `X.encode_hex()` ==> `v_encode_hex(X)` (trait methods of an
    /// external crate on std types: adapters with uninterpreted text functions)
    fn n9_hex(&mut self, e: &mut Expr) {
        if let Expr::Call(c) = e {
            let f = c.func.to_token_stream().to_string().replace(' ', "");
            if f == "<Vec<u8>>::from_hex" && c.args.len() == 1 {
                let a = &c.args[0];
                *e = parse_quote!(v_from_hex(#a));
                self.stats.bump("N9.from_hex");
                return;
            }
        }
        if let Expr::MethodCall(mc) = e {
            if mc.method == "encode_hex" && mc.args.is_empty() {
                let r = &mc.receiver;
                *e = parse_quote!(v_encode_hex(#r));
                self.stats.bump("N9.encode_hex");
            }
        }
    }

    /// N10: `Err(X)?`  ==>  `return Err((X).into_verr())`  (an error raised on the spot and propagated by `?`)
    fn n10_err_try(&mut self, e: &mut Expr) {
        if let Expr::Try(t) = e {
            if let Expr::Call(c) = &*t.expr {
                if c.func.to_token_stream().to_string() == "Err" && c.args.len() == 1 {
                    let inner = &c.args[0];
                    *e = parse_quote!(return Err((#inner).into_verr()));
                    self.stats.bump("N10.err_try");
                }
            }
        }
    }

    /// N10: `Err(X.into())` ==> `Err((X).into_verr())` (conversion into the unit's one error type)
    fn n10_err_into(&mut self, e: &mut Expr) {
        if let Expr::Call(c) = e {
            if c.func.to_token_stream().to_string() == "Err" && c.args.len() == 1 {
                if let Expr::MethodCall(mc) = &c.args[0] {
                    if mc.method == "into" && mc.args.is_empty() && mc.turbofish.is_none() {
                        let inner = &mc.receiver;
                        *e = parse_quote!(Err((#inner).into_verr()));
                        self.stats.bump("N10.err_into");
                    }
                }
            }
        }
    }

    fn n9(&mut self, e: &mut Expr) {
        // bail!(..) / anyhow!(..) / format!(..) in expression position
        if let Expr::Macro(em) = e {
            let name = path_last(&em.mac.path);
            if name == "bail" || name == "anyhow" || name == "format" {
                let new: Expr = match fmt_args(&em.mac, self.desc) {
                    Some((lit, args)) => {
                        let id = fmt_id(&lit);
                        let idlit = syn::LitInt::new(&format!("{}u64", id), Span::call_site());
                        self.stats.bump(&format!("N9.{}_fmt", name));
                        if name == "format" {
                            match args.len() {
                                0 => parse_quote!(v_fmt0(#idlit)),
                                1 => { let a = &args[0]; parse_quote!(v_fmt1(#idlit, &#a)) }
                                2 => { let a = &args[0]; let b = &args[1]; parse_quote!(v_fmt2(#idlit, &#a, &#b)) }
                                _ => die("unsupported", &format!("format! with {} arguments in {}", args.len(), self.desc)),
                            }
                        } else if name == "bail" {
                            parse_quote!(return Err(VErr::Msg(#idlit)))
                        } else {
                            parse_quote!(VErr::Msg(#idlit))
                        }
                    }
                    None => {
                        if name != "bail" {
                            die("unsupported", &format!("`{}!` without a format literal in {}", name, self.desc));
                        }
                        let inner: Expr = syn::parse2(em.mac.tokens.clone()).unwrap_or_else(|_| die("unsupported", &format!("cannot parse bail! argument in {}", self.desc)));
                        self.stats.bump("N9.bail_value");
                        parse_quote!(return Err((#inner).into_verr()))
                    }
                };
                *e = new;
                return;
            }
        }
        // X.ok_or(E)?  ==>  match X { Some(v) => v, None => return Err((E).into_verr()) }
        if let Expr::Try(t) = e {
            if let Expr::MethodCall(mc) = &*t.expr {
                if mc.method == "ok_or" && mc.args.len() == 1 {
                    let recv = &mc.receiver;
                    let err = &mc.args[0];
                    *e = parse_quote!(match #recv { Some(__v) => __v, None => return Err((#err).into_verr()) });
                    self.stats.bump("N9.ok_or_try");
                    return;
                }
            }
        }
        // X.ok_or(E.into())  (no `?`)  ==>  match X { Some(v) => Ok(v), None => Err((E).into_verr()) }
        if let Expr::MethodCall(mc) = e {
            if mc.method == "ok_or" && mc.args.len() == 1 {
                if let Expr::MethodCall(inner) = &mc.args[0] {
                    if inner.method == "into" && inner.args.is_empty() {
                        let recv = &mc.receiver;
                        let err = &inner.receiver;
                        *e = parse_quote!(match #recv { Some(__v) => Ok(__v), None => Err((#err).into_verr()) });
                        self.stats.bump("N9.ok_or_into");
                        return;
                    }
                }
            }
            // OPT.map(|x| BODY)  ==>  match OPT { Some(x) => Some(BODY), None => None }   (definition of Option::map)
            if mc.method == "map" && mc.args.len() == 1 && self.opt_map {
                if let Expr::Closure(cl) = &mc.args[0] {
                    if cl.inputs.len() == 1 {
                        if let syn::Pat::Ident(pi) = &cl.inputs[0] {
                            let recv = &mc.receiver;
                            let x = &pi.ident;
                            let body = &cl.body;
                            *e = parse_quote!(match #recv { Some(#x) => Some(#body), None => None });
                            self.stats.bump("N9.option_map");
                            return;
                        }
                    }
                }
            }
            // X.parse::<usize>()  ==>  v_parse_usize(&X)
            if mc.method == "parse" && mc.args.is_empty() && mc.turbofish.is_some() {
                let tf = mc.turbofish.as_ref().unwrap().to_token_stream().to_string().replace(' ', "");
                if tf == "::<usize>" {
                    let recv = &mc.receiver;
                    *e = parse_quote!(v_parse_usize(&#recv));
                    self.stats.bump("N9.parse_usize");
                    return;
                }
            }
            // futures::stream::repeat(()).throttle(Duration::from_secs(S)).take(N)  ==>  v_retry(S, N)
            if mc.method == "take" && mc.args.len() == 1 {
                if let Expr::MethodCall(th) = &*mc.receiver {
                    if th.method == "throttle" && th.args.len() == 1 {
                        if let Expr::Call(rep) = &*th.receiver {
                            let f = rep.func.to_token_stream().to_string().replace(' ', "");
                            if f.ends_with("stream::repeat") {
                                if let Expr::Call(dur) = &th.args[0] {
                                    let df = dur.func.to_token_stream().to_string().replace(' ', "");
                                    if (df.ends_with("Duration::from_secs") || df == "v_duration_from_secs") && dur.args.len() == 1 {
                                        let s_ = &dur.args[0];
                                        let n = &mc.args[0];
                                        *e = parse_quote!(v_retry(#s_, #n));
                                        self.stats.bump("N9.retry_budget");
                                        return;
                                    }
                                }
                            }
                        }
                    }
                }
            }
        }
        // N7c: tokio::time::timeout(D, S.next())  ==>  S.next_timeout(D)   (the adapter may return Elapsed at any time)
        if let Expr::Call(c) = e {
            let f = c.func.to_token_stream().to_string().replace(' ', "");
            if f.ends_with("time::timeout") && c.args.len() == 2 {
                if let Expr::MethodCall(nx) = &c.args[1] {
                    if nx.method == "next" && nx.args.is_empty() {
                        let d = &c.args[0];
                        let sr = &nx.receiver;
                        *e = parse_quote!(#sr.next_timeout(#d));
                        self.stats.bump("N7.timeout_next");
                        return;
                    }
                }
            }
            // N8: inside a stream body `drop(X)` of the listed variable is also recorded in the sink's ghost log
            if f == "drop" && c.args.len() == 1 {
                if let Some(dn) = &self.dropnote {
                    if c.args[0].to_token_stream().to_string() == *dn {
                        let a = &c.args[0];
                        *e = parse_quote!(__sink.note_drop(#a));
                        self.stats.bump("N8.drop_noted");
                        return;
                    }
                }
            }
        }
        // Duration::from_secs(X) ==> v_duration_from_secs(X)
        if let Expr::Call(c) = e {
            let f = c.func.to_token_stream().to_string().replace(' ', "");
            // N11b: std::collections::HashSet::<u16>::{new,from}  ==>  VTagSet::{new,from}
            if f.contains("HashSet::<u16>::") && (f.ends_with("::new") || f.ends_with("::from")) {
                let last = if f.ends_with("::new") { ident("new") } else { ident("from") };
                let args = &c.args;
                *e = parse_quote!(VTagSet::#last(#args));
                self.stats.bump("N11b.tagset");
                return;
            }
            if (f == "HashMap::new" || f.ends_with("::HashMap::new")) && c.args.is_empty() {
                *e = parse_quote!(VMap::new());
                self.stats.bump("N11.hashmap_new");
                return;
            }
            if f.ends_with("Duration::from_secs") && c.args.len() == 1 {
                let a = &c.args[0];
                *e = parse_quote!(v_duration_from_secs(#a));
                self.stats.bump("N9.duration_from_secs");
                return;
            }
        }
    }
}

impl<'a> VisitMut for Norm<'a> {
    fn visit_block_mut(&mut self, b: &mut syn::Block) {
        // N4 + N2 operate on statement lists
        let old = std::mem::take(&mut b.stmts);
        let mut new: Vec<Stmt> = Vec::with_capacity(old.len());
        let mut pending_after: Vec<Stmt> = Vec::new();
        for s in old.into_iter() {
            // `//@ after <prefix>` markers go behind everything the anchored statement was turned into
            new.append(&mut pending_after);
            if stmt_is_log(&s, self.desc) {
                self.stats.bump("N4.log_stmt");
                let toks: Vec<proc_macro2::TokenStream> = match &s {
                    Stmt::Macro(sm) => vec![sm.mac.tokens.clone()],
                    Stmt::Expr(Expr::Macro(em), _) => vec![em.mac.tokens.clone()],
                    Stmt::Expr(Expr::Block(eb), _) => expanded_log_format_args(&eb.block),
                    _ => vec![],
                };
                for t in toks {
                    match log_args_to_keep(t) {
                        Some(keep) => {
                            for mut k in keep {
                                // the kept argument is ordinary code: normalise it like the rest of the body
                                self.visit_expr_mut(&mut k);
                                new.push(parse_quote!(let _ = &(#k);));
                                self.stats.bump("N4.log_argument_kept_evaluated");
                            }
                        }
                        None => die("unsupported", &format!("N4: cannot parse logging arguments in {}", self.desc)),
                    }
                }
                continue;
            }
            // stray `;` left by macro expansion
            if let Stmt::Expr(Expr::Verbatim(ts), _) = &s {
                if ts.is_empty() {
                    continue;
                }
            }
            // ghost-text anchors: `//@ before <statement prefix>` (proof blocks only; checked by the template scan)
            if !self.before.is_empty() {
                let t: String = s.to_token_stream().to_string().chars().filter(|c| !c.is_whitespace()).collect();
                // sections that share one prefix are matched in order: the j-th of them to the j-th matching statement
                let mut taken: Vec<String> = vec![];
                for (k, pfx) in self.before.clone().iter().enumerate() {
                    let shared = self.before.iter().filter(|p| *p == pfx).count() > 1;
                    if shared && (self.before_hits[k] > 0 || taken.contains(pfx)) {
                        continue;
                    }
                    if let Some(apfx) = pfx.strip_prefix("AFTER:") {
                        if t.starts_with(apfx) {
                            let m = ident(&format!("__zx_before_{}", k));
                            pending_after.push(parse_quote!(#m!();));
                            self.before_hits[k] += 1;
                            taken.push(pfx.clone());
                        }
                    } else if t.starts_with(pfx.as_str()) {
                        let m = ident(&format!("__zx_before_{}", k));
                        new.push(parse_quote!(#m!();));
                        self.before_hits[k] += 1;
                        taken.push(pfx.clone());
                    }
                }
            }
            // N23: `let Some(&x) = E else { .. };`  ==>  `let Some(__ref_x) = E else { .. }; let x = *__ref_x;`
            // (a reference pattern copies the referent out; Verus does not support reference patterns)
            let mut s = s;
            let mut derefs: Vec<Stmt> = Vec::new();
            if let Stmt::Local(l) = &mut s {
                struct RefPat<'a> { out: &'a mut Vec<Stmt> }
                impl<'a> VisitMut for RefPat<'a> {
                    fn visit_pat_mut(&mut self, p: &mut syn::Pat) {
                        if let syn::Pat::Reference(r) = p {
                            if let syn::Pat::Ident(pi) = &*r.pat {
                                if r.mutability.is_none() && pi.subpat.is_none() && pi.by_ref.is_none() {
                                    let id = pi.ident.clone();
                                    let tmp = ident(&format!("__ref_{}", id));
                                    let m = pi.mutability;
                                    self.out.push(parse_quote!(let #m #id = *#tmp;));
                                    *p = parse_quote!(#tmp);
                                    return;
                                }
                            }
                        }
                        visit_mut::visit_pat_mut(self, p);
                    }
                }
                RefPat { out: &mut derefs }.visit_pat_mut(&mut l.pat);
            }
            if !derefs.is_empty() {
                self.stats.bump("N23.reference_pattern_in_let");
                pending_after.splice(0..0, derefs);
            }
            // N12: `let mut v: Vec<_> = SET.into_iter().map(|c| Tag(c)).collect(); v.sort_by_key(|t| t.0);`
            //      ==> `let mut v: Vec<_> = v_sorted_tags(SET);`   (iterator adapters are outside Verus; trusted stub T7)
            if let Stmt::Local(l) = &s {
                if let Some(init) = &l.init {
                    if let Expr::MethodCall(col) = &*init.expr {
                        if col.method == "collect" {
                            if let Expr::MethodCall(mp) = &*col.receiver {
                                if mp.method == "map" {
                                    if let Expr::MethodCall(ii) = &*mp.receiver {
                                        if ii.method == "into_iter" {
                                            let set = &ii.receiver;
                                            let pat = &l.pat;
                                            new.push(parse_quote!(let #pat = v_sorted_tags(#set);));
                                            self.stats.bump("N12.sorted_tags");
                                            self.skip_sort = true;
                                            continue;
                                        }
                                    }
                                }
                            }
                        }
                    }
                }
            }
            if self.skip_sort {
                if let Stmt::Expr(Expr::MethodCall(mc), Some(_)) = &s {
                    if mc.method == "sort_by_key" {
                        self.skip_sort = false;
                        continue;
                    }
                }
                die("unsupported", &format!("N12: expected sort_by_key after the collected tag vector in {}", self.desc));
            }
            // tokio::pin!(x): pinning has no effect on sequential semantics
            if let Stmt::Macro(sm) = &s {
                if path_last(&sm.mac.path) == "pin" {
                    self.stats.bump("N7.pin_removed");
                    continue;
                }
            }
            // bail!(..) as a statement: make it an expression statement so that N9 applies
            if let Stmt::Macro(sm) = &s {
                if path_last(&sm.mac.path) == "bail" {
                    let mac = &sm.mac;
                    let ex: Expr = Expr::Macro(syn::ExprMacro { attrs: vec![], mac: mac.clone() });
                    new.push(Stmt::Expr(ex, Some(Default::default())));
                    continue;
                }
            }
            // N2: (a, b) = e;
            if let Stmt::Expr(Expr::Assign(asg), Some(_)) = &s {
                if let Expr::Tuple(tup) = &*asg.left {
                    let t = ident(&format!("__t{}", self.tmp));
                    self.tmp += 1;
                    let rhs = &asg.right;
                    new.push(parse_quote!(let #t = #rhs;));
                    for (k, el) in tup.elems.iter().enumerate() {
                        let idx = syn::Index::from(k);
                        new.push(parse_quote!(#el = #t.#idx;));
                    }
                    self.stats.bump("N2.destructuring_assign");
                    continue;
                }
            }
            new.push(s);
        }
        new.append(&mut pending_after);
        b.stmts = new;
        visit_mut::visit_block_mut(self, b);
    }

    fn visit_expr_mut(&mut self, e: &mut Expr) {
        // N14: `for P in (LO..HI).rev() B`  ==>  `{ let __lo = LO; let mut __hi = HI; while __lo < __hi { __hi -= 1; let P = __hi; B } }`
        // (definition of Rev<Range<_>>::next; Verus cannot use its Rev specs inside trait impls)
        if let Expr::ForLoop(f) = e {
            if f.label.is_none() {
                if let Expr::MethodCall(mc) = &*f.expr {
                    if mc.method == "rev" && mc.args.is_empty() {
                        let inner = match &*mc.receiver {
                            Expr::Paren(p) => &*p.expr,
                            other => other,
                        };
                        if let Expr::Range(r) = inner {
                            if let (Some(lo), Some(hi), syn::RangeLimits::HalfOpen(_)) = (&r.start, &r.end, &r.limits) {
                                let pat = &f.pat;
                                let stmts = &f.body.stmts;
                                let new: Expr = parse_quote!({
                                    let __lo = #lo;
                                    let mut __hi = #hi;
                                    while __lo < __hi {
                                        __hi -= 1;
                                        let #pat = __hi;
                                        #(#stmts)*
                                    }
                                });
                                *e = new;
                                self.stats.bump("N14.rev_range_loop");
                            }
                        }
                    }
                }
            }
        }
        // N18 (directive option `forlist`): `for P in E B`  ==>  `{ let __it = E; let mut __i: usize = 0; while __i < __it.len() { let P = __it[__i]; __i += 1; B } }`
        // for loops over a model listing (a Vec standing for an iterator's items); Verus for-loops do not support `continue`
        if self.forlist {
            if let Expr::ForLoop(f) = e {
                if f.label.is_none() {
                    let pat = &f.pat;
                    let ex = &f.expr;
                    let stmts = &f.body.stmts;
                    let new: Expr = parse_quote!({
                        let __it = #ex;
                        let mut __i: usize = 0;
                        while __i < __it.len() {
                            let #pat = __it[__i];
                            __i += 1;
                            #(#stmts)*
                        }
                    });
                    *e = new;
                    self.stats.bump("N18.for_over_listing_as_while");
                }
            }
        }
        // N20: `X.iter().flat_map(|item| F).collect()`  ==>  `{ let mut __out = Vec::new(); for item in X.iter() { let mut __part = F; __out.append(&mut __part); } __out }`
        // (what flat_map + collect into a Vec mean for a closure that returns a Vec; makes the iteration a loop Verus can see)
        if let Expr::MethodCall(col) = e {
            if col.method == "collect" && col.args.is_empty() {
                if let Expr::MethodCall(fm) = &*col.receiver {
                    if fm.method == "flat_map" && fm.args.len() == 1 {
                        if let (Expr::Closure(cl), Expr::MethodCall(it)) = (&fm.args[0], &*fm.receiver) {
                            if it.method == "iter" && it.args.is_empty() && cl.inputs.len() == 1 {
                                let pat = &cl.inputs[0];
                                let body = &cl.body;
                                let src = &fm.receiver;
                                let new: Expr = parse_quote!({
                                    let mut __out = Vec::new();
                                    for #pat in #src {
                                        let mut __part = #body;
                                        __out.append(&mut __part);
                                    }
                                    __out
                                });
                                *e = new;
                                self.stats.bump("N20.flat_map_collect_as_loop");
                            }
                        }
                    }
                }
            }
        }
        // N21: `match S { [p0, p1, rest @ ..] => A, [] => B, .. }` (slice patterns, which Verus does not support)  ==>
        // `{ let __s = S; if LEN-AND-LITERAL-TEST { let p_i = &__s[i]; let rest = &__s[k..]; A } else if .. }`
        // (definition of slice-pattern matching under default binding modes: arms in order, an element binding is a
        // reference to that element, `rest @ ..` the sub-slice between the fixed elements; the last arm of a match that
        // rustc accepted as exhaustive needs no test)
        if let Expr::Match(m) = e {
            if let Some(new) = slice_match_as_if_chain(m) {
                *e = new;
                self.stats.bump("N21.slice_pattern_match_as_if_chain");
            }
        }
        // N22: `match S[i] { P if G => .., .. }`  ==>  `{ let __m = S[i]; match __m { P if G => .., .. } }`
        // (an indexed element of a Copy type read once, as the match does; Verus 0.2026.09.13 panics in ast_to_sst on a guarded
        // match whose scrutinee is an index expression)
        if let Expr::Match(m) = e {
            if matches!(&*m.expr, Expr::Index(_)) && m.arms.iter().any(|a| a.guard.is_some()) {
                let sc = (*m.expr).clone();
                *m.expr = parse_quote!(__m);
                let inner = Expr::Match(m.clone());
                *e = parse_quote!({ let __m = #sc; #inner });
                self.stats.bump("N22.guarded_match_on_index_via_local");
            }
        }
        // N18b (directive option `forslice`): `for P in E.iter() B`  ==>  `{ let __it = &E; let mut __i: usize = 0; while __i < __it.len() { let P = &__it[__i]; __i += 1; B } }`
        // (definition of iterating a slice/array by reference)
        if self.forslice {
            if let Expr::ForLoop(f) = e {
                if f.label.is_none() {
                    if let Expr::MethodCall(mc) = &*f.expr {
                        if mc.method == "iter" && mc.args.is_empty() {
                            let pat = &f.pat;
                            let recv = &mc.receiver;
                            let stmts = &f.body.stmts;
                            let new: Expr = parse_quote!({
                                let __it = &#recv;
                                let mut __i: usize = 0;
                                while __i < __it.len() {
                                    let #pat = &__it[__i];
                                    __i += 1;
                                    #(#stmts)*
                                }
                            });
                            *e = new;
                            self.stats.bump("N18.for_over_slice_as_while");
                        }
                    }
                }
            }
        }
        // loops are numbered in pre-order
        match e {
            Expr::While(w) => self.mark_loop(&mut w.body, "while"),
            Expr::ForLoop(f) => {
                // name the ghost iterator (`for x in iter: e`) — specification syntax only
                let ex = &f.expr;
                *f.expr = parse_quote!(__zx_iter!(#ex));
                self.mark_loop(&mut f.body, "for")
            }
            Expr::Loop(l) => self.mark_loop(&mut l.body, "loop"),
            _ => {}
        }
        self.n9_pre(e);
        visit_mut::visit_expr_mut(self, e);
        // N7 await
        if !self.keep_async {
            if let Expr::Await(a) = e {
                let base = (*a.base).clone();
                *e = base;
                self.stats.bump("N7.await");
            }
        }
        // N8: `yield e` ==> `__sink.emit(e, Ghost(CTX.stamp()))` (the sink records the transport state at the yield)
        if let Expr::Yield(y) = e {
            let ctx = match &self.yieldctx {
                Some(c) => ident(c),
                None => die("unsupported", &format!("`yield` outside a stream body in {}", self.desc)),
            };
            let val: Expr = match &y.expr {
                Some(v) => (**v).clone(),
                None => parse_quote!(()),
            };
            if ctx == "none" {
                *e = parse_quote!(__sink.emit(#val));
            } else {
                *e = parse_quote!(__sink.emit(#val, Ghost(#ctx.stamp())));
            }
            self.stats.bump("N8.yield");
            return;
        }
        // N4 in expression position (match arm body): replace by ()
        if let Expr::Macro(em) = e {
            if is_log_macro(&em.mac) {
                log_args_pure(&em.mac, self.desc);
                let keep = log_args_to_keep(em.mac.tokens.clone()).unwrap_or_else(|| die("unsupported", &format!("N4: cannot parse logging arguments in {}", self.desc)));
                if keep.is_empty() {
                    *e = parse_quote!(());
                } else {
                    let n = keep.len();
                    *e = parse_quote!({ #(let _ = &(#keep);)* });
                    for _ in 0..n { self.stats.bump("N4.log_argument_kept_evaluated"); }
                }
                self.stats.bump("N4.log_expr");
                return;
            }
        }
        // N3: `d & m` / `d >> k` with d: &u8 at listed identifiers
        if let Expr::Binary(b) = e {
            if matches!(b.op, syn::BinOp::BitAnd(_) | syn::BinOp::Shr(_)) {
                if let Expr::Path(p) = &*b.left {
                    if p.path.segments.len() == 1 && self.deref_idents.contains(&p.path.segments[0].ident.to_string()) {
                        let l = &b.left;
                        *b.left = parse_quote!(*#l);
                        self.stats.bump("N3.deref_ref_operand");
                    }
                }
            }
        }
        self.n6_slice_eq(e);
        self.n6(e);
        self.n9(e);
        self.n9_strviews(e);
        self.n17_nexton(e);
        self.n10_err_into(e);
        self.n10_err_try(e);
        self.n9_hex(e);
    }

    fn visit_path_mut(&mut self, p: &mut syn::Path) {
        // trait-method body verified as a free generic function: `Self` is the type parameter named by `selfty`
        if let Some(q) = &self.selfty {
            for seg in p.segments.iter_mut() {
                if seg.ident == "Self" {
                    seg.ident = ident(q);
                    self.stats.bump("N15.self_as_type_param");
                }
            }
        }
        // a materialised trait default body inside an impl that fixes a trait type parameter: `E` -> the impl's type
        if let Some((from, to)) = &self.subst {
            if p.leading_colon.is_none() && !p.segments.is_empty() && p.segments[0].ident == from.as_str() && p.segments[0].arguments.is_none() {
                let newp: syn::Path = syn::parse_str(to).unwrap_or_else(|_| die("template", "bad subst path"));
                let rest: Vec<syn::PathSegment> = p.segments.iter().skip(1).cloned().collect();
                let mut segs = newp.segments.clone();
                for r in rest {
                    segs.push(r);
                }
                p.segments = segs;
                p.leading_colon = newp.leading_colon;
                self.stats.bump("N15.type_param_instantiated");
            }
        }
        visit_mut::visit_path_mut(self, p);
    }

    fn visit_expr_closure_mut(&mut self, c: &mut syn::ExprClosure) {
        // N1
        for p in c.inputs.iter_mut() {
            if let syn::Pat::Wild(_) = p {
                let id = ident(&format!("_a{}", self.closure_args));
                self.closure_args += 1;
                *p = parse_quote!(#id);
                self.stats.bump("N1.wild_closure_param");
            }
        }
        visit_mut::visit_expr_closure_mut(self, c);
    }

    fn visit_expr_match_mut(&mut self, m: &mut syn::ExprMatch) {
        // N5: tuple patterns of associated constants
        for arm in m.arms.iter_mut() {
            if let syn::Pat::Tuple(pt) = &arm.pat {
                let all_qpath = !pt.elems.is_empty()
                    && pt.elems.iter().all(|p| matches!(p, syn::Pat::Path(pp) if pp.qself.is_some()));
                if all_qpath && arm.guard.is_none() {
                    let mut binds: Vec<syn::Ident> = Vec::new();
                    let mut conds: Vec<Expr> = Vec::new();
                    for (k, p) in pt.elems.iter().enumerate() {
                        let id = ident(&format!("__m{}", k));
                        if let syn::Pat::Path(pp) = p {
                            let pe: Expr = Expr::Path(syn::ExprPath { attrs: vec![], qself: pp.qself.clone(), path: pp.path.clone() });
                            conds.push(parse_quote!(#id == #pe));
                        }
                        binds.push(id);
                    }
                    let mut guard: Expr = conds[0].clone();
                    for c in conds.iter().skip(1) {
                        guard = parse_quote!(#guard && #c);
                    }
                    arm.pat = parse_quote!((#(#binds),*));
                    arm.guard = Some((Default::default(), Box::new(guard)));
                    self.stats.bump("N5.assoc_const_pattern");
                }
            }
        }
        visit_mut::visit_expr_match_mut(self, m);
    }
}

/// Returns the number of loops found (pre-order numbering).
/// N21 (see `visit_expr_mut`). `None` when the match is not a plain slice-pattern match (guards, nested patterns other than
/// literals / ranges / bindings / `_`): the match is then left as it is.
fn slice_match_as_if_chain(m: &syn::ExprMatch) -> Option<Expr> {
    use syn::Pat;
    if !m.arms.iter().any(|a| matches!(a.pat, Pat::Slice(_))) {
        return None;
    }
    let scrut = &m.expr;
    // (condition, bindings, body); condition None = catch-all
    let mut parts: Vec<(Option<Expr>, Vec<syn::Stmt>, Expr)> = Vec::new();
    for arm in &m.arms {
        if arm.guard.is_some() {
            return None;
        }
        let body = (*arm.body).clone();
        match &arm.pat {
            Pat::Wild(_) => parts.push((None, vec![], body)),
            Pat::Ident(pi) if pi.subpat.is_none() && pi.by_ref.is_none() => {
                let id = &pi.ident;
                parts.push((None, vec![parse_quote!(let #id = __s;)], body));
            }
            Pat::Slice(ps) => {
                let n = ps.elems.len();
                let is_rest = |p: &Pat| match p {
                    Pat::Rest(_) => true,
                    Pat::Ident(pi) => matches!(pi.subpat.as_ref().map(|(_, sp)| &**sp), Some(Pat::Rest(_))),
                    _ => false,
                };
                let rest_pos: Vec<usize> = ps.elems.iter().enumerate().filter(|(_, p)| is_rest(p)).map(|(i, _)| i).collect();
                if rest_pos.len() > 1 {
                    return None;
                }
                let (nb, na) = match rest_pos.first() {
                    Some(&r) => (r, n - r - 1),
                    None => (n, 0),
                };
                let fixed = nb + na;
                let mut cond: Expr = if rest_pos.is_empty() { parse_quote!(__s.len() == #fixed) } else { parse_quote!(__s.len() >= #fixed) };
                let mut lets: Vec<syn::Stmt> = Vec::new();
                for (i, p) in ps.elems.iter().enumerate() {
                    if is_rest(p) {
                        if let Pat::Ident(pi) = p {
                            let id = &pi.ident;
                            if na == 0 {
                                lets.push(parse_quote!(let #id = &__s[#nb..];));
                            } else {
                                lets.push(parse_quote!(let #id = &__s[#nb..__s.len() - #na];));
                            }
                        }
                        continue;
                    }
                    let at: Expr = if i < nb {
                        parse_quote!(__s[#i])
                    } else {
                        let back = n - i;
                        parse_quote!(__s[__s.len() - #back])
                    };
                    match p {
                        Pat::Wild(_) => {}
                        Pat::Ident(pi) if pi.subpat.is_none() && pi.by_ref.is_none() && pi.mutability.is_none() => {
                            let id = &pi.ident;
                            lets.push(parse_quote!(let #id = &#at;));
                        }
                        Pat::Lit(l) => {
                            cond = parse_quote!(#cond && #at == #l);
                        }
                        Pat::Range(r) => {
                            let (lo, hi) = (r.start.as_ref()?, r.end.as_ref()?);
                            match r.limits {
                                syn::RangeLimits::Closed(_) => cond = parse_quote!(#cond && #lo <= #at && #at <= #hi),
                                syn::RangeLimits::HalfOpen(_) => cond = parse_quote!(#cond && #lo <= #at && #at < #hi),
                            }
                        }
                        Pat::Or(o) => {
                            let mut alts: Vec<Expr> = Vec::new();
                            for c in &o.cases {
                                if let Pat::Lit(l) = c {
                                    alts.push(parse_quote!(#at == #l));
                                } else {
                                    return None;
                                }
                            }
                            cond = parse_quote!(#cond && (#(#alts)||*));
                        }
                        _ => return None,
                    }
                }
                parts.push((Some(cond), lets, body));
            }
            _ => return None,
        }
    }
    // the last arm of an exhaustive match needs no test
    let mut chain: Option<Expr> = None;
    for (k, (cond, lets, body)) in parts.iter().enumerate().rev() {
        let blk: Expr = parse_quote!({ #(#lets)* #body });
        chain = Some(match (cond, chain.take()) {
            (None, _) => blk,
            (Some(_), None) if k + 1 == parts.len() => blk,
            (Some(c), Some(rest)) => match rest {
                Expr::If(_) | Expr::Block(_) => parse_quote!(if #c #blk else #rest),
                other => parse_quote!(if #c #blk else { #other }),
            },
            (Some(_), None) => return None,
        });
    }
    let chain = chain?;
    Some(parse_quote!({ let __s = #scrut; #chain }))
}

pub fn normalise(block: &mut syn::Block, opts: &BTreeMap<String, String>, stats: &mut Stats, desc: &str, before: &[String]) -> (usize, Vec<usize>, usize, String) {
    let deref_idents = opts.get("n3").map(|s| s.split(',').map(|x| x.to_string()).collect()).unwrap_or_default();
    let mut n = Norm { stats, desc, loops: 0, loop_kinds: Vec::new(), tmp: 0, closure_args: 0, deref_idents, keep_async: false, yieldctx: opts.get("yieldctx").cloned(), opt_map: opts.contains_key("optmap"), dropnote: opts.get("dropnote").cloned(), selfty: opts.get("selfty").cloned(), skip_sort: false, strviews: opts.contains_key("strviews"), forlist: opts.contains_key("forlist"), forslice: opts.contains_key("forslice"), nexton: opts.get("nexton").cloned(), before: before.to_vec(), before_hits: vec![0; before.len()], subst: opts.get("subst").and_then(|v| v.split_once(':').map(|(a, b)| (a.to_string(), b.replace('~', "::")))) };
    n.visit_block_mut(block);
    let (l, b) = (n.loops, n.before_hits.clone());
    let kinds = n.loop_kinds.join(",");
    // closures that are still there after normalisation carry no contract: Verus knows nothing about their results
    struct CC(usize);
    impl<'ast> syn::visit::Visit<'ast> for CC {
        fn visit_expr_closure(&mut self, c: &'ast syn::ExprClosure) { self.0 += 1; syn::visit::visit_expr_closure(self, c); }
    }
    let mut cc = CC(0);
    syn::visit::Visit::visit_block(&mut cc, block);
    (l, b, cc.0, kinds)
}

/// N8: take the token body of `try_stream! { … }` / `stream! { … }` inside a function.
/// Keep the statements of `block` from the first one whose token text starts with `prefix` (whitespace ignored).
/// Used for U7: the manifest construction in front of the upload exchange is outside reach and is not extracted.
pub fn from_stmt(block: &mut syn::Block, prefix: &str, desc: &str, stats: &mut Stats) {
    let want: String = prefix.chars().filter(|c| !c.is_whitespace()).collect();
    let pos = block.stmts.iter().position(|st| {
        let t: String = st.to_token_stream().to_string().chars().filter(|c| !c.is_whitespace()).collect();
        t.starts_with(&want)
    });
    match pos {
        Some(p) => {
            let dropped = p;
            block.stmts.drain(0..p);
            for _ in 0..dropped {
                stats.bump("U7.statements_before_anchor_not_extracted");
            }
        }
        None => die("lost-anchor", &format!("statement starting with `{}` not found in {}", prefix, desc)),
    }
}

/// Keep the statements of `block` strictly BEFORE the first one whose token text starts with `prefix`; then append the
/// statement/expression text `append` (the value the second half of the split takes over as parameters).
pub fn until_stmt(block: &mut syn::Block, prefix: &str, append: Option<&str>, desc: &str, stats: &mut Stats) {
    let want: String = prefix.chars().filter(|c| !c.is_whitespace()).collect();
    let pos = block.stmts.iter().position(|st| {
        let t: String = st.to_token_stream().to_string().chars().filter(|c| !c.is_whitespace()).collect();
        t.starts_with(&want)
    });
    match pos {
        Some(p) => {
            let n = block.stmts.len();
            block.stmts.truncate(p);
            for _ in p..n {
                stats.bump("U7.statements_from_anchor_in_the_other_half");
            }
            if let Some(a) = append {
                let e: syn::Expr = syn::parse_str(a).unwrap_or_else(|_| die("template", &format!("append= is not an expression in {}", desc)));
                block.stmts.push(Stmt::Expr(e, None));
            }
        }
        None => die("lost-anchor", &format!("statement starting with `{}` not found in {}", prefix, desc)),
    }
}

pub fn extract_macro_block(block: &syn::Block, mac: &str, desc: &str, stats: &mut Stats) -> syn::Block {
    struct Find<'a> {
        mac: &'a str,
        found: Vec<proc_macro2::TokenStream>,
    }
    impl<'a, 'ast> syn::visit::Visit<'ast> for Find<'a> {
        fn visit_macro(&mut self, m: &'ast syn::Macro) {
            if path_last(&m.path) == self.mac {
                self.found.push(m.tokens.clone());
            }
        }
    }
    let mut f = Find { mac, found: vec![] };
    syn::visit::Visit::visit_block(&mut f, block);
    if f.found.len() != 1 {
        die("lost-anchor", &format!("expected exactly one `{}!` in {}, found {}", mac, desc, f.found.len()));
    }
    let ts = f.found.pop().unwrap();
    let wrapped = quote::quote!({ #ts });
    match syn::parse2::<syn::Block>(wrapped) {
        Ok(mut b) => {
            stats.bump("N8.stream_body");
            if mac == "try_stream" {
                // normal completion of a try_stream! body ends the stream without an error item
                if let Some(Stmt::Expr(_, None)) = b.stmts.last() {
                    // make the trailing expression a statement
                    if let Some(Stmt::Expr(ex, semi)) = b.stmts.last_mut() {
                        let _ = ex;
                        *semi = Some(Default::default());
                    }
                }
                b.stmts.push(parse_quote!(return Ok(());));
            }
            b
        }
        Err(e) => die("unsupported", &format!("cannot parse body of `{}!` in {}: {}", mac, desc, e)),
    }
}
