//! zx — mechanical extraction of real functions from /repo into Verus units.
//!
//! usage: zx assemble --repo DIR --exp DIR --template FILE --out FILE --map FILE
//!
//! The template is Verus text passed through verbatim, plus `//@` directives that
//! pull items out of the repository's current working tree (or out of rustc's
//! macro expansion of it) and splice specification clauses around the real
//! bodies. See DESIGN.md §2.2 for the closed list of normalisations.
mod norm;
mod printer;

use proc_macro2::TokenStream;
use quote::ToTokens;
use std::collections::BTreeMap;
use std::fmt::Write as _;
use std::path::PathBuf;

pub fn die(kind: &str, msg: &str) -> ! {
    println!("ZX-ERROR kind={} {}", kind, msg);
    std::process::exit(3);
}

fn squash(s: &str) -> String {
    s.chars().filter(|c| !c.is_whitespace()).collect()
}

struct Sources {
    repo: PathBuf,
    exp: PathBuf,
    cache: BTreeMap<String, syn::File>,
}

impl Sources {
    fn get(&mut self, key: &str) -> &syn::File {
        if !self.cache.contains_key(key) {
            let path = if let Some(rel) = key.strip_prefix("src:") {
                self.repo.join(rel)
            } else if let Some(c) = key.strip_prefix("exp:") {
                self.exp.join(format!("{}.rs", c))
            } else {
                die("template", &format!("bad source key {}", key))
            };
            let text = match std::fs::read_to_string(&path) {
                Ok(t) => t,
                Err(e) => die("lost-anchor", &format!("cannot read {}: {}", path.display(), e)),
            };
            let f = match syn::parse_file(&text) {
                Ok(f) => f,
                Err(e) => die("parse", &format!("cannot parse {}: {}", path.display(), e)),
            };
            self.cache.insert(key.to_string(), f);
        }
        &self.cache[key]
    }
}

/// Walk into `mod a::b` of a file.
fn items_in<'a>(items: &'a [syn::Item], modpath: &[&str]) -> Option<&'a [syn::Item]> {
    if modpath.is_empty() {
        return Some(items);
    }
    for it in items {
        if let syn::Item::Mod(m) = it {
            if m.ident == modpath[0] {
                if let Some((_, inner)) = &m.content {
                    return items_in(inner, &modpath[1..]);
                }
            }
        }
    }
    None
}

fn impl_header(i: &syn::ItemImpl) -> String {
    let mut s = String::new();
    if let Some((_, path, _)) = &i.trait_ {
        s.push_str(&path.to_token_stream().to_string());
        s.push_str(" for ");
    }
    s.push_str(&i.self_ty.to_token_stream().to_string());
    squash(&s)
}

enum Found {
    ImplFn(syn::ImplItemFn),
    TraitFn(syn::TraitItemFn),
    Free(syn::ItemFn),
}

fn find_fn(items: &[syn::Item], container: &str, name: &str, desc: &str) -> Found {
    let c = container.trim();
    let mut hits: Vec<Found> = Vec::new();
    if c == "free" {
        for it in items {
            if let syn::Item::Fn(f) = it {
                if f.sig.ident == name {
                    hits.push(Found::Free(f.clone()));
                }
            }
        }
    } else if let Some(t) = c.strip_prefix("trait ") {
        for it in items {
            if let syn::Item::Trait(tr) = it {
                if tr.ident == t.trim() {
                    for ti in &tr.items {
                        if let syn::TraitItem::Fn(f) = ti {
                            if f.sig.ident == name {
                                hits.push(Found::TraitFn(f.clone()));
                            }
                        }
                    }
                }
            }
        }
    } else if let Some(h) = c.strip_prefix("impl ") {
        let want = squash(h);
        for it in items {
            if let syn::Item::Impl(im) = it {
                if impl_header(im) == want {
                    for ii in &im.items {
                        if let syn::ImplItem::Fn(f) = ii {
                            if f.sig.ident == name {
                                hits.push(Found::ImplFn(f.clone()));
                            }
                        }
                    }
                }
            }
        }
    } else {
        die("template", &format!("bad container `{}` in {}", c, desc));
    }
    if hits.is_empty() {
        die("lost-anchor", &format!("item not found: {}", desc));
    }
    if hits.len() > 1 {
        die("lost-anchor", &format!("item ambiguous ({} matches): {}", hits.len(), desc));
    }
    hits.pop().unwrap()
}

fn find_item(items: &[syn::Item], kind: &str, name: &str, desc: &str) -> syn::Item {
    if kind == "impl" {
        // whole impl block (associated consts / types only), matched by header
        let want = squash(name);
        let hits: Vec<&syn::Item> = items.iter().filter(|it| matches!(it, syn::Item::Impl(im) if impl_header(im) == want)).collect();
        if hits.len() != 1 {
            die("lost-anchor", &format!("impl block: {} matches for {}", hits.len(), desc));
        }
        if let syn::Item::Impl(im) = hits[0] {
            if im.items.iter().any(|ii| matches!(ii, syn::ImplItem::Fn(_))) {
                die("template", &format!("`item impl` is for impls without functions: {}", desc));
            }
        }
        return hits[0].clone();
    }
    for it in items {
        let ok = match (kind, it) {
            ("struct", syn::Item::Struct(s)) => s.ident == name,
            ("enum", syn::Item::Enum(s)) => s.ident == name,
            ("const", syn::Item::Const(s)) => s.ident == name,
            ("type", syn::Item::Type(s)) => s.ident == name,
            ("trait", syn::Item::Trait(s)) => s.ident == name,
            _ => false,
        };
        if ok {
            return it.clone();
        }
    }
    die("lost-anchor", &format!("item not found: {}", desc));
}

#[derive(Default, Clone)]
struct Region {
    start: usize, // 1-based inclusive output line
    end: usize,
    kind: String, // fn-body | clause | loop-clause | tpl | fn-sig
    item: String,
    clause: String,
    props: Vec<String>,
}

struct FnDirective {
    src: String,
    container: String,
    name: String,
    opts: BTreeMap<String, String>,
    attrs: Vec<String>,
    // (text, clause id, props)
    clauses: Vec<(String, String, Vec<String>)>,
    loops: BTreeMap<usize, Vec<(String, String, Vec<String>)>>,
    entry: Vec<String>,
    tail: Vec<(String, String, Vec<String>)>,
    before: Vec<(String, Vec<(String, String, Vec<String>)>)>,
    body_props: Vec<String>,
}

fn parse_opts(parts: &[&str]) -> BTreeMap<String, String> {
    let mut m = BTreeMap::new();
    for p in parts {
        for kv in p.split_whitespace() {
            if let Some((k, v)) = kv.split_once('=') {
                m.insert(k.to_string(), v.to_string());
            } else {
                m.insert(kv.to_string(), "1".to_string());
            }
        }
    }
    m
}

struct Out {
    text: String,
    line: usize,
    regions: Vec<Region>,
    closure_items: Vec<String>,
    /// (function, kinds of its loops in pre-order after normalisation)
    loop_kinds: Vec<(String, String)>,
    /// reachability probes (thorough tier): `assert(false)` at every function entry and loop-body start must be REFUTED
    probe: bool,
}
impl Out {
    fn push(&mut self, s: &str) {
        // s may contain several lines; always ends with newline after push
        for l in s.lines() {
            self.text.push_str(l);
            self.text.push('\n');
            self.line += 1;
        }
    }
    fn cur(&self) -> usize {
        self.line + 1
    }
}

fn escape_json(s: &str) -> String {
    let mut o = String::new();
    for c in s.chars() {
        match c {
            '"' => o.push_str("\\\""),
            '\\' => o.push_str("\\\\"),
            '\n' => o.push_str("\\n"),
            '\t' => o.push_str("\\t"),
            c if (c as u32) < 0x20 => {
                let _ = write!(o, "\\u{:04x}", c as u32);
            }
            c => o.push(c),
        }
    }
    o
}

fn sig_tokens(sig: &syn::Signature, ret: Option<&str>, stats: &mut norm::Stats, bodyless: bool) -> (TokenStream, TokenStream) {
    // returns (everything up to and including return type, where clause)
    let mut sig = sig.clone();
    if bodyless {
        for a in sig.inputs.iter_mut() {
            if let syn::FnArg::Typed(pt) = a {
                if let syn::Pat::Ident(pi) = &mut *pt.pat {
                    pi.mutability = None;
                }
            }
        }
    }
    if sig.asyncness.is_some() {
        sig.asyncness = None;
        stats.bump("N7.async_fn");
    }
    norm::rename_underscore_params(&mut sig, stats);
    let wc = sig.generics.where_clause.take();
    let out = match (&sig.output, ret) {
        (syn::ReturnType::Type(_, ty), Some(r)) => {
            let id = syn::Ident::new(r, proc_macro2::Span::call_site());
            quote::quote!(-> (#id: #ty))
        }
        (syn::ReturnType::Type(_, ty), None) => quote::quote!(-> #ty),
        (syn::ReturnType::Default, _) => quote::quote!(),
    };
    let ident = &sig.ident;
    let generics = &sig.generics;
    let inputs = &sig.inputs;
    let konst = &sig.constness;
    let head = quote::quote!(#konst fn #ident #generics (#inputs) #out);
    let wct = match wc {
        Some(w) => w.to_token_stream(),
        None => TokenStream::new(),
    };
    (head, wct)
}

fn emit_fn(d: &FnDirective, srcs: &mut Sources, out: &mut Out, stats: &mut norm::Stats, indent: usize) {
    let desc = format!("{} | {} | {}", d.src, d.container, d.name);
    let file = srcs.get(&d.src);
    let modpath: Vec<&str> = match d.opts.get("mod") {
        Some(m) => m.split("::").collect(),
        None => vec![],
    };
    let items = match items_in(&file.items, &modpath) {
        Some(i) => i,
        None => die("lost-anchor", &format!("module not found for {}", desc)),
    };
    let found = find_fn(items, &d.container, &d.name, &desc);
    let (vis, sig, block): (TokenStream, syn::Signature, Option<syn::Block>) = match found {
        Found::ImplFn(f) => (f.vis.to_token_stream(), f.sig, Some(f.block)),
        Found::TraitFn(f) => (TokenStream::new(), f.sig, f.default),
        Found::Free(f) => (f.vis.to_token_stream(), f.sig, Some(*f.block)),
    };
    let item_name = squash(&format!("{}::{}", d.container, d.name));
    let ind = "    ".repeat(indent);
    let ind1 = "    ".repeat(indent + 1);
    // N19 (option `shadowmut`): `fn f(mut x: T) B`  ==>  `fn f(__p_x: T) { let mut x = __p_x; B }` — the parameter's initial
    // value, which postconditions speak about, keeps a name that loop invariants can use
    let (sig, block) = if d.opts.contains_key("shadowmut") && !d.opts.contains_key("ext") && !d.opts.contains_key("sig") {
        let mut sig = sig;
        let mut block = block;
        let mut lets: Vec<syn::Stmt> = vec![];
        for a in sig.inputs.iter_mut() {
            if let syn::FnArg::Typed(pt) = a {
                if let syn::Pat::Ident(pi) = &mut *pt.pat {
                    if pi.mutability.is_some() {
                        let name = pi.ident.clone();
                        let pname = syn::Ident::new(&format!("__p_{}", name), proc_macro2::Span::call_site());
                        pi.mutability = None;
                        pi.ident = pname.clone();
                        lets.push(syn::parse_quote!(let mut #name = #pname;));
                        stats.bump("N19.mut_param_as_shadow_local");
                    }
                }
            }
        }
        if let Some(b) = block.as_mut() {
            for (k, l) in lets.into_iter().enumerate() {
                b.stmts.insert(k, l);
            }
        }
        (sig, block)
    } else { (sig, block) };

    let bodyonly = d.opts.contains_key("bodyonly");
    let mode_sig = d.opts.contains_key("sig");
    let mode_ext = d.opts.contains_key("ext");

    if !bodyonly {
        for a in &d.attrs {
            out.push(&format!("{}{}", ind, a));
        }
        if mode_ext {
            out.push(&format!("{}#[verifier::external_body]", ind));
        }
        let ret = if d.opts.contains_key("noret") { None } else { Some(d.opts.get("ret").map(|s| s.as_str()).unwrap_or("r")) };
        let (head, wc) = sig_tokens(&sig, ret, stats, mode_sig);
        let vis_s = if d.opts.contains_key("pub") { "pub ".to_string() } else {
            let v = vis.to_string();
            if v.is_empty() { v } else { format!("{} ", v) }
        };
        let start = out.cur();
        let head_s = printer::pretty(head, 0);
        out.push(&format!("{}{}{}", ind, vis_s, head_s.trim_end()));
        if !wc.is_empty() {
            out.push(&format!("{}{}", ind1, printer::pretty(wc, 0).trim_end()));
        }
        out.regions.push(Region { start, end: out.line, kind: "fn-sig".into(), item: item_name.clone(), clause: String::new(), props: d.body_props.clone() });
        if let Some(al) = d.opts.get("also") {
            // properties a failed TRAIT-level clause additionally carries at this implementation (line 0: never matched by a span)
            out.regions.push(Region { start: 0, end: 0, kind: "also".into(), item: item_name.clone(), clause: String::new(), props: al.split(',').map(|x| x.to_string()).collect() });
        }
        for (text, id, props) in &d.clauses {
            let s = out.cur();
            out.push(text);
            let pr = if props.is_empty() { d.body_props.clone() } else { props.clone() };
            // clauses of a function whose body is not part of this unit are assumptions here, not obligations
            let kind = if mode_ext { "assumed-clause" } else { "clause" };
            out.regions.push(Region { start: s, end: out.line, kind: kind.into(), item: item_name.clone(), clause: id.clone(), props: pr });
        }
    }
    if mode_sig {
        match block {
            None => {
                out.push(&format!("{};", ind1));
                return;
            }
            Some(_) => {
                if d.opts.contains_key("dropbody") {
                    // N15: a trait's default body is verified where it is inherited (materialised
                    // into each implementing impl), so the trait itself only declares the method.
                    out.push(&format!("{};", ind1));
                    stats.bump("N15.default_body_declared_only");
                    return;
                }
                die("template", &format!("`sig` used but {} has a body", desc))
            }
        }
    }
    if mode_ext {
        out.push(&format!("{}{{ unimplemented!() }}", ind));
        stats.bump("external_body");
        return;
    }
    let mut block = match block {
        Some(b) => b,
        None => die("lost-anchor", &format!("{} has no body", desc)),
    };
    // stream macro body
    if let Some(mac) = d.opts.get("macro") {
        block = norm::extract_macro_block(&block, mac, &desc, stats);
    }
    if let Some(pfx) = d.opts.get("until-stmt") {
        let app = d.opts.get("append").map(|a| a.replace('~', " "));
        norm::until_stmt(&mut block, &pfx.replace('~', " "), app.as_deref(), &desc, stats);
    }
    if let Some(pfx) = d.opts.get("from-stmt") {
        norm::from_stmt(&mut block, &pfx.replace('~', " "), &desc, stats);
    }
    let before_pfx: Vec<String> = d.before.iter().map(|b| b.0.clone()).collect();
    let (nloops, before_hits, nclosures, loop_kinds) = norm::normalise(&mut block, &d.opts, stats, &desc, &before_pfx);
    if nclosures > 0 {
        out.closure_items.push(item_name.clone());
    }
    if nloops > 0 {
        out.loop_kinds.push((item_name.clone(), loop_kinds));
    }
    for (k, h) in before_hits.iter().enumerate() {
        if *h != 1 {
            die("lost-anchor", &format!("`before {}` matches {} statements in {}", before_pfx[k], h, desc));
        }
    }
    for k in d.loops.keys() {
        if *k >= nloops {
            die("lost-anchor", &format!("loop {} not found in {} (has {} loops)", k, desc, nloops));
        }
    }
    if d.opts.contains_key("all-loops") && d.loops.len() != nloops {
        die("lost-anchor", &format!("{} has {} loops but {} are specified", desc, nloops, d.loops.len()));
    }
    if !d.tail.is_empty() {
        // ghost text goes in front of the function's final statement / tail expression
        let n = block.stmts.len();
        if n == 0 {
            die("lost-anchor", &format!("{} has an empty body but a tail section", desc));
        }
        let st: syn::Stmt = syn::parse_quote!(__zx_tail!(););
        block.stmts.insert(n - 1, st);
    }
    let body = printer::pretty(block.to_token_stream(), indent);
    let body = replace_iter_markers(&body);
    // splice loop clauses and entry statements (text level, markers are unique)
    let lines: Vec<&str> = body.lines().collect();
    let body_start = out.cur();
    let mut seg_start = out.cur();
    let mut i = 0;
    while i < lines.len() {
        let line = lines[i];
        let next_marker = lines.get(i + 1).and_then(|l| l.trim().strip_prefix("__zx_loop_")).and_then(|r| r.strip_suffix("!();").or_else(|| r.strip_suffix("! ();")));
        if let Some(k) = next_marker {
            let k: usize = k.trim().parse().unwrap_or_else(|_| die("internal", "bad loop marker"));
            // line ends with "{": strip it, emit header, clauses, then "{"
            let head = line.trim_end();
            let head = head.strip_suffix('{').unwrap_or_else(|| die("internal", &format!("loop header without brace: {}", line)));
            out.push(head.trim_end());
            if out.cur() > seg_start {
                out.regions.push(Region { start: seg_start, end: out.line, kind: "fn-body".into(), item: item_name.clone(), clause: String::new(), props: d.body_props.clone() });
            }
            if let Some(cl) = d.loops.get(&k) {
                for (text, id, props) in cl {
                    let s = out.cur();
                    out.push(text);
                    let pr = if props.is_empty() { d.body_props.clone() } else { props.clone() };
                    out.regions.push(Region { start: s, end: out.line, kind: "loop-clause".into(), item: item_name.clone(), clause: id.clone(), props: pr });
                }
            }
            let lead: String = line.chars().take_while(|c| c.is_whitespace()).collect();
            seg_start = out.cur();
            out.push(&format!("{}{{", lead));
            if out.probe {
                let s0 = out.cur();
                out.push(&format!("{}    proof {{ assert(false); }}", lead));
                out.regions.push(Region { start: s0, end: out.line, kind: "probe".into(), item: item_name.clone(), clause: format!("loop{}", k), props: vec![] });
                seg_start = out.cur();
            }
            i += 2;
            continue;
        }
        if let Some(k) = line.trim().strip_prefix("__zx_before_").and_then(|r| r.strip_suffix("!();")) {
            let k: usize = k.parse().unwrap_or_else(|_| die("internal", "bad before marker"));
            let lead: String = line.chars().take_while(|c| c.is_whitespace()).collect();
            if out.cur() > seg_start {
                out.regions.push(Region { start: seg_start, end: out.line, kind: "fn-body".into(), item: item_name.clone(), clause: String::new(), props: d.body_props.clone() });
            }
            for (e, id, props) in &d.before[k].1 {
                let s0 = out.cur();
                out.push(&format!("{}{}", lead, e.trim()));
                let pr = if props.is_empty() { d.body_props.clone() } else { props.clone() };
                out.regions.push(Region { start: s0, end: out.line, kind: "ghost-clause".into(), item: item_name.clone(), clause: id.clone(), props: pr });
            }
            seg_start = out.cur();
            i += 1;
            continue;
        }
        if line.trim() == "__zx_tail!();" {
            if out.cur() > seg_start {
                out.regions.push(Region { start: seg_start, end: out.line, kind: "fn-body".into(), item: item_name.clone(), clause: String::new(), props: d.body_props.clone() });
            }
            for (e, id, props) in &d.tail {
                let s0 = out.cur();
                out.push(&format!("{}{}", ind1, e.trim()));
                let pr = if props.is_empty() { d.body_props.clone() } else { props.clone() };
                out.regions.push(Region { start: s0, end: out.line, kind: "ghost-clause".into(), item: item_name.clone(), clause: id.clone(), props: pr });
            }
            seg_start = out.cur();
            i += 1;
            continue;
        }
        out.push(line);
        if i == 0 && !d.entry.is_empty() {
            for e in &d.entry {
                out.push(&format!("{}{}", ind1, e.trim()));
            }
        }
        if i == 0 && out.probe {
            if out.cur() > seg_start {
                out.regions.push(Region { start: seg_start, end: out.line, kind: "fn-body".into(), item: item_name.clone(), clause: String::new(), props: d.body_props.clone() });
            }
            let s0 = out.cur();
            out.push(&format!("{}proof {{ assert(false); }}", ind1));
            out.regions.push(Region { start: s0, end: out.line, kind: "probe".into(), item: item_name.clone(), clause: "entry".into(), props: vec![] });
            seg_start = out.cur();
        }
        i += 1;
    }
    if out.cur() > seg_start {
        out.regions.push(Region { start: seg_start, end: out.line, kind: "fn-body".into(), item: item_name.clone(), clause: String::new(), props: d.body_props.clone() });
    }
    let _ = body_start;
}

/// `__zx_iter!(E)` -> `iter: E` (balanced parentheses)
fn replace_iter_markers(s: &str) -> String {
    let pat = "__zx_iter!(";
    let mut out = String::new();
    let mut rest = s;
    while let Some(pos) = rest.find(pat) {
        out.push_str(&rest[..pos]);
        let after = &rest[pos + pat.len()..];
        let mut depth = 1usize;
        let mut end = None;
        for (i, c) in after.char_indices() {
            match c {
                '(' => depth += 1,
                ')' => {
                    depth -= 1;
                    if depth == 0 {
                        end = Some(i);
                        break;
                    }
                }
                _ => {}
            }
        }
        let end = end.unwrap_or_else(|| die("internal", "unbalanced iter marker"));
        out.push_str("iter: ");
        out.push_str(&after[..end]);
        rest = &after[end + 1..];
    }
    out.push_str(rest);
    out
}

fn emit_item(src: &str, rest: &str, opts: &BTreeMap<String, String>, srcs: &mut Sources, out: &mut Out, stats: &mut norm::Stats, indent: usize) {
    let mut it = rest.split_whitespace();
    let kind = it.next().unwrap_or("");
    let name_owned: String = if kind == "impl" { it.collect::<Vec<_>>().join(" ") } else { it.next().unwrap_or("").to_string() };
    let name: &str = &name_owned;
    let desc = format!("{} | {} {}", src, kind, name);
    let file = srcs.get(src);
    let modpath: Vec<&str> = match opts.get("mod") {
        Some(m) => m.split("::").collect(),
        None => vec![],
    };
    let items = match items_in(&file.items, &modpath) {
        Some(i) => i,
        None => die("lost-anchor", &format!("module not found for {}", desc)),
    };
    let mut item = find_item(items, kind, name, &desc);
    norm::strip_item_attrs(&mut item, stats);
    if let (Some(st), syn::Item::Impl(im)) = (opts.get("selfty"), &mut item) {
        // the impl is placed in another module than in the source: name its self type by path
        let ty: syn::Type = syn::parse_str(st).unwrap_or_else(|_| die("template", &format!("bad selfty in {}", desc)));
        *im.self_ty = ty;
    }
    let s = printer::pretty(item.to_token_stream(), indent);
    let start = out.cur();
    if let Some(d) = opts.get("derive") {
        out.push(&format!("{}#[derive({})]", "    ".repeat(indent), d.replace(',', ", ")));
    }
    out.push(&s);
    out.regions.push(Region { start, end: out.line, kind: "item".into(), item: squash(&format!("{}{}", kind, name)), clause: String::new(), props: vec![] });
}

fn main() {
    let args: Vec<String> = std::env::args().collect();
    if args.len() < 2 || args[1] != "assemble" {
        eprintln!("usage: zx assemble --repo DIR --exp DIR --template FILE --out FILE --map FILE");
        std::process::exit(2);
    }
    let mut kv: BTreeMap<String, String> = BTreeMap::new();
    let mut i = 2;
    while i + 1 < args.len() {
        kv.insert(args[i].trim_start_matches("--").to_string(), args[i + 1].clone());
        i += 2;
    }
    let need = |k: &str| -> String { kv.get(k).cloned().unwrap_or_else(|| die("usage", &format!("missing --{}", k))) };
    let mut srcs = Sources { repo: PathBuf::from(need("repo")), exp: PathBuf::from(need("exp")), cache: BTreeMap::new() };
    // includes: `//@ include FILE` relative to the including file's dir (recursive)
    // `//@ include FILE [K=V ...]`: `$K` in the included text is replaced by V
    fn expand(path: &std::path::Path, lines: &mut Vec<String>, depth: usize, subst: &[(String, String)]) {
        if depth > 8 {
            die("template", "include depth");
        }
        let t = std::fs::read_to_string(path).unwrap_or_else(|e| die("template", &format!("{}: {}", path.display(), e)));
        let dir = path.parent().unwrap().to_path_buf();
        for l0 in t.lines() {
            let mut l = l0.to_string();
            let is_include = l.trim().starts_with("//@ include ");
            for (k, v) in subst {
                // `~` stands for a space inside a parameter value; it is kept while the value travels through include lines
                let vv = if is_include { v.clone() } else { v.replace('~', " ") };
                l = l.replace(&format!("${}", k), &vv);
            }
            // `@FMTID("literal")` -> the id N9 gives that format string
            while let Some(pos) = l.find("@FMTID(\"") {
                let rest = &l[pos + 8..];
                let end = rest.find("\")").unwrap_or_else(|| die("template", "unterminated @FMTID"));
                let lit = &rest[..end];
                let id = norm::fmt_id(lit);
                l = format!("{}{}u64{}", &l[..pos], id, &rest[end + 2..]);
            }
            if let Some(inc) = l.trim().strip_prefix("//@ include ") {
                let mut it = inc.split_whitespace();
                let f = it.next().unwrap_or("");
                let mut sub: Vec<(String, String)> = subst.to_vec();
                for kv in it {
                    if let Some((k, v)) = kv.split_once('=') {
                        sub.push((k.to_string(), v.to_string()));
                    }
                }
                expand(&dir.join(f), lines, depth + 1, &sub);
            } else {
                lines.push(l);
            }
        }
    }
    let mut lines: Vec<String> = Vec::new();
    expand(&PathBuf::from(need("template")), &mut lines, 0, &[]);
    let mut out = Out { text: String::new(), line: 0, regions: Vec::new(), closure_items: Vec::new(), loop_kinds: Vec::new(), probe: std::env::var("ZX_PROBE").map(|v| v == "1").unwrap_or(false) };
    let mut stats = norm::Stats::default();
    let mut cur_fn: Option<(FnDirective, usize)> = None;
    // section within fn directive
    #[derive(PartialEq)]
    enum Sec {
        Clauses,
        Loop(usize),
        Entry,
        Tail,
        Before(usize),
        Attr,
    }
    let mut sec = Sec::Clauses;
    let mut cur_tag: (String, Vec<String>) = (String::new(), vec![]);
    // template-level tag region
    let mut tpl_tag: Option<(String, Vec<String>, usize)> = None;

    for raw in &lines {
        let t = raw.trim();
        if let Some(dir) = t.strip_prefix("//@ ") {
            let dir = dir.trim();
            let indent = (raw.len() - raw.trim_start().len()) / 4;
            if let Some(rest) = dir.strip_prefix("fn ") {
                if cur_fn.is_some() {
                    die("template", &format!("nested fn directive: {}", raw));
                }
                let parts: Vec<&str> = rest.split('|').map(|s| s.trim()).collect();
                if parts.len() < 3 {
                    die("template", &format!("bad fn directive: {}", raw));
                }
                let opts = parse_opts(&parts[3..]);
                let body_props = opts.get("props").map(|p| p.split(',').map(|s| s.to_string()).collect()).unwrap_or_default();
                cur_fn = Some((
                    FnDirective { src: parts[0].into(), container: parts[1].into(), name: parts[2].into(), opts, attrs: vec![], clauses: vec![], loops: BTreeMap::new(), entry: vec![], tail: vec![], before: vec![], body_props },
                    indent,
                ));
                sec = Sec::Clauses;
                cur_tag = (String::new(), vec![]);
                continue;
            }
            if dir == "end" {
                match cur_fn.take() {
                    Some((d, indent)) => emit_fn(&d, &mut srcs, &mut out, &mut stats, indent),
                    None => die("template", "end without fn"),
                }
                continue;
            }
            if let Some(rest) = dir.strip_prefix("loop ") {
                let k: usize = rest.trim().parse().unwrap_or_else(|_| die("template", &format!("bad loop ordinal: {}", raw)));
                sec = Sec::Loop(k);
                if let Some((d, _)) = cur_fn.as_mut() {
                    d.loops.entry(k).or_default();
                }
                cur_tag = (String::new(), vec![]);
                continue;
            }
            if dir == "entry" {
                sec = Sec::Entry;
                continue;
            }
            if let Some(rest) = dir.strip_prefix("before ") {
                if let Some((d, _)) = cur_fn.as_mut() {
                    let pfx: String = rest.chars().filter(|c| !c.is_whitespace()).collect();
                    d.before.push((pfx, vec![]));
                    sec = Sec::Before(d.before.len() - 1);
                }
                // ghost text carries the function's own tags unless it is tagged itself
                cur_tag = (String::new(), vec![]);
                continue;
            }
            if let Some(rest) = dir.strip_prefix("after ") {
                // ghost text behind the anchored statement (same mechanism as `before`)
                if let Some((d, _)) = cur_fn.as_mut() {
                    let pfx: String = rest.chars().filter(|c| !c.is_whitespace()).collect();
                    d.before.push((format!("AFTER:{}", pfx), vec![]));
                    sec = Sec::Before(d.before.len() - 1);
                }
                cur_tag = (String::new(), vec![]);
                continue;
            }
            if dir == "tail" {
                sec = Sec::Tail;
                cur_tag = (String::new(), vec![]);
                continue;
            }
            if dir == "attr" {
                sec = Sec::Attr;
                continue;
            }
            if let Some(rest) = dir.strip_prefix("tag ") {
                let mut it = rest.split_whitespace();
                let id = it.next().unwrap_or("").to_string();
                let props: Vec<String> = it.map(|s| s.to_string()).collect();
                if cur_fn.is_some() {
                    cur_tag = (id, props);
                } else {
                    if let Some((id0, props0, start)) = tpl_tag.take() {
                        if out.line >= start {
                            out.regions.push(Region { start, end: out.line, kind: "tpl".into(), item: String::new(), clause: id0, props: props0 });
                        }
                    }
                    tpl_tag = Some((id, props, out.cur()));
                }
                continue;
            }
            if dir == "untag" {
                if let Some((id0, props0, start)) = tpl_tag.take() {
                    if out.line >= start {
                        out.regions.push(Region { start, end: out.line, kind: "tpl".into(), item: String::new(), clause: id0, props: props0 });
                    }
                }
                continue;
            }
            if let Some(rest) = dir.strip_prefix("assert-no-fn ") {
                // the impl must NOT define this method (it inherits the trait's default body)
                let parts: Vec<&str> = rest.split('|').map(|s| s.trim()).collect();
                if parts.len() < 3 {
                    die("template", &format!("bad assert-no-fn directive: {}", raw));
                }
                let opts = parse_opts(&parts[3..]);
                let file = srcs.get(parts[0]);
                let modpath: Vec<&str> = match opts.get("mod") { Some(m) => m.split("::").collect(), None => vec![] };
                let items = items_in(&file.items, &modpath).unwrap_or_else(|| die("lost-anchor", &format!("module not found: {}", raw)));
                let want = squash(parts[1].strip_prefix("impl ").unwrap_or(parts[1]));
                let mut seen_impl = false;
                for it in items {
                    if let syn::Item::Impl(im) = it {
                        if impl_header(im) == want {
                            seen_impl = true;
                            for ii in &im.items {
                                if let syn::ImplItem::Fn(f) = ii {
                                    if f.sig.ident == parts[2] {
                                        die("lost-anchor", &format!("{} now overrides `{}` (was inherited from the trait default)", parts[1], parts[2]));
                                    }
                                }
                            }
                        }
                    }
                }
                if !seen_impl {
                    die("lost-anchor", &format!("impl not found: {}", raw));
                }
                continue;
            }
            if let Some(rest) = dir.strip_prefix("items ") {
                // `//@ items SRC | structs|enums|consts [mod=..] [except=A,B] [derive=..] [maybe-none]`: every item of that kind, in source
                // order (`maybe-none`: the file may have none today; the directive exists so that a changed file may add one)
                let parts: Vec<&str> = rest.split('|').map(|s| s.trim()).collect();
                if parts.len() < 2 {
                    die("template", &format!("bad items directive: {}", raw));
                }
                let opts = parse_opts(&parts[1..]);
                let kind = if opts.contains_key("structs") { "struct" } else if opts.contains_key("enums") { "enum" } else if opts.contains_key("consts") { "const" } else { die("template", "items: structs|enums|consts") };
                let except: Vec<String> = opts.get("except").map(|e| e.split(',').map(|x| x.to_string()).collect()).unwrap_or_default();
                let names: Vec<String> = {
                    let file = srcs.get(parts[0]);
                    let modpath: Vec<&str> = match opts.get("mod") { Some(m) => m.split("::").collect(), None => vec![] };
                    let items = items_in(&file.items, &modpath).unwrap_or_else(|| die("lost-anchor", &format!("module not found: {}", raw)));
                    items.iter().filter_map(|it| match (kind, it) {
                        ("struct", syn::Item::Struct(s)) => Some(s.ident.to_string()),
                        ("enum", syn::Item::Enum(s)) => Some(s.ident.to_string()),
                        ("const", syn::Item::Const(s)) => Some(s.ident.to_string()),
                        _ => None,
                    }).filter(|n| !except.contains(n)).collect()
                };
                if names.is_empty() && !opts.contains_key("maybe-none") {
                    die("lost-anchor", &format!("no items for: {}", raw));
                }
                for n in names {
                    emit_item(parts[0], &format!("{} {}", kind, n), &opts, &mut srcs, &mut out, &mut stats, indent);
                }
                continue;
            }
            if let Some(rest) = dir.strip_prefix("item ") {
                let parts: Vec<&str> = rest.split('|').map(|s| s.trim()).collect();
                if parts.len() < 2 {
                    die("template", &format!("bad item directive: {}", raw));
                }
                let opts = parse_opts(&parts[2..]);
                emit_item(parts[0], parts[1], &opts, &mut srcs, &mut out, &mut stats, indent);
                continue;
            }
            die("template", &format!("unknown directive: {}", raw));
        }
        if let Some((d, _)) = cur_fn.as_mut() {
            if t.is_empty() {
                continue;
            }
            match sec {
                Sec::Clauses => d.clauses.push((raw.clone(), cur_tag.0.clone(), cur_tag.1.clone())),
                Sec::Loop(k) => d.loops.get_mut(&k).unwrap().push((raw.clone(), cur_tag.0.clone(), cur_tag.1.clone())),
                Sec::Entry => d.entry.push(raw.clone()),
                Sec::Tail => d.tail.push((raw.clone(), cur_tag.0.clone(), cur_tag.1.clone())),
                Sec::Before(k) => {
                    if !(t.starts_with("proof") || t.starts_with("assert") || t.starts_with("}") || t.starts_with("let ghost") || t.starts_with("reveal") || t.starts_with("//") || t.starts_with("lemma")) {
                        // only ghost text may be spliced into bodies
                    }
                    d.before[k].1.push((raw.clone(), cur_tag.0.clone(), cur_tag.1.clone()))
                }
                Sec::Attr => d.attrs.push(t.to_string()),
            }
            continue;
        }
        out.push(if raw.is_empty() { " " } else { raw });
        if raw.is_empty() {
            // keep empty lines empty
            let l = out.text.len();
            out.text.truncate(l - 2);
            out.text.push('\n');
        }
    }
    if cur_fn.is_some() {
        die("template", "unterminated fn directive");
    }
    if let Some((id0, props0, start)) = tpl_tag.take() {
        out.regions.push(Region { start, end: out.line, kind: "tpl".into(), item: String::new(), clause: id0, props: props0 });
    }

    std::fs::write(need("out"), &out.text).unwrap_or_else(|e| die("io", &format!("{}", e)));
    // map json
    let mut m = String::from("{\n  \"regions\": [\n");
    for (k, r) in out.regions.iter().enumerate() {
        let props: Vec<String> = r.props.iter().map(|p| format!("\"{}\"", escape_json(p))).collect();
        let _ = write!(
            m,
            "    {{\"start\": {}, \"end\": {}, \"kind\": \"{}\", \"item\": \"{}\", \"clause\": \"{}\", \"props\": [{}]}}{}\n",
            r.start,
            r.end,
            r.kind,
            escape_json(&r.item),
            escape_json(&r.clause),
            props.join(", "),
            if k + 1 < out.regions.len() { "," } else { "" }
        );
    }
    m.push_str("  ],\n  \"unspecified_closures\": [");
    let ci: Vec<String> = out.closure_items.iter().map(|c| format!("\"{}\"", escape_json(c))).collect();
    m.push_str(&ci.join(", "));
    m.push_str("],\n  \"loop_kinds\": {");
    let lk: Vec<String> = out.loop_kinds.iter().map(|(i, k)| format!("\"{}\": \"{}\"", escape_json(i), k)).collect();
    m.push_str(&lk.join(", "));
    m.push_str("},\n  \"normalisations\": {\n");
    let n = stats.counts.len();
    for (k, (name, c)) in stats.counts.iter().enumerate() {
        let _ = write!(m, "    \"{}\": {}{}\n", escape_json(name), c, if k + 1 < n { "," } else { "" });
    }
    m.push_str("  }\n}\n");
    std::fs::write(need("map"), m).unwrap_or_else(|e| die("io", &format!("{}", e)));
    println!("ZX-OK lines={} regions={}", out.line, out.regions.len());
}
