use vstd::prelude::*;
verus! {

pub enum ZVTError { IncompleteData, NonImplemented, WrongTag(Tag) }
pub type ZVTResult<T> = ::std::result::Result<T, ZVTError>;
#[derive(PartialEq)]
pub struct Tag(pub u16);

pub open spec fn is_suffix(s: Seq<u8>, of: Seq<u8>) -> bool {
    s.len() <= of.len() && s =~= of.subrange(of.len() - s.len(), of.len() as int)
}

pub trait Length {
    spec fn ser_ok(len: usize) -> bool;
    spec fn spec_ser(len: usize) -> Seq<u8>;
    fn serialize(len: usize) -> (r: Vec<u8>)
        requires Self::ser_ok(len),
        ensures r@ == Self::spec_ser(len);
    fn deserialize(bytes: &[u8]) -> (r: ZVTResult<(usize, &[u8])>)
        ensures r matches Ok((n, rest)) ==> is_suffix(rest@, bytes@);
}
pub trait Encoding<T> {
    spec fn spec_enc(input: &T) -> Seq<u8>;
    fn encode(input: &T) -> (r: Vec<u8>)
        ensures r@ == Self::spec_enc(input);
    fn decode(bytes: &[u8]) -> (r: ZVTResult<(T, &[u8])>)
        ensures r matches Ok((v, rest)) ==> is_suffix(rest@, bytes@);
}
pub struct Empty;
pub struct Default;
impl Length for Empty {
    open spec fn ser_ok(len: usize) -> bool { true }
    open spec fn spec_ser(len: usize) -> Seq<u8> { Seq::empty() }
    fn serialize(_len: usize) -> Vec<u8> {
        vec![]
    }
    fn deserialize(bytes: &[u8]) -> ZVTResult<(usize, &[u8])> {
        Ok((bytes.len(), bytes))
    }
}

impl Encoding<Tag> for Default {
    uninterp spec fn spec_enc(input: &Tag) -> Seq<u8>;
    #[verifier::external_body]
    fn encode(input: &Tag) -> Vec<u8> { unimplemented!() }
    #[verifier::external_body]
    fn decode(bytes: &[u8]) -> ZVTResult<(Tag, &[u8])> { unimplemented!() }
}
pub trait ZvtSerializerImpl<
    L: Length = Empty,
    E: Encoding<Self> = Default,
    TE: Encoding<Tag> = Default,
> where
    Self: Sized,
{
    fn serialize_tagged(&self, tag: Option<Tag>) -> (r: Vec<u8>)
        requires L::ser_ok(E::spec_enc(self).len() as usize),
    {
        let mut output = Vec::new();
        if let Some(tag) = tag {
            output = TE::encode(&tag);
        }
        let mut payload = E::encode(self);
        let mut length = L::serialize(payload.len());
        output.append(&mut length);
        output.append(&mut payload);
        output
    }

    fn deserialize_tagged(mut bytes: &[u8], tag: Option<Tag>) -> (r: ZVTResult<(Self, &[u8])>)
        ensures r matches Ok((v, rest)) ==> is_suffix(rest@, bytes@)
    {
        if let Some(desired_tag) = tag {
            let actual_tag;
            let __t = TE::decode(bytes)?; actual_tag = __t.0; bytes = __t.1;
            if actual_tag != desired_tag {
                return Err(ZVTError::WrongTag(actual_tag));
            }
        }
        let (length, payload) = L::deserialize(bytes)?;
        if length > payload.len() {
            return Err(ZVTError::IncompleteData);
        }
        let (data, remainder) = E::decode(&payload[..length])?;

        Ok((data, &payload[length - remainder.len()..]))
    }
}

impl<T, L: Length, E: Encoding<T>, TE: Encoding<Tag>>
    ZvtSerializerImpl<L, E, TE> for Option<T>
where
    T: ZvtSerializerImpl<L, E, TE>,
{
    fn serialize_tagged(&self, tag: Option<Tag>) -> Vec<u8> {
        match self {
            None => Vec::new(),
            Some(ref data) => <T as ZvtSerializerImpl<L, E, TE>>::serialize_tagged(data, tag),
        }
    }

    fn deserialize_tagged(bytes: &[u8], tag: Option<Tag>) -> ZVTResult<(Self, &[u8])> {
        match &tag {
            Some(_) => match <T as ZvtSerializerImpl<L, E, TE>>::deserialize_tagged(bytes, tag) {
                Err(err) => Err(err),
                Ok(data) => Ok((Some(data.0), data.1)),
            },
            None => match <T as ZvtSerializerImpl<L, E, TE>>::deserialize_tagged(bytes, None) {
                Err(_) => Ok((None, bytes)),
                Ok(data) => Ok((Some(data.0), data.1)),
            },
        }
    }
}
impl<T, E> Encoding<Option<T>> for E
where
    E: Encoding<T>,
{
    open spec fn spec_enc(input: &Option<T>) -> Seq<u8> { match input { None => Seq::empty(), Some(i) => E::spec_enc(i) } }
    fn decode(data: &[u8]) -> ZVTResult<(Option<T>, &[u8])>
    where
        Self: Sized,
    {
        match E::decode(data) {
            Err(err) => Err(err),
            Ok(data) => Ok((Some(data.0), data.1)),
        }
    }

    fn encode(input: &Option<T>) -> Vec<u8> {
        match input {
            None => vec![],
            Some(inner) => E::encode(inner),
        }
    }
}

} // verus!
fn main() {}
