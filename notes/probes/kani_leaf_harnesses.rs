#[cfg(kani)]
mod proofs {
    use zvt_builder::encoding::{Encoding, Default, BigEndian, Bcd, Hex};
    use zvt_builder::Tag;
    #[kani::proof]
    #[kani::unwind(10)]
    fn le_u32() {
        let x: u32 = kani::any();
        let b = Default::encode(&x);
        let (y, rest): (u32, &[u8]) = Default::decode(&b).unwrap();
        assert!(x == y && rest.is_empty() && b.len() == 4 && b[0] == (x & 0xff) as u8 && b[3] == (x >> 24) as u8);
    }
    #[kani::proof]
    #[kani::unwind(4)]
    fn tag_default() {
        let x: u16 = kani::any();
        kani::assume(x < 0x100 || (x >> 8) == 0x1f || (x >> 8) == 0xff);
        kani::assume(x != 0x1f && x != 0xff);
        let b = <Default as Encoding<Tag>>::encode(&Tag(x));
        let (y, rest): (Tag, &[u8]) = Default::decode(&b).unwrap();
        assert!(y.0 == x && rest.is_empty());
    }
    #[kani::proof]
    #[kani::unwind(12)]
    fn bcd_u64_enc() {
        let x: u64 = kani::any();
        let b = <Bcd as Encoding<u64>>::encode(&x);
        assert!(b.len() <= 10);
    }
    #[kani::proof]
    #[kani::unwind(4)]
    fn cp437_1() {
        let c: [u8; 2] = kani::any();
        kani::assume(c[1] != 0);
        let (s, _): (String, &[u8]) = Default::decode(&c).unwrap();
        let b = <Default as Encoding<String>>::encode(&s);
        assert!(b.len() == 2 && b[0] == c[0] && b[1] == c[1]);
    }
    #[kani::proof]
    fn errmsg() {
        use num_traits::FromPrimitive;
        let c: u8 = kani::any();
        let e = zvt::constants::ErrorMessages::from_u8(c);
        if let Some(ref e2) = e { assert!(matches!(e2, zvt::constants::ErrorMessages::SystemError) == (c == 0xff)); }
        if c == 0x6c { assert!(e == Some(zvt::constants::ErrorMessages::AbortViaTimeoutOrAbortKey)); }
    }
}
