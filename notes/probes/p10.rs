use vstd::prelude::*;
verus! {
pub trait Tr: Sized {
    spec fn f(&self) -> int;
    open spec fn g(&self) -> int { self.f() + 1 }
    fn run(&self) -> (r: u8)
        ensures r as int == self.g() % 256,   // clause A
                r != 7,                        // clause B
                r != 9;                        // clause C
}
pub struct A(pub u8);
impl Tr for A {
    open spec fn f(&self) -> int { self.0 as int }
    fn run(&self) -> (r: u8) { if self.0 == 255 { 0 } else { self.0 + 1 } }
}
pub struct B(pub u8);
impl Tr for B {
    open spec fn f(&self) -> int { self.0 as int }
    open spec fn g(&self) -> int { 5 }
    fn run(&self) -> (r: u8) { 5 }
}
}
fn main(){}
