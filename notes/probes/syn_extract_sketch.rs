use quote::ToTokens;
use syn::visit_mut::VisitMut;
struct V;
impl VisitMut for V {
    fn visit_expr_mut(&mut self, e: &mut syn::Expr) {
        syn::visit_mut::visit_expr_mut(self, e);
        if let syn::Expr::Await(a) = e { let b = (*a.base).clone(); *e = b; }
    }
}
fn main() {
    let src = std::fs::read_to_string(std::env::args().nth(1).unwrap()).unwrap();
    let mut f = syn::parse_file(&src).unwrap();
    V.visit_file_mut(&mut f);
    for it in &f.items {
        if let syn::Item::Impl(i) = it {
            for ii in &i.items { if let syn::ImplItem::Fn(m) = ii { println!("{}", m.sig.ident); if m.sig.ident == "read_packet" { println!("{}", m.block.to_token_stream()); } } }
        }
        if let syn::Item::Macro(m) = it { println!("macro {:?}", m.mac.path.to_token_stream().to_string()); }
    }
}
