use vstd::prelude::*;
verus! {
pub struct VErr;
pub type Result<T> = core::result::Result<T, VErr>;
pub trait ZvtParser: Sized {
    spec fn spec_parse(b: Seq<u8>) -> Option<Self>;
    fn zvt_parse(bytes: &[u8]) -> (r: Result<Self>)
        ensures match Self::spec_parse(bytes@) { Some(v) => r == Ok::<Self,VErr>(v), None => r is Err };
}
pub trait VSource: Sized {
    spec fn inbox(&self) -> Seq<u8>;
    spec fn outbox(&self) -> Seq<u8>;
    fn read_exact(&mut self, buf: &mut [u8]) -> (r: Result<usize>)
        ensures
            final(self).outbox() == old(self).outbox(),
            r is Ok ==> old(self).inbox().len() >= old(buf)@.len()
                && final(buf)@ =~= old(self).inbox().subrange(0, old(buf)@.len() as int)
                && final(self).inbox() =~= old(self).inbox().subrange(old(buf)@.len() as int, old(self).inbox().len() as int),
            r is Err ==> old(self).inbox().len() < old(buf)@.len();
}
#[verifier::external_body]
pub fn u16_from_le_slice(b: &[u8]) -> (r: u16)
    requires b@.len() == 2
    ensures r as int == b@[0] as int + 256 * (b@[1] as int)
{ u16::from_le_bytes(b.try_into().unwrap()) }
pub struct PacketTransport<Source> { pub source: Source }

impl<S> PacketTransport<S>
where
    S: VSource,
{
    pub fn read_packet<T>(&mut self) -> Result<T>
    where
        T: ZvtParser,
    {
        let mut buf = vec![0; 3];
        self.source.read_exact(&mut buf)?;

        // Get the len.
        let len = if buf[2] == 0xff {
            buf.resize(5, 0);
            self.source.read_exact(&mut buf[3..5])?;
            u16_from_le_slice(&buf[3..5]) as usize
        } else {
            buf[2] as usize
        };

        let start = buf.len();
        buf.resize(start + len, 0);
        self.source.read_exact(&mut buf[start..])?;

        Ok(T::zvt_parse(&buf)?)
    }
}
}
fn main() {}
