use vstd::prelude::*;
verus! {
pub mod lemmas { use vstd::prelude::*;
pub broadcast proof fn lemma_push_drop_last<A>(s: Seq<A>, x: A)
    ensures #[trigger] s.push(x).drop_last() == s
{ assert(s.push(x).drop_last() =~= s); }
}
pub struct VErr;
pub type Result<T> = core::result::Result<T, VErr>;
pub enum Resp { Inter(u8), Status(u8), Abort(u8) }
pub enum Ev { W(Seq<u8>), RAck, R(Resp), Y(Resp) }
pub struct PT { pub ghost log: Seq<Ev> }
pub struct Cmd { pub x: u8 }
pub struct AckP {}
pub uninterp spec fn enc_cmd(c: &Cmd) -> Seq<u8>;
pub open spec fn enc_ack() -> Seq<u8> { seq![0x80u8, 0, 0] }
impl PT {
    #[verifier::external_body]
    pub fn write_packet_with_ack(&mut self, c: &Cmd) -> (r: Result<()>)
        ensures r is Ok ==> final(self).log == old(self).log.push(Ev::W(enc_cmd(c))).push(Ev::RAck),
                r is Err ==> final(self).log.len() <= old(self).log.len() + 1 && (forall|i:int| 0<=i<old(self).log.len() ==> final(self).log[i] == old(self).log[i])
    { unimplemented!() }
    #[verifier::external_body]
    pub fn read_packet(&mut self) -> (r: Result<Resp>)
        ensures r matches Ok(p) ==> final(self).log == old(self).log.push(Ev::R(p)),
                r is Err ==> final(self).log == old(self).log
    { unimplemented!() }
    #[verifier::external_body]
    pub fn write_packet(&mut self, a: &AckP) -> (r: Result<()>)
        ensures r is Ok ==> final(self).log == old(self).log.push(Ev::W(enc_ack())),
                r is Err ==> final(self).log == old(self).log
    { unimplemented!() }
    #[verifier::external_body]
    pub fn emit(&mut self, p: Resp)
        ensures final(self).log == old(self).log.push(Ev::Y(p))
    { unimplemented!() }
}
pub open spec fn terminal(p: Resp) -> bool { p is Status || p is Abort }
broadcast use lemmas::lemma_push_drop_last;

pub open spec fn last_triple(s: Seq<Ev>, term: bool) -> bool {
    s.len() >= 3 && match s[s.len()-3] { Ev::R(p) => s[s.len()-2] == Ev::W(enc_ack()) && s[s.len()-1] == Ev::Y(p) && terminal(p) == term, _ => false }
}
// log = hdr ++ triples; n = |hdr|
pub open spec fn nt_from(s: Seq<Ev>, n: int) -> bool decreases s.len() {
    s.len() == n || (s.len() >= n + 3 && last_triple(s, false) && nt_from(s.drop_last().drop_last().drop_last(), n))
}
pub open spec fn header(pre: Seq<Ev>, input: &Cmd) -> Seq<Ev> { pre.push(Ev::W(enc_cmd(input))).push(Ev::RAck) }
pub open spec fn is_prefix(a: Seq<Ev>, b: Seq<Ev>) -> bool { a.len() <= b.len() && forall|i:int| 0 <= i < a.len() ==> a[i] == b[i] }

pub fn seq_read_card(input: &Cmd, src: &mut PT) -> (r: Result<()>)
    ensures
      r is Ok ==> ({ let n = old(src).log.len() as int + 2; let l = final(src).log;
           is_prefix(header(old(src).log, input), l)
           && last_triple(l, true) && nt_from(l.drop_last().drop_last().drop_last(), n) }),
{
    src.write_packet_with_ack(input)?;
    loop
        invariant_except_break nt_from(src.log, old(src).log.len() as int + 2),
        invariant is_prefix(header(old(src).log, input), src.log),
        ensures last_triple(src.log, true), nt_from(src.log.drop_last().drop_last().drop_last(), old(src).log.len() as int + 2),
        decreases 0int
    {
        let packet = src.read_packet()?;
        src.write_packet(&AckP {})?;
        match packet {
            Resp::Status(_) | Resp::Abort(_) => {
                src.emit(packet);
                break;
            }
            _ => src.emit(packet),
        }
    }
    Ok(())
}
}
fn main(){}
