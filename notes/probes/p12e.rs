
use vstd::prelude::*;
verus! {
pub open spec fn is_suffix(s: Seq<u8>, of: Seq<u8>) -> bool {
    s.len() <= of.len() && s =~= of.subrange(of.len() - s.len(), of.len() as int)
}
pub mod zvt_builder {
    use vstd::prelude::*;
    use std::collections::HashSet;
    use super::is_suffix;
    pub enum ZVTError { IncompleteData, NonImplemented, WrongTag(Tag), DuplicateTag(Tag), MissingRequiredTags(Vec<Tag>), Aborted(u8) }
    pub type ZVTResult<T> = ::std::result::Result<T, ZVTError>;
    pub struct Tag(pub u16);
    #[verifier::external_body]
    pub fn v_sorted_tags(s: super::VTagSet) -> (r: Vec<Tag>)
      ensures forall|i:int| 0<=i<r@.len() ==> s.v.contains(#[trigger] r@[i].0)
    { unimplemented!() }
    pub mod length { pub struct Empty; pub struct Tlv; pub struct Fixed<const N: usize>(pub usize); pub struct LlvImpl<const N: usize>;
        pub type Llv = LlvImpl<2>; pub type Lllv = LlvImpl<3>; }
    pub mod encoding {
        use vstd::prelude::*; use super::*;
        pub struct Default; pub struct Bcd; pub struct Hex; pub struct BigEndian;
        pub trait Encoding<T> {
            spec fn spec_enc(input: &T) -> Seq<u8>;
            fn encode(input: &T) -> (r: Vec<u8>) ensures r@ == Self::spec_enc(input);
            fn decode(bytes: &[u8]) -> (r: ZVTResult<(T, &[u8])>) ensures r matches Ok((v, rest)) ==> is_suffix(rest@, bytes@);
        }
        impl Encoding<Tag> for Default {
            uninterp spec fn spec_enc(input: &Tag) -> Seq<u8>;
            #[verifier::external_body] fn encode(input: &Tag) -> Vec<u8> { unimplemented!() }
            #[verifier::external_body] fn decode(bytes: &[u8]) -> ZVTResult<(Tag, &[u8])> { unimplemented!() }
        }
    }
    pub trait ZvtSerializerImpl<L = length::Empty, E = encoding::Default, TE = encoding::Default>: Sized {
        spec fn spec_ser_tagged(&self, tag: Option<Tag>) -> Seq<u8>;
        fn serialize_tagged(&self, tag: Option<Tag>) -> (r: Vec<u8>) ensures r@ == self.spec_ser_tagged(tag);
        fn deserialize_tagged(bytes: &[u8], tag: Option<Tag>) -> (r: ZVTResult<(Self, &[u8])>)
            ensures r matches Ok((v, rest)) ==> is_suffix(rest@, bytes@) && (tag is Some ==> rest@.len() < bytes@.len());
    }
    impl<T, L, E, TE> ZvtSerializerImpl<L, E, TE> for T {
        uninterp spec fn spec_ser_tagged(&self, tag: Option<Tag>) -> Seq<u8>;
        #[verifier::external_body] fn serialize_tagged(&self, tag: Option<Tag>) -> Vec<u8> { unimplemented!() }
        #[verifier::external_body] fn deserialize_tagged(bytes: &[u8], tag: Option<Tag>) -> ZVTResult<(Self, &[u8])> { unimplemented!() }
    }
}
use zvt_builder::encoding; use zvt_builder::length; use zvt_builder::encoding::Encoding;

pub struct VTagSet { pub ghost v: Set<u16> }
impl VTagSet {
    #[verifier::external_body] pub fn new() -> (r: Self) ensures r.v == Set::<u16>::empty() { unimplemented!() }
    #[verifier::external_body] pub fn from<const N: usize>(a: [u16; N]) -> (r: Self) ensures forall|t: u16| r.v.contains(t) <==> a@.contains(t) { unimplemented!() }
    #[verifier::external_body] pub fn insert(&mut self, t: u16) -> (r: bool) ensures final(self).v == old(self).v.insert(t), r == !old(self).v.contains(t) { unimplemented!() }
    #[verifier::external_body] pub fn remove(&mut self, t: &u16) -> (r: bool) ensures final(self).v == old(self).v.remove(*t) { unimplemented!() }
    #[verifier::external_body] pub fn is_empty(&self) -> (r: bool) ensures r <==> (forall|t: u16| !self.v.contains(t)) { unimplemented!() }
}
pub struct SingleAmounts { pub x: u8 }
pub mod tlv { pub struct StatusInformation { pub x: u8 } }
pub open spec fn known_tag(t: u16) -> bool { t == 4 || t == 11 || t == 12 || t == 13 || t == 14 || t == 23 || t == 25 || t == 34 || t == 35 || t == 39 || t == 41 || t == 42 || t == 59 || t == 60 || t == 96 || t == 135 || t == 73 || t == 138 || t == 139 || t == 140 || t == 6 }
pub struct StatusInformation {
        pub amount: Option<usize>,
        pub trace_number: Option<usize>,
        pub time: Option<usize>,
        pub date: Option<usize>,
        pub expiry_date: Option<usize>,
        pub card_sequence_number: Option<usize>,
        pub card_type: Option<u8>,
        pub card_number: Option<usize>,
        pub track_2_data: Option<String>,
        pub result_code: Option<u8>,
        pub terminal_id: Option<usize>,
        pub vu_number: Option<String>,
        pub aid_authorization_attribute: Option<String>,
        pub additional_text: Option<String>,
        pub single_amounts: Option<SingleAmounts>,
        pub receipt_no: Option<usize>,
        pub currency: Option<usize>,
        pub zvt_card_type: Option<u8>,
        pub card_name: Option<String>,
        pub zvt_card_type_id: Option<u8>,
        pub tlv: Option<tlv::StatusInformation>,
    }
    impl zvt_builder::encoding::Encoding<StatusInformation> for
        zvt_builder::encoding::Default {
        open spec fn spec_enc(input: &StatusInformation) -> Seq<u8> { Seq::empty() }
 fn encode(input: &StatusInformation) -> Vec<u8> {
            let mut output = Vec::new();
            output.append(&mut <Option<usize> as
                            zvt_builder::ZvtSerializerImpl<length::Fixed<6>,
                            encoding::Bcd>>::serialize_tagged(&input.amount,
                        Some(zvt_builder::Tag(4u16))));
            output.append(&mut <Option<usize> as
                            zvt_builder::ZvtSerializerImpl<length::Fixed<3>,
                            encoding::Bcd>>::serialize_tagged(&input.trace_number,
                        Some(zvt_builder::Tag(11u16))));
            output.append(&mut <Option<usize> as
                            zvt_builder::ZvtSerializerImpl<length::Fixed<3>,
                            encoding::Bcd>>::serialize_tagged(&input.time,
                        Some(zvt_builder::Tag(12u16))));
            output.append(&mut <Option<usize> as
                            zvt_builder::ZvtSerializerImpl<length::Fixed<2>,
                            encoding::Bcd>>::serialize_tagged(&input.date,
                        Some(zvt_builder::Tag(13u16))));
            output.append(&mut <Option<usize> as
                            zvt_builder::ZvtSerializerImpl<length::Fixed<2>,
                            encoding::Bcd>>::serialize_tagged(&input.expiry_date,
                        Some(zvt_builder::Tag(14u16))));
            output.append(&mut <Option<usize> as
                            zvt_builder::ZvtSerializerImpl<length::Fixed<2>,
                            encoding::Bcd>>::serialize_tagged(&input.card_sequence_number,
                        Some(zvt_builder::Tag(23u16))));
            output.append(&mut <Option<u8> as
                            zvt_builder::ZvtSerializerImpl<zvt_builder::length::Empty,
                            zvt_builder::encoding::Default>>::serialize_tagged(&input.card_type,
                        Some(zvt_builder::Tag(25u16))));
            output.append(&mut <Option<usize> as
                            zvt_builder::ZvtSerializerImpl<length::Llv,
                            encoding::Bcd>>::serialize_tagged(&input.card_number,
                        Some(zvt_builder::Tag(34u16))));
            output.append(&mut <Option<String> as
                            zvt_builder::ZvtSerializerImpl<length::Llv,
                            encoding::Hex>>::serialize_tagged(&input.track_2_data,
                        Some(zvt_builder::Tag(35u16))));
            output.append(&mut <Option<u8> as
                            zvt_builder::ZvtSerializerImpl<length::Fixed<1>,
                            zvt_builder::encoding::Default>>::serialize_tagged(&input.result_code,
                        Some(zvt_builder::Tag(39u16))));
            output.append(&mut <Option<usize> as
                            zvt_builder::ZvtSerializerImpl<length::Fixed<4>,
                            encoding::Bcd>>::serialize_tagged(&input.terminal_id,
                        Some(zvt_builder::Tag(41u16))));
            output.append(&mut <Option<String> as
                            zvt_builder::ZvtSerializerImpl<length::Fixed<15>,
                            zvt_builder::encoding::Default>>::serialize_tagged(&input.vu_number,
                        Some(zvt_builder::Tag(42u16))));
            output.append(&mut <Option<String> as
                            zvt_builder::ZvtSerializerImpl<length::Fixed<8>,
                            zvt_builder::encoding::Default>>::serialize_tagged(&input.aid_authorization_attribute,
                        Some(zvt_builder::Tag(59u16))));
            output.append(&mut <Option<String> as
                            zvt_builder::ZvtSerializerImpl<length::Lllv,
                            zvt_builder::encoding::Default>>::serialize_tagged(&input.additional_text,
                        Some(zvt_builder::Tag(60u16))));
            output.append(&mut <Option<SingleAmounts> as
                            zvt_builder::ZvtSerializerImpl<length::Lllv,
                            zvt_builder::encoding::Default>>::serialize_tagged(&input.single_amounts,
                        Some(zvt_builder::Tag(96u16))));
            output.append(&mut <Option<usize> as
                            zvt_builder::ZvtSerializerImpl<length::Fixed<2>,
                            encoding::Bcd>>::serialize_tagged(&input.receipt_no,
                        Some(zvt_builder::Tag(135u16))));
            output.append(&mut <Option<usize> as
                            zvt_builder::ZvtSerializerImpl<length::Fixed<2>,
                            encoding::Bcd>>::serialize_tagged(&input.currency,
                        Some(zvt_builder::Tag(73u16))));
            output.append(&mut <Option<u8> as
                            zvt_builder::ZvtSerializerImpl<zvt_builder::length::Empty,
                            zvt_builder::encoding::Default>>::serialize_tagged(&input.zvt_card_type,
                        Some(zvt_builder::Tag(138u16))));
            output.append(&mut <Option<String> as
                            zvt_builder::ZvtSerializerImpl<length::Llv,
                            zvt_builder::encoding::Default>>::serialize_tagged(&input.card_name,
                        Some(zvt_builder::Tag(139u16))));
            output.append(&mut <Option<u8> as
                            zvt_builder::ZvtSerializerImpl<zvt_builder::length::Empty,
                            zvt_builder::encoding::Default>>::serialize_tagged(&input.zvt_card_type_id,
                        Some(zvt_builder::Tag(140u16))));
            output.append(&mut <Option<tlv::StatusInformation> as
                            zvt_builder::ZvtSerializerImpl<length::Tlv,
                            zvt_builder::encoding::Default>>::serialize_tagged(&input.tlv,
                        Some(zvt_builder::Tag(6u16))));
            output
        }
        fn decode<'a>(mut bytes: &'a [u8]) -> zvt_builder::ZVTResult<(StatusInformation, &'a [u8])>
 { let ghost bytes0 = bytes@; assume(bytes0.len() < usize::MAX);
            let v: [u16; 0] = [];
            let mut required_tags = VTagSet::from(v);
            let mut actual_tags = VTagSet::new();
            let mut curr_len = bytes.len() + 1;
            let mut amount = <Option<usize>>::default();
            let mut trace_number = <Option<usize>>::default();
            let mut time = <Option<usize>>::default();
            let mut date = <Option<usize>>::default();
            let mut expiry_date = <Option<usize>>::default();
            let mut card_sequence_number = <Option<usize>>::default();
            let mut card_type = <Option<u8>>::default();
            let mut card_number = <Option<usize>>::default();
            let mut track_2_data = <Option<String>>::default();
            let mut result_code = <Option<u8>>::default();
            let mut terminal_id = <Option<usize>>::default();
            let mut vu_number = <Option<String>>::default();
            let mut aid_authorization_attribute = <Option<String>>::default();
            let mut additional_text = <Option<String>>::default();
            let mut single_amounts = <Option<SingleAmounts>>::default();
            let mut receipt_no = <Option<usize>>::default();
            let mut currency = <Option<usize>>::default();
            let mut zvt_card_type = <Option<u8>>::default();
            let mut card_name = <Option<String>>::default();
            let mut zvt_card_type_id = <Option<u8>>::default();
            let mut tlv = <Option<tlv::StatusInformation>>::default();
            while !bytes.is_empty() && curr_len != bytes.len()
 invariant is_suffix(bytes@, bytes0), bytes0.len() < usize::MAX, forall|t: u16| #[trigger] actual_tags.v.contains(t) ==> known_tag(t), forall|t: u16| #[trigger] required_tags.v.contains(t) ==> !actual_tags.v.contains(t),
 decreases bytes.len() + (if curr_len != bytes.len() {1int} else {0int})
 {
                curr_len = bytes.len();
                let tag: zvt_builder::Tag =
                    match zvt_builder::encoding::Default::decode(&bytes) {
                        Err(_e) => break,
                        Ok(data) => data.0,
                    };
                
                match tag.0 {
                    4u16 => {
                        if !actual_tags.insert(4u16) {
                            return Err(zvt_builder::ZVTError::DuplicateTag(zvt_builder::Tag(4u16)));
                        }
                        required_tags.remove(&4u16);
                        let __t = <Option<usize> as
                                        zvt_builder::ZvtSerializerImpl<length::Fixed<6>,
                                        encoding::Bcd>>::deserialize_tagged(&bytes,
                                    Some(zvt_builder::Tag(4u16)))?; amount = __t.0; bytes = __t.1;
                    }
                    11u16 => {
                        if !actual_tags.insert(11u16) {
                            return Err(zvt_builder::ZVTError::DuplicateTag(zvt_builder::Tag(11u16)));
                        }
                        required_tags.remove(&11u16);
                        let __t = <Option<usize> as
                                        zvt_builder::ZvtSerializerImpl<length::Fixed<3>,
                                        encoding::Bcd>>::deserialize_tagged(&bytes,
                                    Some(zvt_builder::Tag(11u16)))?; trace_number = __t.0; bytes = __t.1;
                    }
                    12u16 => {
                        if !actual_tags.insert(12u16) {
                            return Err(zvt_builder::ZVTError::DuplicateTag(zvt_builder::Tag(12u16)));
                        }
                        required_tags.remove(&12u16);
                        let __t = <Option<usize> as
                                        zvt_builder::ZvtSerializerImpl<length::Fixed<3>,
                                        encoding::Bcd>>::deserialize_tagged(&bytes,
                                    Some(zvt_builder::Tag(12u16)))?; time = __t.0; bytes = __t.1;
                    }
                    13u16 => {
                        if !actual_tags.insert(13u16) {
                            return Err(zvt_builder::ZVTError::DuplicateTag(zvt_builder::Tag(13u16)));
                        }
                        required_tags.remove(&13u16);
                        let __t = <Option<usize> as
                                        zvt_builder::ZvtSerializerImpl<length::Fixed<2>,
                                        encoding::Bcd>>::deserialize_tagged(&bytes,
                                    Some(zvt_builder::Tag(13u16)))?; date = __t.0; bytes = __t.1;
                    }
                    14u16 => {
                        if !actual_tags.insert(14u16) {
                            return Err(zvt_builder::ZVTError::DuplicateTag(zvt_builder::Tag(14u16)));
                        }
                        required_tags.remove(&14u16);
                        let __t = <Option<usize> as
                                        zvt_builder::ZvtSerializerImpl<length::Fixed<2>,
                                        encoding::Bcd>>::deserialize_tagged(&bytes,
                                    Some(zvt_builder::Tag(14u16)))?; expiry_date = __t.0; bytes = __t.1;
                    }
                    23u16 => {
                        if !actual_tags.insert(23u16) {
                            return Err(zvt_builder::ZVTError::DuplicateTag(zvt_builder::Tag(23u16)));
                        }
                        required_tags.remove(&23u16);
                        let __t = <Option<usize> as
                                        zvt_builder::ZvtSerializerImpl<length::Fixed<2>,
                                        encoding::Bcd>>::deserialize_tagged(&bytes,
                                    Some(zvt_builder::Tag(23u16)))?; card_sequence_number = __t.0; bytes = __t.1;
                    }
                    25u16 => {
                        if !actual_tags.insert(25u16) {
                            return Err(zvt_builder::ZVTError::DuplicateTag(zvt_builder::Tag(25u16)));
                        }
                        required_tags.remove(&25u16);
                        let __t = <Option<u8> as
                                        zvt_builder::ZvtSerializerImpl<zvt_builder::length::Empty,
                                        zvt_builder::encoding::Default>>::deserialize_tagged(&bytes,
                                    Some(zvt_builder::Tag(25u16)))?; card_type = __t.0; bytes = __t.1;
                    }
                    34u16 => {
                        if !actual_tags.insert(34u16) {
                            return Err(zvt_builder::ZVTError::DuplicateTag(zvt_builder::Tag(34u16)));
                        }
                        required_tags.remove(&34u16);
                        let __t = <Option<usize> as
                                        zvt_builder::ZvtSerializerImpl<length::Llv,
                                        encoding::Bcd>>::deserialize_tagged(&bytes,
                                    Some(zvt_builder::Tag(34u16)))?; card_number = __t.0; bytes = __t.1;
                    }
                    35u16 => {
                        if !actual_tags.insert(35u16) {
                            return Err(zvt_builder::ZVTError::DuplicateTag(zvt_builder::Tag(35u16)));
                        }
                        required_tags.remove(&35u16);
                        let __t = <Option<String> as
                                        zvt_builder::ZvtSerializerImpl<length::Llv,
                                        encoding::Hex>>::deserialize_tagged(&bytes,
                                    Some(zvt_builder::Tag(35u16)))?; track_2_data = __t.0; bytes = __t.1;
                    }
                    39u16 => {
                        if !actual_tags.insert(39u16) {
                            return Err(zvt_builder::ZVTError::DuplicateTag(zvt_builder::Tag(39u16)));
                        }
                        required_tags.remove(&39u16);
                        let __t = <Option<u8> as
                                        zvt_builder::ZvtSerializerImpl<length::Fixed<1>,
                                        zvt_builder::encoding::Default>>::deserialize_tagged(&bytes,
                                    Some(zvt_builder::Tag(39u16)))?; result_code = __t.0; bytes = __t.1;
                    }
                    41u16 => {
                        if !actual_tags.insert(41u16) {
                            return Err(zvt_builder::ZVTError::DuplicateTag(zvt_builder::Tag(41u16)));
                        }
                        required_tags.remove(&41u16);
                        let __t = <Option<usize> as
                                        zvt_builder::ZvtSerializerImpl<length::Fixed<4>,
                                        encoding::Bcd>>::deserialize_tagged(&bytes,
                                    Some(zvt_builder::Tag(41u16)))?; terminal_id = __t.0; bytes = __t.1;
                    }
                    42u16 => {
                        if !actual_tags.insert(42u16) {
                            return Err(zvt_builder::ZVTError::DuplicateTag(zvt_builder::Tag(42u16)));
                        }
                        required_tags.remove(&42u16);
                        let __t = <Option<String> as
                                        zvt_builder::ZvtSerializerImpl<length::Fixed<15>,
                                        zvt_builder::encoding::Default>>::deserialize_tagged(&bytes,
                                    Some(zvt_builder::Tag(42u16)))?; vu_number = __t.0; bytes = __t.1;
                    }
                    59u16 => {
                        if !actual_tags.insert(59u16) {
                            return Err(zvt_builder::ZVTError::DuplicateTag(zvt_builder::Tag(59u16)));
                        }
                        required_tags.remove(&59u16);
                        let __t = <Option<String> as
                                        zvt_builder::ZvtSerializerImpl<length::Fixed<8>,
                                        zvt_builder::encoding::Default>>::deserialize_tagged(&bytes,
                                    Some(zvt_builder::Tag(59u16)))?; aid_authorization_attribute = __t.0; bytes = __t.1;
                    }
                    60u16 => {
                        if !actual_tags.insert(60u16) {
                            return Err(zvt_builder::ZVTError::DuplicateTag(zvt_builder::Tag(60u16)));
                        }
                        required_tags.remove(&60u16);
                        let __t = <Option<String> as
                                        zvt_builder::ZvtSerializerImpl<length::Lllv,
                                        zvt_builder::encoding::Default>>::deserialize_tagged(&bytes,
                                    Some(zvt_builder::Tag(60u16)))?; additional_text = __t.0; bytes = __t.1;
                    }
                    96u16 => {
                        if !actual_tags.insert(96u16) {
                            return Err(zvt_builder::ZVTError::DuplicateTag(zvt_builder::Tag(96u16)));
                        }
                        required_tags.remove(&96u16);
                        let __t = <Option<SingleAmounts> as
                                        zvt_builder::ZvtSerializerImpl<length::Lllv,
                                        zvt_builder::encoding::Default>>::deserialize_tagged(&bytes,
                                    Some(zvt_builder::Tag(96u16)))?; single_amounts = __t.0; bytes = __t.1;
                    }
                    135u16 => {
                        if !actual_tags.insert(135u16) {
                            return Err(zvt_builder::ZVTError::DuplicateTag(zvt_builder::Tag(135u16)));
                        }
                        required_tags.remove(&135u16);
                        let __t = <Option<usize> as
                                        zvt_builder::ZvtSerializerImpl<length::Fixed<2>,
                                        encoding::Bcd>>::deserialize_tagged(&bytes,
                                    Some(zvt_builder::Tag(135u16)))?; receipt_no = __t.0; bytes = __t.1;
                    }
                    73u16 => {
                        if !actual_tags.insert(73u16) {
                            return Err(zvt_builder::ZVTError::DuplicateTag(zvt_builder::Tag(73u16)));
                        }
                        required_tags.remove(&73u16);
                        let __t = <Option<usize> as
                                        zvt_builder::ZvtSerializerImpl<length::Fixed<2>,
                                        encoding::Bcd>>::deserialize_tagged(&bytes,
                                    Some(zvt_builder::Tag(73u16)))?; currency = __t.0; bytes = __t.1;
                    }
                    138u16 => {
                        if !actual_tags.insert(138u16) {
                            return Err(zvt_builder::ZVTError::DuplicateTag(zvt_builder::Tag(138u16)));
                        }
                        required_tags.remove(&138u16);
                        let __t = <Option<u8> as
                                        zvt_builder::ZvtSerializerImpl<zvt_builder::length::Empty,
                                        zvt_builder::encoding::Default>>::deserialize_tagged(&bytes,
                                    Some(zvt_builder::Tag(138u16)))?; zvt_card_type = __t.0; bytes = __t.1;
                    }
                    139u16 => {
                        if !actual_tags.insert(139u16) {
                            return Err(zvt_builder::ZVTError::DuplicateTag(zvt_builder::Tag(139u16)));
                        }
                        required_tags.remove(&139u16);
                        let __t = <Option<String> as
                                        zvt_builder::ZvtSerializerImpl<length::Llv,
                                        zvt_builder::encoding::Default>>::deserialize_tagged(&bytes,
                                    Some(zvt_builder::Tag(139u16)))?; card_name = __t.0; bytes = __t.1;
                    }
                    140u16 => {
                        if !actual_tags.insert(140u16) {
                            return Err(zvt_builder::ZVTError::DuplicateTag(zvt_builder::Tag(140u16)));
                        }
                        required_tags.remove(&140u16);
                        let __t = <Option<u8> as
                                        zvt_builder::ZvtSerializerImpl<zvt_builder::length::Empty,
                                        zvt_builder::encoding::Default>>::deserialize_tagged(&bytes,
                                    Some(zvt_builder::Tag(140u16)))?; zvt_card_type_id = __t.0; bytes = __t.1;
                    }
                    6u16 => {
                        if !actual_tags.insert(6u16) {
                            return Err(zvt_builder::ZVTError::DuplicateTag(zvt_builder::Tag(6u16)));
                        }
                        required_tags.remove(&6u16);
                        let __t = <Option<tlv::StatusInformation> as
                                        zvt_builder::ZvtSerializerImpl<length::Tlv,
                                        zvt_builder::encoding::Default>>::deserialize_tagged(&bytes,
                                    Some(zvt_builder::Tag(6u16)))?; tlv = __t.0; bytes = __t.1;
                    }
                    _ => {
                        
                        break;
                    }
                }
            }
            if !required_tags.is_empty() {
                let as_vec = zvt_builder::v_sorted_tags(required_tags);
                return Err(zvt_builder::ZVTError::MissingRequiredTags(as_vec));
            }
            Ok((StatusInformation {
                        amount: amount,
                        trace_number: trace_number,
                        time: time,
                        date: date,
                        expiry_date: expiry_date,
                        card_sequence_number: card_sequence_number,
                        card_type: card_type,
                        card_number: card_number,
                        track_2_data: track_2_data,
                        result_code: result_code,
                        terminal_id: terminal_id,
                        vu_number: vu_number,
                        aid_authorization_attribute: aid_authorization_attribute,
                        additional_text: additional_text,
                        single_amounts: single_amounts,
                        receipt_no: receipt_no,
                        currency: currency,
                        zvt_card_type: zvt_card_type,
                        card_name: card_name,
                        zvt_card_type_id: zvt_card_type_id,
                        tlv: tlv,
                    }, &bytes))
        }
    }
    
}
fn main(){}
