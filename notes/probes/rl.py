import json,sys,subprocess
f=sys.argv[1]; extra=sys.argv[2:]
out=subprocess.run(['verus',f,'--output-json','--time']+extra,capture_output=True,text=True).stdout
d=json.loads(out)
for m in d['times-ms']['smt']['smt-run-module-times']:
    for fb in m['function-breakdown']:
        if fb['rlimit']>200000: print(fb['function'],fb['time'],'ms',fb['rlimit'],fb['success'])
print(d['verification-results'])
