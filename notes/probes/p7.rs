use vstd::prelude::*;
verus! {
pub enum ZVTError { IncompleteData, WrongTag(Tag) }
pub type ZVTResult<T> = ::std::result::Result<T, ZVTError>;
pub struct Tag(pub u16);
pub trait ZvtCommand { const CLASS: u8; const INSTR: u8; }
pub trait ZvtSerializer: Sized {
    spec fn spec_deser(bytes: Seq<u8>) -> Option<Self>;
    fn zvt_deserialize(bytes: &[u8]) -> (r: ZVTResult<(Self, &[u8])>)
      ensures r matches Ok((v, rest)) ==> Self::spec_deser(bytes@) == Some(v);
}
pub struct A { pub x: u8 }
pub struct B { pub y: u8 }
impl ZvtCommand for A { const CLASS: u8 = 6u8; const INSTR: u8 = 30u8; }
impl ZvtCommand for B { const CLASS: u8 = 4u8; const INSTR: u8 = 15u8; }
impl ZvtSerializer for A {
    uninterp spec fn spec_deser(bytes: Seq<u8>) -> Option<Self>;
    #[verifier::external_body] fn zvt_deserialize(bytes: &[u8]) -> ZVTResult<(Self, &[u8])> { unimplemented!() } }
impl ZvtSerializer for B {
    uninterp spec fn spec_deser(bytes: Seq<u8>) -> Option<Self>;
    #[verifier::external_body] fn zvt_deserialize(bytes: &[u8]) -> ZVTResult<(Self, &[u8])> { unimplemented!() } }
pub enum Resp { A(A), B(B) }
pub trait ZvtParser: Sized { fn zvt_parse(bytes: &[u8]) -> ZVTResult<Self>; }
impl ZvtParser for Resp {
    fn zvt_parse(bytes: &[u8]) -> (r: ZVTResult<Self>)
      ensures
        r matches Ok(Resp::A(a)) ==> bytes@.len() >= 2 && bytes@[0] == 0x06 && bytes@[1] == 0x1e && A::spec_deser(bytes@) == Some(a),
        r matches Ok(Resp::B(b)) ==> bytes@.len() >= 2 && bytes@[0] == 0x04 && bytes@[1] == 0x0f && B::spec_deser(bytes@) == Some(b),
        (bytes@.len() < 2 || !((bytes@[0] == 0x06 && bytes@[1] == 0x1e) || (bytes@[0] == 0x04 && bytes@[1] == 0x0f))) ==> r is Err,
    {
        if bytes.len() < 2 {
            return Err(ZVTError::IncompleteData);
        }
        match (bytes[0], bytes[1]) {
            (__c, __i) if __c == <A as ZvtCommand>::CLASS && __i == <A as ZvtCommand>::INSTR => {
                return Ok(Self::A(<A as ZvtSerializer>::zvt_deserialize(&bytes)?.0));
            }
            (__c, __i) if __c == <B as ZvtCommand>::CLASS && __i == <B as ZvtCommand>::INSTR => {
                return Ok(Self::B(<B as ZvtSerializer>::zvt_deserialize(&bytes)?.0));
            }
            _ => return Err(ZVTError::WrongTag(Tag(0))),
        }
    }
}
}
fn main() {}
