use vstd::prelude::*;
verus! {

#[derive(Debug, PartialEq)]
pub enum ZVTError { IncompleteData, NonImplemented, WrongTag(Tag) }
pub type ZVTResult<T> = ::std::result::Result<T, ZVTError>;
#[derive(Debug, PartialEq, Clone)]
pub struct Tag(pub u16);

pub trait Length {
    fn serialize(len: usize) -> Vec<u8>;
    fn deserialize(bytes: &[u8]) -> ZVTResult<(usize, &[u8])>;
}
pub trait Encoding<T> {
    fn encode(input: &T) -> Vec<u8>;
    fn decode(bytes: &[u8]) -> ZVTResult<(T, &[u8])>;
}

pub struct Empty;
impl Length for Empty {
    fn serialize(_len: usize) -> Vec<u8> {
        vec![]
    }

    fn deserialize(bytes: &[u8]) -> ZVTResult<(usize, &[u8])> {
        Ok((bytes.len(), bytes))
    }
}
pub struct Fixed<const N: usize>(pub usize);

impl<const N: usize> Length for Fixed<N> {
    fn serialize(len: usize) -> Vec<u8> {
        vec![0; N - len]
    }

    fn deserialize(data: &[u8]) -> ZVTResult<(usize, &[u8])> {
        if data.len() < N {
            return Err(ZVTError::IncompleteData);
        }
        Ok((N, data))
    }
}
pub struct LlvImpl<const N: usize>;

impl<const N: usize> Length for LlvImpl<N> {
    fn serialize(input: usize) -> Vec<u8> {
        let mut k = input;
        let mut rv = vec![0; N];
        for i in (0..N).rev() {
            rv[i] = 0xf0 | (k % 10) as u8;
            k /= 10;
        }
        rv
    }

    fn deserialize(data: &[u8]) -> ZVTResult<(usize, &[u8])> {
        let mut rv = 0;
        for i in 0..N {
            let Some(d) = data.get(i)
            else {
                return Err(ZVTError::IncompleteData);
            };
            let d = (*d & 0xf) as usize;
            rv = rv * 10 + d;
        }
        Ok((rv, &data[N..]))
    }
}

pub trait ZvtSerializerImpl<
    L: Length,
    E: Encoding<Self>,
    TE: Encoding<Tag>,
> where
    Self: Sized,
{
    fn serialize_tagged(&self, tag: Option<Tag>) -> Vec<u8> {
        let mut output = Vec::new();
        if let Some(tag) = tag {
            output = TE::encode(&tag);
        }
        let mut payload = E::encode(self);
        let mut length = L::serialize(payload.len());
        output.append(&mut length);
        output.append(&mut payload);
        output
    }

    fn deserialize_tagged(mut bytes: &[u8], tag: Option<Tag>) -> ZVTResult<(Self, &[u8])> {
        if let Some(desired_tag) = tag {
            let actual_tag;
            let __t = TE::decode(bytes)?; actual_tag = __t.0; bytes = __t.1;
            if actual_tag != desired_tag {
                return Err(ZVTError::WrongTag(actual_tag));
            }
        }
        let (length, payload) = L::deserialize(bytes)?;
        if length > payload.len() {
            return Err(ZVTError::IncompleteData);
        }
        let (data, remainder) = E::decode(&payload[..length])?;

        Ok((data, &payload[length - remainder.len()..]))
    }
}

} // verus!
fn main() {}
