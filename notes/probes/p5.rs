extern crate alloc;
use vstd::prelude::*;
verus! {
pub enum ZVTError { IncompleteData }
pub type ZVTResult<T> = ::std::result::Result<T, ZVTError>;
pub trait Encoding<T> {
    fn encode(input: &T) -> Vec<u8>;
    fn decode(bytes: &[u8]) -> ZVTResult<(T, &[u8])>;
}
pub assume_specification<T> [<[T]>::reverse] (s: &mut [T])
    ensures final(s)@ == old(s)@.reverse();
pub struct Bcd;
    impl Encoding<u16> for Bcd {
        fn encode(input: &u16) -> Vec<u8> {
            let mut k = *input;
            let mut rv = ::alloc::vec::Vec::new();
            while k != 0 {
                let mut curr = (k % 10) as u8;
                k /= 10;
                curr |= ((k % 10) as u8) << 4;
                k /= 10;
                rv.push(curr);
            }
            rv.reverse();
            rv
        }
        fn decode(data: &[u8]) -> ZVTResult<(u16, &[u8])> {
            let mut rv = 0;
            for d in data.iter() {
                let high = (*d >> 4) as u16;
                let low = (*d & 0xf) as u16;
                if low != 0xf {
                    rv = (rv * 100) + ((*d >> 4) as u16 * 10) + low;
                } else { rv = (rv * 10) + high; }
            }
            Ok((rv, &[]))
        }
    }
}
fn main() {}
