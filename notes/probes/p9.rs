use vstd::prelude::*;
verus! {
pub enum VErr { Active(u8), Unknown, Zvt(ZVTError), Msg, NeedsPin }
pub enum ZVTError { IncompleteData, Aborted(u8) }
pub type Result<T> = core::result::Result<T, VErr>;

pub struct Bmp60 { pub bmp_prefix: String, pub bmp_data: String }
pub struct PreAuthData { pub bmp_data: Option<Bmp60> }
pub struct Reservation { pub amount: Option<usize>, pub currency: Option<usize>, pub payment_type: Option<u8>, pub tlv: Option<PreAuthData> }
pub struct StatusInformation { pub receipt_no: Option<usize> }
pub struct Abort { pub error: u8 }
pub enum AuthorizationResponse { StatusInformation(StatusInformation), Abort(Abort), CompletionData, Other }

pub struct VStream<T> { pub ghost items: Seq<Result<T>> , pub ghost pos: int}
impl<T> VStream<T> {
    #[verifier::external_body]
    pub fn next(&mut self) -> (r: Option<Result<T>>)
      ensures final(self).items == old(self).items,
         old(self).pos < old(self).items.len() ==> r == Some(old(self).items[old(self).pos]) && final(self).pos == old(self).pos + 1,
         old(self).pos >= old(self).items.len() ==> r is None && final(self).pos == old(self).pos,
    { unimplemented!() }
}
pub struct VMap { pub ghost m: Map<Seq<char>, usize> }
impl VMap {
    #[verifier::external_body]
    pub fn len(&self) -> (r: usize) ensures r == self.m.dom().len(), self.m.dom().finite() { unimplemented!() }
    #[verifier::external_body]
    pub fn contains_key(&self, k: &str) -> (r: bool) ensures r == self.m.dom().contains(k@) { unimplemented!() }
    #[verifier::external_body]
    pub fn insert(&mut self, k: String, v: usize) -> (r: Option<usize>) ensures final(self).m == old(self).m.insert(k@, v) { unimplemented!() }
}
pub struct FeigConfig { pub currency: usize, pub pre_authorization_amount: usize }
pub struct Config { pub feig_config: FeigConfig }
pub struct TcpStream { pub config: Config, pub ghost log: Seq<Reservation> }
impl TcpStream { pub fn config(&self) -> (r: &Config) ensures r == &self.config { &self.config } }
#[verifier::external_body]
pub fn reservation_into_stream(request: Reservation, src: &mut TcpStream) -> (r: VStream<AuthorizationResponse>)
    ensures final(src).log == old(src).log.push(request), final(src).config == old(src).config, r.pos == 0
{ unimplemented!() }
#[verifier::external_body]
pub fn v_to_string(s: &str) -> (r: String) ensures r@ == s@ { s.to_string() }
#[verifier::external_body]
pub fn error_from_u8(c: u8) -> (r: Option<u8>) { unimplemented!() }

const PAYMENT_TYPE: Option<u8> = Some(0x40);
const BMP_PREFIX: &'static str = "AC";

pub struct Feig { pub socket: TcpStream, pub transactions: VMap, pub transactions_max_num: usize }
impl Feig {
    pub fn begin_transaction(&mut self, token: &str) -> (r: Result<()>)
      ensures
         old(self).transactions.m.dom().contains(token@) ==> r is Err && final(self).socket.log == old(self).socket.log,
    {
        if self.transactions.len() == self.transactions_max_num {
            return Err(VErr::Active(0));
        }

        if self.transactions.contains_key(token) {
            return Err(VErr::Active(1));
        }

        let config = self.socket.config();
        let request = Reservation {
            currency: Some(config.feig_config.currency),
            amount: Some(config.feig_config.pre_authorization_amount),
            payment_type: PAYMENT_TYPE,
            tlv: Some(PreAuthData {
                bmp_data: Some(Bmp60 {
                    bmp_prefix: v_to_string(BMP_PREFIX),
                    bmp_data: v_to_string(token),
                }),
            }),
        };

        let mut stream = reservation_into_stream(request, &mut self.socket);
        let mut receipt_no = None;
        while let Some(response) = stream.next() 
           invariant stream.items == stream.items
           decreases stream.items.len() - stream.pos
        {
            let Ok(response) = response else {
                continue;
            };
            match response {
                AuthorizationResponse::Abort(data) => {
                    let err = error_from_u8(data.error)
                        .ok_or(VErr::Msg)?;
                    match err {
                        0xfc => {
                            return Err(VErr::NeedsPin);
                        }
                        _ => return Err(VErr::Zvt(ZVTError::Aborted(data.error))),
                    }
                }
                AuthorizationResponse::StatusInformation(data) => {
                    if let Some(inner) = data.receipt_no {
                        receipt_no = Some(inner);
                    }
                }
                _ => {}
            }
        }

        match receipt_no {
            None => return Err(VErr::Zvt(ZVTError::IncompleteData)),
            Some(receipt_no) => {
                self.transactions.insert(v_to_string(token), receipt_no);
                Ok(())
            }
        }
    }
}
}
fn main() {}
