import sys
pid=sys.argv[1]
prop=open('/tmp/prop_%s.txt'%pid).read()
print(f"""You are working in a scratch git worktree of a Rust workspace at /tmp/wt_{pid} (project: davisriedel/zvt — a Rust implementation of the ZVT payment-terminal protocol: crates zvt_builder (TLV/BCD/APDU codec traits), zvt_derive (derive macros), zvt (packets, io, command sequences), zvt_feig_terminal (reconnecting Feig terminal client), zvt_cli). There is NO network: always use `--offline` with cargo and set CARGO_TARGET_DIR=/tmp/wt_{pid}/target so that build output stays inside the worktree. The existing test-suite is run with: `cd /tmp/wt_{pid} && CARGO_TARGET_DIR=/tmp/wt_{pid}/target cargo test --workspace --no-fail-fast --offline` (34 tests, all pass on the unchanged tree).

YOUR TASK: produce ONE realistic change to the library source code (not to tests) that BREAKS the property stated below, while the workspace still compiles and ALL existing tests still pass. Make it the kind of mistake a developer could plausibly introduce (refactoring slip, off-by-one, wrong constant or boundary, swapped order of two steps, a missing or extra branch, an over-eager 'optimisation', wrong variable) — not sabotage that is obviously absurd. Prefer a change that needs something specific to manifest (an unusual input, a particular multi-step sequence of operations, a fault at a particular point, a particular interleaving, or two cooperating sites that each look fine alone) rather than one that ordinary use would expose at once.

Then write a DEMONSTRATION: a new Rust test (e.g. an integration test file under the affected crate's tests/ directory, or a #[cfg(test)] module you add only for the demo, or a small example program) that FAILS (or prints a clearly wrong result / panics) with your change applied and PASSES without it. For asynchronous code you can use tokio (already a dependency; `tokio::io::duplex` gives an in-memory connection) — check each crate's Cargo.toml for the features that are enabled and only use what builds offline.

DELIVERABLES (create directory /tmp/wt_{pid}/seed):
1. /tmp/wt_{pid}/seed/patch.diff — output of `git diff` containing ONLY the library change (not the demonstration). It must apply cleanly with `git apply` to the unchanged tree.
2. /tmp/wt_{pid}/seed/demo/ — the demonstration file(s), plus README.md with the exact commands to run the demonstration with and without the patch (say where each demo file has to be copied to).
3. /tmp/wt_{pid}/seed/meta.json — JSON with fields: "property" ("{pid}"), "summary" (one paragraph: what was changed and why it breaks the property), "needs_to_manifest" (what specific input / sequence / fault is required), "files_changed", "commands_run" (what you actually ran), "existing_tests_pass_with_patch" (true/false — you must have run the full suite with the patch applied), "demo_fails_with_patch" and "demo_passes_without_patch" (true/false — you must have observed both).
Before finishing, verify all three claims yourself by actually running the commands, and leave the worktree with the patch NOT applied (git stash / git checkout the library files) but the seed/ directory in place.

RULES: work only inside /tmp/wt_{pid}. Do NOT read or list anything under /verif or /root/.vp, and do not modify /repo. Do not edit existing tests. Keep the change small (a few lines).

THE PROPERTY TO BREAK:
{prop}
""")
