import sys,json
pid=sys.argv[1]; wt=sys.argv[2]
sites=json.load(open('/tmp/sites.json')).get(pid,[])
prop=open('/tmp/prop_%s.txt'%pid).read()
base=open('/tmp/agent_prompt.py').read()
tmpl=base[base.index('print(f"""')+len('print(f"""'):base.rindex('""")')]
txt=tmpl.replace('/tmp/wt_{pid}',wt).replace('{pid}',pid).replace('{prop}',prop)
note="DIVERSITY NOTE: earlier changes for this property were made at these places: " + " | ".join(sites) + ". Choose a DIFFERENT site (another function, ideally another file) and a different kind of mistake. Subtle is better than blunt: prefer a change that an experienced reviewer could wave through.\n\nTHE PROPERTY TO BREAK:"
print(txt.replace('THE PROPERTY TO BREAK:', note))
