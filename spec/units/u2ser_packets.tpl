    impl<L: zvt_builder::length::Length, TE: zvt_builder::encoding::Encoding<zvt_builder::Tag>> zvt_builder::ZvtSerializerImpl<L, zvt_builder::encoding::Default, TE> for crate::packets::SetTimeAndDate {
        open spec fn ser_pre(&self, tag: Option<zvt_builder::Tag>) -> bool { zvt_builder::default_ser_pre::<Self, L, zvt_builder::encoding::Default, TE>(self, tag) }
        open spec fn spec_ser_tagged(&self, tag: Option<zvt_builder::Tag>) -> Seq<u8> { zvt_builder::default_spec_ser::<Self, L, zvt_builder::encoding::Default, TE>(self, tag) }
        open spec fn deser_pre(tag: Option<zvt_builder::Tag>) -> bool { L::wf() }
        open spec fn functional() -> bool { false }
        open spec fn deser_progresses(tag: Option<zvt_builder::Tag>) -> bool { tag is Some && TE::progresses() }
        open spec fn deser_defined(b: Seq<u8>, tag: Option<zvt_builder::Tag>) -> bool { true }
        open spec fn deser_ok(b: Seq<u8>, tag: Option<zvt_builder::Tag>, v: Self, k: int) -> bool { true }
        //@ fn src:zvt_builder/src/lib.rs | trait ZvtSerializerImpl | serialize_tagged | subst=E:zvt_builder~encoding~Default props=C03
        //@ end
        //@ fn src:zvt_builder/src/lib.rs | trait ZvtSerializerImpl | deserialize_tagged | subst=E:zvt_builder~encoding~Default props=C02,C14
        //@ end
    }
    impl<L: zvt_builder::length::Length, TE: zvt_builder::encoding::Encoding<zvt_builder::Tag>> zvt_builder::ZvtSerializerImpl<L, zvt_builder::encoding::Default, TE> for crate::packets::NumAndTotal {
        open spec fn ser_pre(&self, tag: Option<zvt_builder::Tag>) -> bool { zvt_builder::default_ser_pre::<Self, L, zvt_builder::encoding::Default, TE>(self, tag) }
        open spec fn spec_ser_tagged(&self, tag: Option<zvt_builder::Tag>) -> Seq<u8> { zvt_builder::default_spec_ser::<Self, L, zvt_builder::encoding::Default, TE>(self, tag) }
        open spec fn deser_pre(tag: Option<zvt_builder::Tag>) -> bool { L::wf() }
        open spec fn functional() -> bool { false }
        open spec fn deser_progresses(tag: Option<zvt_builder::Tag>) -> bool { tag is Some && TE::progresses() }
        open spec fn deser_defined(b: Seq<u8>, tag: Option<zvt_builder::Tag>) -> bool { true }
        open spec fn deser_ok(b: Seq<u8>, tag: Option<zvt_builder::Tag>, v: Self, k: int) -> bool { true }
        //@ fn src:zvt_builder/src/lib.rs | trait ZvtSerializerImpl | serialize_tagged | subst=E:zvt_builder~encoding~Default props=C03
        //@ end
        //@ fn src:zvt_builder/src/lib.rs | trait ZvtSerializerImpl | deserialize_tagged | subst=E:zvt_builder~encoding~Default props=C02,C14
        //@ end
    }
    impl<L: zvt_builder::length::Length, TE: zvt_builder::encoding::Encoding<zvt_builder::Tag>> zvt_builder::ZvtSerializerImpl<L, zvt_builder::encoding::Default, TE> for crate::packets::SingleAmounts {
        open spec fn ser_pre(&self, tag: Option<zvt_builder::Tag>) -> bool { zvt_builder::default_ser_pre::<Self, L, zvt_builder::encoding::Default, TE>(self, tag) }
        open spec fn spec_ser_tagged(&self, tag: Option<zvt_builder::Tag>) -> Seq<u8> { zvt_builder::default_spec_ser::<Self, L, zvt_builder::encoding::Default, TE>(self, tag) }
        open spec fn deser_pre(tag: Option<zvt_builder::Tag>) -> bool { L::wf() }
        open spec fn functional() -> bool { false }
        open spec fn deser_progresses(tag: Option<zvt_builder::Tag>) -> bool { tag is Some && TE::progresses() }
        open spec fn deser_defined(b: Seq<u8>, tag: Option<zvt_builder::Tag>) -> bool { true }
        open spec fn deser_ok(b: Seq<u8>, tag: Option<zvt_builder::Tag>, v: Self, k: int) -> bool { true }
        //@ fn src:zvt_builder/src/lib.rs | trait ZvtSerializerImpl | serialize_tagged | subst=E:zvt_builder~encoding~Default props=C03
        //@ end
        //@ fn src:zvt_builder/src/lib.rs | trait ZvtSerializerImpl | deserialize_tagged | subst=E:zvt_builder~encoding~Default props=C02,C14
        //@ end
    }
    impl<L: zvt_builder::length::Length, TE: zvt_builder::encoding::Encoding<zvt_builder::Tag>> zvt_builder::ZvtSerializerImpl<L, zvt_builder::encoding::Default, TE> for crate::packets::StatusInformation {
        open spec fn ser_pre(&self, tag: Option<zvt_builder::Tag>) -> bool { zvt_builder::default_ser_pre::<Self, L, zvt_builder::encoding::Default, TE>(self, tag) }
        open spec fn spec_ser_tagged(&self, tag: Option<zvt_builder::Tag>) -> Seq<u8> { zvt_builder::default_spec_ser::<Self, L, zvt_builder::encoding::Default, TE>(self, tag) }
        open spec fn deser_pre(tag: Option<zvt_builder::Tag>) -> bool { L::wf() }
        open spec fn functional() -> bool { false }
        open spec fn deser_progresses(tag: Option<zvt_builder::Tag>) -> bool { tag is Some && TE::progresses() }
        open spec fn deser_defined(b: Seq<u8>, tag: Option<zvt_builder::Tag>) -> bool { true }
        open spec fn deser_ok(b: Seq<u8>, tag: Option<zvt_builder::Tag>, v: Self, k: int) -> bool { true }
        //@ fn src:zvt_builder/src/lib.rs | trait ZvtSerializerImpl | serialize_tagged | subst=E:zvt_builder~encoding~Default props=C03
        //@ end
        //@ fn src:zvt_builder/src/lib.rs | trait ZvtSerializerImpl | deserialize_tagged | subst=E:zvt_builder~encoding~Default props=C02,C14
        //@ end
    }
    impl<L: zvt_builder::length::Length, TE: zvt_builder::encoding::Encoding<zvt_builder::Tag>> zvt_builder::ZvtSerializerImpl<L, zvt_builder::encoding::Default, TE> for crate::packets::IntermediateStatusInformation {
        open spec fn ser_pre(&self, tag: Option<zvt_builder::Tag>) -> bool { zvt_builder::default_ser_pre::<Self, L, zvt_builder::encoding::Default, TE>(self, tag) }
        open spec fn spec_ser_tagged(&self, tag: Option<zvt_builder::Tag>) -> Seq<u8> { zvt_builder::default_spec_ser::<Self, L, zvt_builder::encoding::Default, TE>(self, tag) }
        open spec fn deser_pre(tag: Option<zvt_builder::Tag>) -> bool { L::wf() }
        open spec fn functional() -> bool { false }
        open spec fn deser_progresses(tag: Option<zvt_builder::Tag>) -> bool { tag is Some && TE::progresses() }
        open spec fn deser_defined(b: Seq<u8>, tag: Option<zvt_builder::Tag>) -> bool { true }
        open spec fn deser_ok(b: Seq<u8>, tag: Option<zvt_builder::Tag>, v: Self, k: int) -> bool { true }
        //@ fn src:zvt_builder/src/lib.rs | trait ZvtSerializerImpl | serialize_tagged | subst=E:zvt_builder~encoding~Default props=C03
        //@ end
        //@ fn src:zvt_builder/src/lib.rs | trait ZvtSerializerImpl | deserialize_tagged | subst=E:zvt_builder~encoding~Default props=C02,C14
        //@ end
    }
    impl<L: zvt_builder::length::Length, TE: zvt_builder::encoding::Encoding<zvt_builder::Tag>> zvt_builder::ZvtSerializerImpl<L, zvt_builder::encoding::Default, TE> for crate::packets::StatusEnquiry {
        open spec fn ser_pre(&self, tag: Option<zvt_builder::Tag>) -> bool { zvt_builder::default_ser_pre::<Self, L, zvt_builder::encoding::Default, TE>(self, tag) }
        open spec fn spec_ser_tagged(&self, tag: Option<zvt_builder::Tag>) -> Seq<u8> { zvt_builder::default_spec_ser::<Self, L, zvt_builder::encoding::Default, TE>(self, tag) }
        open spec fn deser_pre(tag: Option<zvt_builder::Tag>) -> bool { L::wf() }
        open spec fn functional() -> bool { false }
        open spec fn deser_progresses(tag: Option<zvt_builder::Tag>) -> bool { tag is Some && TE::progresses() }
        open spec fn deser_defined(b: Seq<u8>, tag: Option<zvt_builder::Tag>) -> bool { true }
        open spec fn deser_ok(b: Seq<u8>, tag: Option<zvt_builder::Tag>, v: Self, k: int) -> bool { true }
        //@ fn src:zvt_builder/src/lib.rs | trait ZvtSerializerImpl | serialize_tagged | subst=E:zvt_builder~encoding~Default props=C03
        //@ end
        //@ fn src:zvt_builder/src/lib.rs | trait ZvtSerializerImpl | deserialize_tagged | subst=E:zvt_builder~encoding~Default props=C02,C14
        //@ end
    }
    impl<L: zvt_builder::length::Length, TE: zvt_builder::encoding::Encoding<zvt_builder::Tag>> zvt_builder::ZvtSerializerImpl<L, zvt_builder::encoding::Default, TE> for crate::packets::Registration {
        open spec fn ser_pre(&self, tag: Option<zvt_builder::Tag>) -> bool { zvt_builder::default_ser_pre::<Self, L, zvt_builder::encoding::Default, TE>(self, tag) }
        open spec fn spec_ser_tagged(&self, tag: Option<zvt_builder::Tag>) -> Seq<u8> { zvt_builder::default_spec_ser::<Self, L, zvt_builder::encoding::Default, TE>(self, tag) }
        open spec fn deser_pre(tag: Option<zvt_builder::Tag>) -> bool { L::wf() }
        open spec fn functional() -> bool { false }
        open spec fn deser_progresses(tag: Option<zvt_builder::Tag>) -> bool { tag is Some && TE::progresses() }
        open spec fn deser_defined(b: Seq<u8>, tag: Option<zvt_builder::Tag>) -> bool { true }
        open spec fn deser_ok(b: Seq<u8>, tag: Option<zvt_builder::Tag>, v: Self, k: int) -> bool { true }
        //@ fn src:zvt_builder/src/lib.rs | trait ZvtSerializerImpl | serialize_tagged | subst=E:zvt_builder~encoding~Default props=C03
        //@ end
        //@ fn src:zvt_builder/src/lib.rs | trait ZvtSerializerImpl | deserialize_tagged | subst=E:zvt_builder~encoding~Default props=C02,C14
        //@ end
    }
    impl<L: zvt_builder::length::Length, TE: zvt_builder::encoding::Encoding<zvt_builder::Tag>> zvt_builder::ZvtSerializerImpl<L, zvt_builder::encoding::Default, TE> for crate::packets::CompletionData {
        open spec fn ser_pre(&self, tag: Option<zvt_builder::Tag>) -> bool { zvt_builder::default_ser_pre::<Self, L, zvt_builder::encoding::Default, TE>(self, tag) }
        open spec fn spec_ser_tagged(&self, tag: Option<zvt_builder::Tag>) -> Seq<u8> { zvt_builder::default_spec_ser::<Self, L, zvt_builder::encoding::Default, TE>(self, tag) }
        open spec fn deser_pre(tag: Option<zvt_builder::Tag>) -> bool { L::wf() }
        open spec fn functional() -> bool { false }
        open spec fn deser_progresses(tag: Option<zvt_builder::Tag>) -> bool { tag is Some && TE::progresses() }
        open spec fn deser_defined(b: Seq<u8>, tag: Option<zvt_builder::Tag>) -> bool { true }
        open spec fn deser_ok(b: Seq<u8>, tag: Option<zvt_builder::Tag>, v: Self, k: int) -> bool { true }
        //@ fn src:zvt_builder/src/lib.rs | trait ZvtSerializerImpl | serialize_tagged | subst=E:zvt_builder~encoding~Default props=C03
        //@ end
        //@ fn src:zvt_builder/src/lib.rs | trait ZvtSerializerImpl | deserialize_tagged | subst=E:zvt_builder~encoding~Default props=C02,C14
        //@ end
    }
    impl<L: zvt_builder::length::Length, TE: zvt_builder::encoding::Encoding<zvt_builder::Tag>> zvt_builder::ZvtSerializerImpl<L, zvt_builder::encoding::Default, TE> for crate::packets::ReceiptPrintoutCompletion {
        open spec fn ser_pre(&self, tag: Option<zvt_builder::Tag>) -> bool { zvt_builder::default_ser_pre::<Self, L, zvt_builder::encoding::Default, TE>(self, tag) }
        open spec fn spec_ser_tagged(&self, tag: Option<zvt_builder::Tag>) -> Seq<u8> { zvt_builder::default_spec_ser::<Self, L, zvt_builder::encoding::Default, TE>(self, tag) }
        open spec fn deser_pre(tag: Option<zvt_builder::Tag>) -> bool { L::wf() }
        open spec fn functional() -> bool { false }
        open spec fn deser_progresses(tag: Option<zvt_builder::Tag>) -> bool { tag is Some && TE::progresses() }
        open spec fn deser_defined(b: Seq<u8>, tag: Option<zvt_builder::Tag>) -> bool { true }
        open spec fn deser_ok(b: Seq<u8>, tag: Option<zvt_builder::Tag>, v: Self, k: int) -> bool { true }
        //@ fn src:zvt_builder/src/lib.rs | trait ZvtSerializerImpl | serialize_tagged | subst=E:zvt_builder~encoding~Default props=C03
        //@ end
        //@ fn src:zvt_builder/src/lib.rs | trait ZvtSerializerImpl | deserialize_tagged | subst=E:zvt_builder~encoding~Default props=C02,C14
        //@ end
    }
    impl<L: zvt_builder::length::Length, TE: zvt_builder::encoding::Encoding<zvt_builder::Tag>> zvt_builder::ZvtSerializerImpl<L, zvt_builder::encoding::Default, TE> for crate::packets::ResetTerminal {
        open spec fn ser_pre(&self, tag: Option<zvt_builder::Tag>) -> bool { zvt_builder::default_ser_pre::<Self, L, zvt_builder::encoding::Default, TE>(self, tag) }
        open spec fn spec_ser_tagged(&self, tag: Option<zvt_builder::Tag>) -> Seq<u8> { zvt_builder::default_spec_ser::<Self, L, zvt_builder::encoding::Default, TE>(self, tag) }
        open spec fn deser_pre(tag: Option<zvt_builder::Tag>) -> bool { L::wf() }
        open spec fn functional() -> bool { false }
        open spec fn deser_progresses(tag: Option<zvt_builder::Tag>) -> bool { tag is Some && TE::progresses() }
        open spec fn deser_defined(b: Seq<u8>, tag: Option<zvt_builder::Tag>) -> bool { true }
        open spec fn deser_ok(b: Seq<u8>, tag: Option<zvt_builder::Tag>, v: Self, k: int) -> bool { true }
        //@ fn src:zvt_builder/src/lib.rs | trait ZvtSerializerImpl | serialize_tagged | subst=E:zvt_builder~encoding~Default props=C03
        //@ end
        //@ fn src:zvt_builder/src/lib.rs | trait ZvtSerializerImpl | deserialize_tagged | subst=E:zvt_builder~encoding~Default props=C02,C14
        //@ end
    }
    impl<L: zvt_builder::length::Length, TE: zvt_builder::encoding::Encoding<zvt_builder::Tag>> zvt_builder::ZvtSerializerImpl<L, zvt_builder::encoding::Default, TE> for crate::packets::PrintSystemConfiguration {
        open spec fn ser_pre(&self, tag: Option<zvt_builder::Tag>) -> bool { zvt_builder::default_ser_pre::<Self, L, zvt_builder::encoding::Default, TE>(self, tag) }
        open spec fn spec_ser_tagged(&self, tag: Option<zvt_builder::Tag>) -> Seq<u8> { zvt_builder::default_spec_ser::<Self, L, zvt_builder::encoding::Default, TE>(self, tag) }
        open spec fn deser_pre(tag: Option<zvt_builder::Tag>) -> bool { L::wf() }
        open spec fn functional() -> bool { false }
        open spec fn deser_progresses(tag: Option<zvt_builder::Tag>) -> bool { tag is Some && TE::progresses() }
        open spec fn deser_defined(b: Seq<u8>, tag: Option<zvt_builder::Tag>) -> bool { true }
        open spec fn deser_ok(b: Seq<u8>, tag: Option<zvt_builder::Tag>, v: Self, k: int) -> bool { true }
        //@ fn src:zvt_builder/src/lib.rs | trait ZvtSerializerImpl | serialize_tagged | subst=E:zvt_builder~encoding~Default props=C03
        //@ end
        //@ fn src:zvt_builder/src/lib.rs | trait ZvtSerializerImpl | deserialize_tagged | subst=E:zvt_builder~encoding~Default props=C02,C14
        //@ end
    }
    impl<L: zvt_builder::length::Length, TE: zvt_builder::encoding::Encoding<zvt_builder::Tag>> zvt_builder::ZvtSerializerImpl<L, zvt_builder::encoding::Default, TE> for crate::packets::SetTerminalId {
        open spec fn ser_pre(&self, tag: Option<zvt_builder::Tag>) -> bool { zvt_builder::default_ser_pre::<Self, L, zvt_builder::encoding::Default, TE>(self, tag) }
        open spec fn spec_ser_tagged(&self, tag: Option<zvt_builder::Tag>) -> Seq<u8> { zvt_builder::default_spec_ser::<Self, L, zvt_builder::encoding::Default, TE>(self, tag) }
        open spec fn deser_pre(tag: Option<zvt_builder::Tag>) -> bool { L::wf() }
        open spec fn functional() -> bool { false }
        open spec fn deser_progresses(tag: Option<zvt_builder::Tag>) -> bool { tag is Some && TE::progresses() }
        open spec fn deser_defined(b: Seq<u8>, tag: Option<zvt_builder::Tag>) -> bool { true }
        open spec fn deser_ok(b: Seq<u8>, tag: Option<zvt_builder::Tag>, v: Self, k: int) -> bool { true }
        //@ fn src:zvt_builder/src/lib.rs | trait ZvtSerializerImpl | serialize_tagged | subst=E:zvt_builder~encoding~Default props=C03
        //@ end
        //@ fn src:zvt_builder/src/lib.rs | trait ZvtSerializerImpl | deserialize_tagged | subst=E:zvt_builder~encoding~Default props=C02,C14
        //@ end
    }
    impl<L: zvt_builder::length::Length, TE: zvt_builder::encoding::Encoding<zvt_builder::Tag>> zvt_builder::ZvtSerializerImpl<L, zvt_builder::encoding::Default, TE> for crate::packets::Abort {
        open spec fn ser_pre(&self, tag: Option<zvt_builder::Tag>) -> bool { zvt_builder::default_ser_pre::<Self, L, zvt_builder::encoding::Default, TE>(self, tag) }
        open spec fn spec_ser_tagged(&self, tag: Option<zvt_builder::Tag>) -> Seq<u8> { zvt_builder::default_spec_ser::<Self, L, zvt_builder::encoding::Default, TE>(self, tag) }
        open spec fn deser_pre(tag: Option<zvt_builder::Tag>) -> bool { L::wf() }
        open spec fn functional() -> bool { false }
        open spec fn deser_progresses(tag: Option<zvt_builder::Tag>) -> bool { tag is Some && TE::progresses() }
        open spec fn deser_defined(b: Seq<u8>, tag: Option<zvt_builder::Tag>) -> bool { true }
        open spec fn deser_ok(b: Seq<u8>, tag: Option<zvt_builder::Tag>, v: Self, k: int) -> bool { true }
        //@ fn src:zvt_builder/src/lib.rs | trait ZvtSerializerImpl | serialize_tagged | subst=E:zvt_builder~encoding~Default props=C03
        //@ end
        //@ fn src:zvt_builder/src/lib.rs | trait ZvtSerializerImpl | deserialize_tagged | subst=E:zvt_builder~encoding~Default props=C02,C14
        //@ end
    }
    impl<L: zvt_builder::length::Length, TE: zvt_builder::encoding::Encoding<zvt_builder::Tag>> zvt_builder::ZvtSerializerImpl<L, zvt_builder::encoding::Default, TE> for crate::packets::ReservationAbort {
        open spec fn ser_pre(&self, tag: Option<zvt_builder::Tag>) -> bool { zvt_builder::default_ser_pre::<Self, L, zvt_builder::encoding::Default, TE>(self, tag) }
        open spec fn spec_ser_tagged(&self, tag: Option<zvt_builder::Tag>) -> Seq<u8> { zvt_builder::default_spec_ser::<Self, L, zvt_builder::encoding::Default, TE>(self, tag) }
        open spec fn deser_pre(tag: Option<zvt_builder::Tag>) -> bool { L::wf() }
        open spec fn functional() -> bool { false }
        open spec fn deser_progresses(tag: Option<zvt_builder::Tag>) -> bool { tag is Some && TE::progresses() }
        open spec fn deser_defined(b: Seq<u8>, tag: Option<zvt_builder::Tag>) -> bool { true }
        open spec fn deser_ok(b: Seq<u8>, tag: Option<zvt_builder::Tag>, v: Self, k: int) -> bool { true }
        //@ fn src:zvt_builder/src/lib.rs | trait ZvtSerializerImpl | serialize_tagged | subst=E:zvt_builder~encoding~Default props=C03
        //@ end
        //@ fn src:zvt_builder/src/lib.rs | trait ZvtSerializerImpl | deserialize_tagged | subst=E:zvt_builder~encoding~Default props=C02,C14
        //@ end
    }
    impl<L: zvt_builder::length::Length, TE: zvt_builder::encoding::Encoding<zvt_builder::Tag>> zvt_builder::ZvtSerializerImpl<L, zvt_builder::encoding::Default, TE> for crate::packets::PartialReversalAbort {
        open spec fn ser_pre(&self, tag: Option<zvt_builder::Tag>) -> bool { zvt_builder::default_ser_pre::<Self, L, zvt_builder::encoding::Default, TE>(self, tag) }
        open spec fn spec_ser_tagged(&self, tag: Option<zvt_builder::Tag>) -> Seq<u8> { zvt_builder::default_spec_ser::<Self, L, zvt_builder::encoding::Default, TE>(self, tag) }
        open spec fn deser_pre(tag: Option<zvt_builder::Tag>) -> bool { L::wf() }
        open spec fn functional() -> bool { false }
        open spec fn deser_progresses(tag: Option<zvt_builder::Tag>) -> bool { tag is Some && TE::progresses() }
        open spec fn deser_defined(b: Seq<u8>, tag: Option<zvt_builder::Tag>) -> bool { true }
        open spec fn deser_ok(b: Seq<u8>, tag: Option<zvt_builder::Tag>, v: Self, k: int) -> bool { true }
        //@ fn src:zvt_builder/src/lib.rs | trait ZvtSerializerImpl | serialize_tagged | subst=E:zvt_builder~encoding~Default props=C03
        //@ end
        //@ fn src:zvt_builder/src/lib.rs | trait ZvtSerializerImpl | deserialize_tagged | subst=E:zvt_builder~encoding~Default props=C02,C14
        //@ end
    }
    impl<L: zvt_builder::length::Length, TE: zvt_builder::encoding::Encoding<zvt_builder::Tag>> zvt_builder::ZvtSerializerImpl<L, zvt_builder::encoding::Default, TE> for crate::packets::Authorization {
        open spec fn ser_pre(&self, tag: Option<zvt_builder::Tag>) -> bool { zvt_builder::default_ser_pre::<Self, L, zvt_builder::encoding::Default, TE>(self, tag) }
        open spec fn spec_ser_tagged(&self, tag: Option<zvt_builder::Tag>) -> Seq<u8> { zvt_builder::default_spec_ser::<Self, L, zvt_builder::encoding::Default, TE>(self, tag) }
        open spec fn deser_pre(tag: Option<zvt_builder::Tag>) -> bool { L::wf() }
        open spec fn functional() -> bool { false }
        open spec fn deser_progresses(tag: Option<zvt_builder::Tag>) -> bool { tag is Some && TE::progresses() }
        open spec fn deser_defined(b: Seq<u8>, tag: Option<zvt_builder::Tag>) -> bool { true }
        open spec fn deser_ok(b: Seq<u8>, tag: Option<zvt_builder::Tag>, v: Self, k: int) -> bool { true }
        //@ fn src:zvt_builder/src/lib.rs | trait ZvtSerializerImpl | serialize_tagged | subst=E:zvt_builder~encoding~Default props=C03
        //@ end
        //@ fn src:zvt_builder/src/lib.rs | trait ZvtSerializerImpl | deserialize_tagged | subst=E:zvt_builder~encoding~Default props=C02,C14
        //@ end
    }
    impl<L: zvt_builder::length::Length, TE: zvt_builder::encoding::Encoding<zvt_builder::Tag>> zvt_builder::ZvtSerializerImpl<L, zvt_builder::encoding::Default, TE> for crate::packets::Reservation {
        open spec fn ser_pre(&self, tag: Option<zvt_builder::Tag>) -> bool { zvt_builder::default_ser_pre::<Self, L, zvt_builder::encoding::Default, TE>(self, tag) }
        open spec fn spec_ser_tagged(&self, tag: Option<zvt_builder::Tag>) -> Seq<u8> { zvt_builder::default_spec_ser::<Self, L, zvt_builder::encoding::Default, TE>(self, tag) }
        open spec fn deser_pre(tag: Option<zvt_builder::Tag>) -> bool { L::wf() }
        open spec fn functional() -> bool { false }
        open spec fn deser_progresses(tag: Option<zvt_builder::Tag>) -> bool { tag is Some && TE::progresses() }
        open spec fn deser_defined(b: Seq<u8>, tag: Option<zvt_builder::Tag>) -> bool { true }
        open spec fn deser_ok(b: Seq<u8>, tag: Option<zvt_builder::Tag>, v: Self, k: int) -> bool { true }
        //@ fn src:zvt_builder/src/lib.rs | trait ZvtSerializerImpl | serialize_tagged | subst=E:zvt_builder~encoding~Default props=C03
        //@ end
        //@ fn src:zvt_builder/src/lib.rs | trait ZvtSerializerImpl | deserialize_tagged | subst=E:zvt_builder~encoding~Default props=C02,C14
        //@ end
    }
    impl<L: zvt_builder::length::Length, TE: zvt_builder::encoding::Encoding<zvt_builder::Tag>> zvt_builder::ZvtSerializerImpl<L, zvt_builder::encoding::Default, TE> for crate::packets::PartialReversal {
        open spec fn ser_pre(&self, tag: Option<zvt_builder::Tag>) -> bool { zvt_builder::default_ser_pre::<Self, L, zvt_builder::encoding::Default, TE>(self, tag) }
        open spec fn spec_ser_tagged(&self, tag: Option<zvt_builder::Tag>) -> Seq<u8> { zvt_builder::default_spec_ser::<Self, L, zvt_builder::encoding::Default, TE>(self, tag) }
        open spec fn deser_pre(tag: Option<zvt_builder::Tag>) -> bool { L::wf() }
        open spec fn functional() -> bool { false }
        open spec fn deser_progresses(tag: Option<zvt_builder::Tag>) -> bool { tag is Some && TE::progresses() }
        open spec fn deser_defined(b: Seq<u8>, tag: Option<zvt_builder::Tag>) -> bool { true }
        open spec fn deser_ok(b: Seq<u8>, tag: Option<zvt_builder::Tag>, v: Self, k: int) -> bool { true }
        //@ fn src:zvt_builder/src/lib.rs | trait ZvtSerializerImpl | serialize_tagged | subst=E:zvt_builder~encoding~Default props=C03
        //@ end
        //@ fn src:zvt_builder/src/lib.rs | trait ZvtSerializerImpl | deserialize_tagged | subst=E:zvt_builder~encoding~Default props=C02,C14
        //@ end
    }
    impl<L: zvt_builder::length::Length, TE: zvt_builder::encoding::Encoding<zvt_builder::Tag>> zvt_builder::ZvtSerializerImpl<L, zvt_builder::encoding::Default, TE> for crate::packets::PreAuthReversal {
        open spec fn ser_pre(&self, tag: Option<zvt_builder::Tag>) -> bool { zvt_builder::default_ser_pre::<Self, L, zvt_builder::encoding::Default, TE>(self, tag) }
        open spec fn spec_ser_tagged(&self, tag: Option<zvt_builder::Tag>) -> Seq<u8> { zvt_builder::default_spec_ser::<Self, L, zvt_builder::encoding::Default, TE>(self, tag) }
        open spec fn deser_pre(tag: Option<zvt_builder::Tag>) -> bool { L::wf() }
        open spec fn functional() -> bool { false }
        open spec fn deser_progresses(tag: Option<zvt_builder::Tag>) -> bool { tag is Some && TE::progresses() }
        open spec fn deser_defined(b: Seq<u8>, tag: Option<zvt_builder::Tag>) -> bool { true }
        open spec fn deser_ok(b: Seq<u8>, tag: Option<zvt_builder::Tag>, v: Self, k: int) -> bool { true }
        //@ fn src:zvt_builder/src/lib.rs | trait ZvtSerializerImpl | serialize_tagged | subst=E:zvt_builder~encoding~Default props=C03
        //@ end
        //@ fn src:zvt_builder/src/lib.rs | trait ZvtSerializerImpl | deserialize_tagged | subst=E:zvt_builder~encoding~Default props=C02,C14
        //@ end
    }
    impl<L: zvt_builder::length::Length, TE: zvt_builder::encoding::Encoding<zvt_builder::Tag>> zvt_builder::ZvtSerializerImpl<L, zvt_builder::encoding::Default, TE> for crate::packets::EndOfDay {
        open spec fn ser_pre(&self, tag: Option<zvt_builder::Tag>) -> bool { zvt_builder::default_ser_pre::<Self, L, zvt_builder::encoding::Default, TE>(self, tag) }
        open spec fn spec_ser_tagged(&self, tag: Option<zvt_builder::Tag>) -> Seq<u8> { zvt_builder::default_spec_ser::<Self, L, zvt_builder::encoding::Default, TE>(self, tag) }
        open spec fn deser_pre(tag: Option<zvt_builder::Tag>) -> bool { L::wf() }
        open spec fn functional() -> bool { false }
        open spec fn deser_progresses(tag: Option<zvt_builder::Tag>) -> bool { tag is Some && TE::progresses() }
        open spec fn deser_defined(b: Seq<u8>, tag: Option<zvt_builder::Tag>) -> bool { true }
        open spec fn deser_ok(b: Seq<u8>, tag: Option<zvt_builder::Tag>, v: Self, k: int) -> bool { true }
        //@ fn src:zvt_builder/src/lib.rs | trait ZvtSerializerImpl | serialize_tagged | subst=E:zvt_builder~encoding~Default props=C03
        //@ end
        //@ fn src:zvt_builder/src/lib.rs | trait ZvtSerializerImpl | deserialize_tagged | subst=E:zvt_builder~encoding~Default props=C02,C14
        //@ end
    }
    impl<L: zvt_builder::length::Length, TE: zvt_builder::encoding::Encoding<zvt_builder::Tag>> zvt_builder::ZvtSerializerImpl<L, zvt_builder::encoding::Default, TE> for crate::packets::Diagnosis {
        open spec fn ser_pre(&self, tag: Option<zvt_builder::Tag>) -> bool { zvt_builder::default_ser_pre::<Self, L, zvt_builder::encoding::Default, TE>(self, tag) }
        open spec fn spec_ser_tagged(&self, tag: Option<zvt_builder::Tag>) -> Seq<u8> { zvt_builder::default_spec_ser::<Self, L, zvt_builder::encoding::Default, TE>(self, tag) }
        open spec fn deser_pre(tag: Option<zvt_builder::Tag>) -> bool { L::wf() }
        open spec fn functional() -> bool { false }
        open spec fn deser_progresses(tag: Option<zvt_builder::Tag>) -> bool { tag is Some && TE::progresses() }
        open spec fn deser_defined(b: Seq<u8>, tag: Option<zvt_builder::Tag>) -> bool { true }
        open spec fn deser_ok(b: Seq<u8>, tag: Option<zvt_builder::Tag>, v: Self, k: int) -> bool { true }
        //@ fn src:zvt_builder/src/lib.rs | trait ZvtSerializerImpl | serialize_tagged | subst=E:zvt_builder~encoding~Default props=C03
        //@ end
        //@ fn src:zvt_builder/src/lib.rs | trait ZvtSerializerImpl | deserialize_tagged | subst=E:zvt_builder~encoding~Default props=C02,C14
        //@ end
    }
    impl<L: zvt_builder::length::Length, TE: zvt_builder::encoding::Encoding<zvt_builder::Tag>> zvt_builder::ZvtSerializerImpl<L, zvt_builder::encoding::Default, TE> for crate::packets::Initialization {
        open spec fn ser_pre(&self, tag: Option<zvt_builder::Tag>) -> bool { zvt_builder::default_ser_pre::<Self, L, zvt_builder::encoding::Default, TE>(self, tag) }
        open spec fn spec_ser_tagged(&self, tag: Option<zvt_builder::Tag>) -> Seq<u8> { zvt_builder::default_spec_ser::<Self, L, zvt_builder::encoding::Default, TE>(self, tag) }
        open spec fn deser_pre(tag: Option<zvt_builder::Tag>) -> bool { L::wf() }
        open spec fn functional() -> bool { false }
        open spec fn deser_progresses(tag: Option<zvt_builder::Tag>) -> bool { tag is Some && TE::progresses() }
        open spec fn deser_defined(b: Seq<u8>, tag: Option<zvt_builder::Tag>) -> bool { true }
        open spec fn deser_ok(b: Seq<u8>, tag: Option<zvt_builder::Tag>, v: Self, k: int) -> bool { true }
        //@ fn src:zvt_builder/src/lib.rs | trait ZvtSerializerImpl | serialize_tagged | subst=E:zvt_builder~encoding~Default props=C03
        //@ end
        //@ fn src:zvt_builder/src/lib.rs | trait ZvtSerializerImpl | deserialize_tagged | subst=E:zvt_builder~encoding~Default props=C02,C14
        //@ end
    }
    impl<L: zvt_builder::length::Length, TE: zvt_builder::encoding::Encoding<zvt_builder::Tag>> zvt_builder::ZvtSerializerImpl<L, zvt_builder::encoding::Default, TE> for crate::packets::ReadCard {
        open spec fn ser_pre(&self, tag: Option<zvt_builder::Tag>) -> bool { zvt_builder::default_ser_pre::<Self, L, zvt_builder::encoding::Default, TE>(self, tag) }
        open spec fn spec_ser_tagged(&self, tag: Option<zvt_builder::Tag>) -> Seq<u8> { zvt_builder::default_spec_ser::<Self, L, zvt_builder::encoding::Default, TE>(self, tag) }
        open spec fn deser_pre(tag: Option<zvt_builder::Tag>) -> bool { L::wf() }
        open spec fn functional() -> bool { false }
        open spec fn deser_progresses(tag: Option<zvt_builder::Tag>) -> bool { tag is Some && TE::progresses() }
        open spec fn deser_defined(b: Seq<u8>, tag: Option<zvt_builder::Tag>) -> bool { true }
        open spec fn deser_ok(b: Seq<u8>, tag: Option<zvt_builder::Tag>, v: Self, k: int) -> bool { true }
        //@ fn src:zvt_builder/src/lib.rs | trait ZvtSerializerImpl | serialize_tagged | subst=E:zvt_builder~encoding~Default props=C03
        //@ end
        //@ fn src:zvt_builder/src/lib.rs | trait ZvtSerializerImpl | deserialize_tagged | subst=E:zvt_builder~encoding~Default props=C02,C14
        //@ end
    }
    impl<L: zvt_builder::length::Length, TE: zvt_builder::encoding::Encoding<zvt_builder::Tag>> zvt_builder::ZvtSerializerImpl<L, zvt_builder::encoding::Default, TE> for crate::packets::PrintLine {
        open spec fn ser_pre(&self, tag: Option<zvt_builder::Tag>) -> bool { zvt_builder::default_ser_pre::<Self, L, zvt_builder::encoding::Default, TE>(self, tag) }
        open spec fn spec_ser_tagged(&self, tag: Option<zvt_builder::Tag>) -> Seq<u8> { zvt_builder::default_spec_ser::<Self, L, zvt_builder::encoding::Default, TE>(self, tag) }
        open spec fn deser_pre(tag: Option<zvt_builder::Tag>) -> bool { L::wf() }
        open spec fn functional() -> bool { false }
        open spec fn deser_progresses(tag: Option<zvt_builder::Tag>) -> bool { tag is Some && TE::progresses() }
        open spec fn deser_defined(b: Seq<u8>, tag: Option<zvt_builder::Tag>) -> bool { true }
        open spec fn deser_ok(b: Seq<u8>, tag: Option<zvt_builder::Tag>, v: Self, k: int) -> bool { true }
        //@ fn src:zvt_builder/src/lib.rs | trait ZvtSerializerImpl | serialize_tagged | subst=E:zvt_builder~encoding~Default props=C03
        //@ end
        //@ fn src:zvt_builder/src/lib.rs | trait ZvtSerializerImpl | deserialize_tagged | subst=E:zvt_builder~encoding~Default props=C02,C14
        //@ end
    }
    impl<L: zvt_builder::length::Length, TE: zvt_builder::encoding::Encoding<zvt_builder::Tag>> zvt_builder::ZvtSerializerImpl<L, zvt_builder::encoding::Default, TE> for crate::packets::PrintTextBlock {
        open spec fn ser_pre(&self, tag: Option<zvt_builder::Tag>) -> bool { zvt_builder::default_ser_pre::<Self, L, zvt_builder::encoding::Default, TE>(self, tag) }
        open spec fn spec_ser_tagged(&self, tag: Option<zvt_builder::Tag>) -> Seq<u8> { zvt_builder::default_spec_ser::<Self, L, zvt_builder::encoding::Default, TE>(self, tag) }
        open spec fn deser_pre(tag: Option<zvt_builder::Tag>) -> bool { L::wf() }
        open spec fn functional() -> bool { false }
        open spec fn deser_progresses(tag: Option<zvt_builder::Tag>) -> bool { tag is Some && TE::progresses() }
        open spec fn deser_defined(b: Seq<u8>, tag: Option<zvt_builder::Tag>) -> bool { true }
        open spec fn deser_ok(b: Seq<u8>, tag: Option<zvt_builder::Tag>, v: Self, k: int) -> bool { true }
        //@ fn src:zvt_builder/src/lib.rs | trait ZvtSerializerImpl | serialize_tagged | subst=E:zvt_builder~encoding~Default props=C03
        //@ end
        //@ fn src:zvt_builder/src/lib.rs | trait ZvtSerializerImpl | deserialize_tagged | subst=E:zvt_builder~encoding~Default props=C02,C14
        //@ end
    }
    impl<L: zvt_builder::length::Length, TE: zvt_builder::encoding::Encoding<zvt_builder::Tag>> zvt_builder::ZvtSerializerImpl<L, zvt_builder::encoding::Default, TE> for crate::packets::SelectLanguage {
        open spec fn ser_pre(&self, tag: Option<zvt_builder::Tag>) -> bool { zvt_builder::default_ser_pre::<Self, L, zvt_builder::encoding::Default, TE>(self, tag) }
        open spec fn spec_ser_tagged(&self, tag: Option<zvt_builder::Tag>) -> Seq<u8> { zvt_builder::default_spec_ser::<Self, L, zvt_builder::encoding::Default, TE>(self, tag) }
        open spec fn deser_pre(tag: Option<zvt_builder::Tag>) -> bool { L::wf() }
        open spec fn functional() -> bool { false }
        open spec fn deser_progresses(tag: Option<zvt_builder::Tag>) -> bool { tag is Some && TE::progresses() }
        open spec fn deser_defined(b: Seq<u8>, tag: Option<zvt_builder::Tag>) -> bool { true }
        open spec fn deser_ok(b: Seq<u8>, tag: Option<zvt_builder::Tag>, v: Self, k: int) -> bool { true }
        //@ fn src:zvt_builder/src/lib.rs | trait ZvtSerializerImpl | serialize_tagged | subst=E:zvt_builder~encoding~Default props=C03
        //@ end
        //@ fn src:zvt_builder/src/lib.rs | trait ZvtSerializerImpl | deserialize_tagged | subst=E:zvt_builder~encoding~Default props=C02,C14
        //@ end
    }
    impl<L: zvt_builder::length::Length, TE: zvt_builder::encoding::Encoding<zvt_builder::Tag>> zvt_builder::ZvtSerializerImpl<L, zvt_builder::encoding::Default, TE> for crate::packets::Ack {
        open spec fn ser_pre(&self, tag: Option<zvt_builder::Tag>) -> bool { zvt_builder::default_ser_pre::<Self, L, zvt_builder::encoding::Default, TE>(self, tag) }
        open spec fn spec_ser_tagged(&self, tag: Option<zvt_builder::Tag>) -> Seq<u8> { zvt_builder::default_spec_ser::<Self, L, zvt_builder::encoding::Default, TE>(self, tag) }
        open spec fn deser_pre(tag: Option<zvt_builder::Tag>) -> bool { L::wf() }
        open spec fn functional() -> bool { false }
        open spec fn deser_progresses(tag: Option<zvt_builder::Tag>) -> bool { tag is Some && TE::progresses() }
        open spec fn deser_defined(b: Seq<u8>, tag: Option<zvt_builder::Tag>) -> bool { true }
        open spec fn deser_ok(b: Seq<u8>, tag: Option<zvt_builder::Tag>, v: Self, k: int) -> bool { true }
        //@ fn src:zvt_builder/src/lib.rs | trait ZvtSerializerImpl | serialize_tagged | subst=E:zvt_builder~encoding~Default props=C03
        //@ end
        //@ fn src:zvt_builder/src/lib.rs | trait ZvtSerializerImpl | deserialize_tagged | subst=E:zvt_builder~encoding~Default props=C02,C14
        //@ end
    }
