// ------------------------------------------------------------------ connect(): registration + identity check
/// C09's statement pins the registration to the configured password and currency and asks for an identity check; the
/// config byte, the absence of a TLV part, the system-info sub-command and the port are protocol details it does not mention
/// and are deliberately not part of the contract
pub open spec fn registration_req(q: packets::Registration, cfg: Config) -> bool {
    q.password == cfg.feig_config.password && q.currency == Some(cfg.feig_config.currency)
}
pub open spec fn all_ok<T>(items: Seq<Result<T>>) -> bool { forall|i: int| 0 <= i < items.len() ==> (#[trigger] items[i]) is Ok }
/// a connection is vetted for a configuration when it was opened to the configured address, registered with the
/// configured password and currency without any error, and the terminal then reported the configured serial number
pub open spec fn vetted(c: io::PacketTransport<InnerTcpStream>, cfg: Config) -> bool {
    &&& c.source.log().len() >= 2
    &&& c.source.peer().ip == cfg.ip_address
    &&& c.source.log()[0] matches Hs::Registration(q, its) && registration_req(q, cfg) && all_ok(its)
    &&& c.source.log()[1] matches Hs::GetSystemInfo(q2, its2) && its2.len() >= 1
        && (its2[0] matches Ok(feig::sequences::GetSystemInfoResponse::CVendFunctionsEnhancedSystemInformationCompletion(p))
            && lower_spec(p.device_id@) == lower_spec(cfg.feig_serial@))
}
/// `zvt::sequences::Sequence` as stream.rs uses it: starting a sequence on a raw connection logs one more exchange
/// on that connection; the reply items are arbitrary (U5 verifies the real sequences)
pub trait Sequence {
    type Input;
    type Output;
    spec fn hs(input: Self::Input, items: Seq<Result<Self::Output>>) -> Hs;
    fn into_stream(input: &Self::Input, src: &mut io::PacketTransport<InnerTcpStream>) -> (s: VSeqStream<Self::Output>)
        ensures
            final(src).source.peer() == old(src).source.peer(),
            final(src).source.log() == old(src).source.log().push(Self::hs(*input, s.rest())),
            !s.saw_err() && !s.timed_out(),
            s.conn() == *final(src);
}
impl Sequence for sequences::Registration {
    type Input = packets::Registration;
    type Output = sequences::RegistrationResponse;
    open spec fn hs(input: Self::Input, items: Seq<Result<Self::Output>>) -> Hs { Hs::Registration(input, items) }
    #[verifier::external_body]
    fn into_stream(input: &Self::Input, src: &mut io::PacketTransport<InnerTcpStream>) -> (s: VSeqStream<Self::Output>) { unimplemented!() }
}
impl Sequence for feig::sequences::GetSystemInfo {
    type Input = feig::packets::CVendFunctions;
    type Output = feig::sequences::GetSystemInfoResponse;
    open spec fn hs(input: Self::Input, items: Seq<Result<Self::Output>>) -> Hs { Hs::GetSystemInfo(input, items) }
    #[verifier::external_body]
    fn into_stream(input: &Self::Input, src: &mut io::PacketTransport<InnerTcpStream>) -> (s: VSeqStream<Self::Output>) { unimplemented!() }
}

pub mod inner {
    use vstd::prelude::*;
    use super::*;
    //@ fn src:zvt_feig_terminal/src/stream.rs | free | connect | mod=outer::inner all-loops props=C09
        ensures
    //@ tag connect.vetted C09
            // Ok only after registration (configured password, currency, config byte DE) completed without error AND the
            // serial number reported by the terminal matches the configured one; anything else is an error
            r matches Ok(sock) ==> vetted(sock, *config),
    //@ loop 0
            invariant
                socket.source.log().len() == 1,
                socket.source.peer().ip == config.ip_address,
                socket.source.log()[0] matches Hs::Registration(q, its) && registration_req(q, *config)
                    && (forall|i: int| 0 <= i < its.len() - stream.rest().len() ==> (#[trigger] its[i]) is Ok)
                    && stream.rest().len() <= its.len() && stream.rest() =~= its.skip(its.len() - stream.rest().len()),
            ensures stream.rest().len() == 0,
    //@ attr
    #[verifier::exec_allows_no_decreases_clause]
    //@ end
}

// ------------------------------------------------------------------ the reconnecting wrapper
//@ item src:zvt_feig_terminal/src/stream.rs | struct TcpStream

/// one finished exchange: the connection it ran on and whether it ended in an error item or a timeout
pub struct Attempt { pub conn: io::PacketTransport<InnerTcpStream>, pub failed: bool }
/// consumer side of the `stream!` body (N8); `drop(stream)` additionally records how the exchange ended
#[verifier::external_body]
#[verifier::accept_recursive_types(I)]
pub struct VSink<I> { _p: core::marker::PhantomData<I> }
impl<I> VSink<I> {
    pub uninterp spec fn items(&self) -> Seq<I>;
    pub uninterp spec fn attempts(&self) -> Seq<Attempt>;
    #[verifier::external_body]
    pub fn emit(&mut self, item: I)
        ensures final(self).items() == old(self).items().push(item), final(self).attempts() == old(self).attempts(),
    { unimplemented!() }
    #[verifier::external_body]
    pub fn note_drop<T>(&mut self, s: VSeqStream<T>)
        ensures
            final(self).items() == old(self).items(),
            final(self).attempts() == old(self).attempts().push(Attempt { conn: s.conn(), failed: s.saw_err() || s.timed_out() }),
    { unimplemented!() }
}
/// the retry budget stream (`futures::Stream<Item = ()>`)
#[verifier::external_body]
pub struct VRetryStream { _p: u8 }
impl VRetryStream {
    pub uninterp spec fn left(&self) -> nat;
    #[verifier::external_body]
    pub fn next(&mut self) -> (r: Option<()>)
        ensures
            old(self).left() == 0 ==> r is None && final(self).left() == 0,
            old(self).left() > 0 ==> r is Some && final(self).left() == old(self).left() - 1,
    { unimplemented!() }
}
/// the command sequence ran on a vetted connection: vetting survives later exchanges on the same connection
pub open spec fn still_vetted(after: io::PacketTransport<InnerTcpStream>, before: io::PacketTransport<InnerTcpStream>) -> bool {
    after.source.peer() == before.source.peer() && after.source.log().len() == before.source.log().len() + 1
        && after.source.log().take(before.source.log().len() as int) =~= before.source.log()
}

pub fn into_stream_with_retry<Q: Sequence>(input: Q::Input, src: &mut TcpStream, retry0: VRetryStream, timeout: VDuration, __sink: &mut VSink<Result<Q::Output>>)
    requires
        old(src).inner matches Some(c) ==> vetted(c, old(src).config),
    ensures
        final(src).config == old(src).config,
//@ tag retry.budget_bounds_attempts C10
        // one call starts at most as many exchanges as the retry stream has items: no path re-enters the loop without
        // drawing from the budget (each exchange itself ends at its last item or at the first per-packet timeout; the
        // function terminates: both loops carry a decreasing measure)
        final(__sink).attempts().len() - old(__sink).attempts().len() <= retry0.left(),
//@ untag
//@ tag retry.only_vetted_connections C09
        // whatever is kept for the next call is a vetted connection, and every exchange ran on one
        final(src).inner matches Some(c) ==> vetted(c, old(src).config),
        forall|i: int| old(__sink).attempts().len() <= i < final(__sink).attempts().len() ==> vetted((#[trigger] final(__sink).attempts()[i]).conn, old(src).config),
//@ tag retry.failed_connection_dropped C09
        // an exchange that ended in an error item or a timeout: the connection is abandoned (nothing is kept)
        (final(__sink).attempts().len() > old(__sink).attempts().len() && final(__sink).attempts().last().failed) ==> final(src).inner is None,
        // another attempt is made only after a failure
        forall|i: int| old(__sink).attempts().len() <= i < final(__sink).attempts().len() - 1 ==> (#[trigger] final(__sink).attempts()[i]).failed,
//@ tag retry.good_connection_kept C09
        // an exchange that completed normally keeps exactly the connection it ran on
        (final(__sink).attempts().len() > old(__sink).attempts().len() && !final(__sink).attempts().last().failed) ==> final(src).inner == Some(final(__sink).attempts().last().conn),
        // a usable connection is reused without reconnecting: the first exchange runs on the connection that was there
        (old(src).inner is Some && final(__sink).attempts().len() > old(__sink).attempts().len())
            ==> still_vetted(final(__sink).attempts()[old(__sink).attempts().len() as int].conn, old(src).inner.unwrap()),
//@ untag
//@ fn src:zvt_feig_terminal/src/stream.rs | trait ResetSequence | into_stream_with_retry | bodyonly macro=stream yieldctx=none dropnote=stream selfty=Q all-loops props=C09
//@ entry
    let mut retry = retry0;
//@ loop 0
        invariant
            src.config == old(src).config,
            __sink.attempts().len() >= old(__sink).attempts().len(),
//@ tag retry.budget.inv C10
            (__sink.attempts().len() - old(__sink).attempts().len()) + retry.left() <= retry0.left(),
//@ tag retry.inv ~C09
            src.inner matches Some(c) ==> vetted(c, old(src).config),
            forall|i: int| old(__sink).attempts().len() <= i < __sink.attempts().len() ==> vetted((#[trigger] __sink.attempts()[i]).conn, old(src).config) && __sink.attempts()[i].failed,
            __sink.attempts().len() > old(__sink).attempts().len() ==> src.inner is None,
            __sink.attempts().len() == old(__sink).attempts().len() ==> src.inner == old(src).inner,
            (old(src).inner is Some && __sink.attempts().len() > old(__sink).attempts().len())
                ==> still_vetted(__sink.attempts()[old(__sink).attempts().len() as int].conn, old(src).inner.unwrap()),
        ensures retry.left() == 0,
//@ tag retry.terminates C10
        decreases retry.left(),
//@ loop 1
        invariant_except_break
            !is_err,
        invariant
            src.config == old(src).config,
            __sink.attempts().len() >= old(__sink).attempts().len(),
            forall|i: int| old(__sink).attempts().len() <= i < __sink.attempts().len() ==> vetted((#[trigger] __sink.attempts()[i]).conn, old(src).config) && __sink.attempts()[i].failed,
            (old(src).inner is Some && __sink.attempts().len() > old(__sink).attempts().len())
                ==> still_vetted(__sink.attempts()[old(__sink).attempts().len() as int].conn, old(src).inner.unwrap()),
            src.inner == Some(stream.conn()),
            vetted(stream.conn(), old(src).config),
            (__sink.attempts().len() == old(__sink).attempts().len() && old(src).inner is Some) ==> still_vetted(stream.conn(), old(src).inner.unwrap()),
            is_err <==> (stream.saw_err() || stream.timed_out()),
//@ tag retry.budget.inv C10
            // the token for this exchange is spent, its attempt not yet recorded
            (__sink.attempts().len() - old(__sink).attempts().len()) + retry.left() + 1 <= retry0.left(),
//@ tag retry.exchange_terminates C10
        decreases stream.rest().len(),
//@ end
