// U5 — zvt/src/sequences.rs + zvt/src/feig/sequences.rs: command sequences (DESIGN.md §6 C05, C06)
#![allow(unused_imports, unused_variables, dead_code, unused_mut, non_snake_case, unused_parens, unused_braces)]
use vstd::prelude::*;
verus! {

global size_of usize == 8;

pub mod n6 {
    use vstd::prelude::*;
    //@ include ../prelude/n6.rs
    //@ include ../prelude/wire.rs
}
use n6::*;

pub struct NaiveDateTime { pub opaque: u64 }
//@ include pt_prelude.tpl PACKETS=packets_all.tpl
//@ include ../prelude/sink.rs
/// `Err(e.into())` / `?` into anyhow::Error (N10)
pub trait IntoVErr { spec fn as_verr(self) -> VErr; fn into_verr(self) -> (r: VErr) ensures r == self.as_verr(); }
impl IntoVErr for ZVTError { open spec fn as_verr(self) -> VErr { VErr::Zvt(self) } fn into_verr(self) -> (r: VErr) { VErr::Zvt(self) } }

impl<S> PacketTransport<S>
where
    S: VSource,
{
    /// (bytes consumed, write attempts) — recorded at every yield
    pub open spec fn stamp(&self) -> (nat, nat) { (self.source.consumed(), self.source.writes().len()) }
    // contracts proved in U4, used here as the callee contracts (same text, no bodies)
    //@ include pt_methods.tpl MODE=ext GHOST=empty.tpl
}

pub open spec fn ACK_BYTES() -> Seq<u8> { seq![0x80u8, 0x00u8, 0x00u8] }
// every module-level constant of the two files, so that a (changed) body may name a new one
//@ items src:zvt/src/sequences.rs | consts maybe-none
//@ items src:zvt/src/feig/sequences.rs | consts maybe-none

/// offset of the j-th packet boundary in the byte stream `b`
pub open spec fn off(b: Seq<u8>, j: nat) -> int
    decreases j
{
    if j == 0 { 0 } else {
        let o = off(b, (j - 1) as nat);
        o + (match apdu_total(b.skip(o)) { Some(t) => t, None => 0 })
    }
}
/// the i-th packet of the stream, as the reply type T decodes it
pub open spec fn pkt<T: ZvtParser>(b: Seq<u8>, i: nat) -> Option<T> {
    T::parse_spec(b.skip(off(b, i)).take(off(b, (i + 1) as nat) - off(b, i)))
}
pub open spec fn pkts<T: ZvtParser>(b: Seq<u8>, j: nat) -> Seq<T> {
    Seq::new(j, |i: int| pkt::<T>(b, i as nat).unwrap())
}
/// one acknowledgement per packet, written right after that packet was consumed
pub open spec fn acks(b: Seq<u8>, cb: nat, j: nat) -> Seq<(Seq<u8>, nat)> {
    Seq::new(j, |i: int| (ACK_BYTES(), (cb + off(b, (i + 1) as nat)) as nat))
}
/// at the i-th yield exactly i+1 packets are consumed and acknowledged
pub open spec fn yield_stamps(b: Seq<u8>, cb: nat, wl: nat, j: nat) -> Seq<(nat, nat)> {
    Seq::new(j, |i: int| ((cb + off(b, (i + 1) as nat)) as nat, (wl + i + 1) as nat))
}

/// State after the command was written and acknowledged and j reply packets were handled
/// (C05): inbox0/c0/w0/items0/stamps0 are the values at entry.
pub open spec fn seq_state<T: ZvtParser, S: VSource>(
    src: &PacketTransport<S>, sink: &VSink<T>, cmd: Seq<u8>,
    inbox0: Seq<u8>, c0: nat, w0: Seq<(Seq<u8>, nat)>, items0: Seq<T>, stamps0: Seq<(nat, nat)>, j: nat,
) -> bool {
    let t0 = apdu_total(inbox0).unwrap();
    let b = inbox0.skip(t0);
    let cb = (c0 + t0) as nat;
    &&& apdu_total(inbox0) is Some
    &&& 0 <= off(b, j) <= b.len()
    &&& src.source.inbox() =~= b.skip(off(b, j))
    &&& src.source.consumed() == cb + off(b, j)
    &&& src.source.writes() =~= w0.push((cmd, c0)) + acks(b, cb, j)
    &&& sink.items() =~= items0 + pkts::<T>(b, j)
    &&& sink.stamps() =~= stamps0 + yield_stamps(b, cb, w0.len() + 1, j)
    &&& forall|i: nat| i < j ==> (#[trigger] pkt::<T>(b, i)) is Some
}

/// An error is reported only for cause (C05, positive direction): with a connection that itself does not fail, a sequence
/// that has yielded j packets may end in an error only if what comes next - the acknowledgement of the command when j == 0
/// and it has not been read, otherwise the (j+1)-th reply - is missing, incomplete or not decodable as a reply of the command.
pub open spec fn fails_for_cause<T: ZvtParser>(inbox0: Seq<u8>, j: nat) -> bool {
    match apdu_total(inbox0) {
        None => true,
        Some(t0) => if Ack::parse_spec(inbox0.take(t0)) is None { true } else {
            let b = inbox0.skip(t0);
            !(apdu_total(b.skip(off(b, j))) is Some && pkt::<T>(b, j) is Some)
        },
    }
}

//@ include u5_all.tpl

// ------------------------------------------------------------------ default body of `Sequence::into_stream`
// (inherited by Registration, SetTerminalId, ResetTerminal, SelectLanguage, GetSystemInfo, FactoryReset,
//  ChangeHostConfiguration — checked above by assert-no-fn): exactly one reply packet, whatever it is
pub fn into_stream_default<Source: VSource, I: ZvtSerializer + Sync + Send, O: ZvtParser + Send>(input: &I, src: &mut PacketTransport<Source>, __sink: &mut VSink<O>) -> (r: Result<()>)
    ensures
//@ tag seq.default.ok C05
        r is Ok ==> ({
            &&& final(__sink).items().len() == old(__sink).items().len() + 1
            &&& seq_state::<O, Source>(final(src), final(__sink), input.zs_spec(), old(src).source.inbox(), old(src).source.consumed(), old(src).source.writes(), old(__sink).items(), old(__sink).stamps(), 1)
        }),
//@ tag seq.default.err C06
        r is Err ==> ({
            let w0 = old(src).source.writes();
            let c0 = old(src).source.consumed();
            let cmd = input.zs_spec();
            &&& final(__sink).items() =~= old(__sink).items()
            &&& (final(src).source.writes() =~= w0.push((cmd, c0))
                 || ({
                    let t0 = apdu_total(old(src).source.inbox()).unwrap();
                    let b = old(src).source.inbox().skip(t0);
                    &&& apdu_total(old(src).source.inbox()) is Some
                    &&& pkt::<O>(b, 0) is Some
                    &&& final(src).source.writes() =~= w0.push((cmd, c0)) + acks(b, (c0 + t0) as nat, 1)
                 }))
        }),
//@ tag seq.default.fails_only_for_cause C05
        final(src).source.reliable() == old(src).source.reliable(),
        (r is Err && old(src).source.reliable()) ==> fails_for_cause::<O>(old(src).source.inbox(), 0),
//@ untag
//@ fn src:zvt/src/sequences.rs | trait Sequence | into_stream | bodyonly macro=try_stream yieldctx=src all-loops props=C05,~C06
//@ entry
    proof {
        reveal_with_fuel(off, 3);
        assert forall|s: Seq<u8>| (#[trigger] s.skip(0)) =~= s by {}
    }
//@ end

//@ tag canary
pub proof fn zx_canary() ensures false {}
//@ untag

} // verus!
fn main() {}
