// U8 — zvt_feig_terminal/src/stream.rs: reconnecting stream and connection vetting (DESIGN.md §6 C09)
#![allow(unused_imports, unused_variables, dead_code, unused_mut, non_snake_case, unused_parens, unused_braces, non_camel_case_types)]
extern crate alloc;
use vstd::prelude::*;
verus! {

global size_of usize == 8;

pub struct NaiveDateTime { pub opaque: u64 }
//@ item src:zvt_builder/src/lib.rs | struct Tag | derive=Debug,PartialEq,Eq,Structural
//@ item src:zvt_builder/src/lib.rs | enum ZVTError | derive=Debug

#[derive(Debug)]
pub enum VErr { Io, Zvt(ZVTError), Msg(u64) }
pub type Result<T> = core::result::Result<T, VErr>;
pub trait IntoVErr { spec fn as_verr(self) -> VErr; fn into_verr(self) -> (r: VErr) ensures r == self.as_verr(); }
impl IntoVErr for ZVTError { open spec fn as_verr(self) -> VErr { VErr::Zvt(self) } fn into_verr(self) -> (r: VErr) { VErr::Zvt(self) } }
impl IntoVErr for VErr { open spec fn as_verr(self) -> VErr { self } fn into_verr(self) -> (r: VErr) { self } }
/// std::io::Error / ErrorKind as used by connect()
pub struct Error;
pub enum ErrorKind { NotConnected }
impl Error { pub fn new(kind: ErrorKind, msg: String) -> (r: Error) { Error } }
impl IntoVErr for Error { open spec fn as_verr(self) -> VErr { VErr::Io } fn into_verr(self) -> (r: VErr) { VErr::Io } }
pub fn drop<T>(_t: T) {}
pub uninterp spec fn fmt2_spec<A, B>(id: u64, a: A, b: B) -> Seq<char>;
#[verifier::external_body]
pub fn v_fmt2<A, B>(id: u64, a: &A, b: &B) -> (r: String) ensures r@ == fmt2_spec::<A, B>(id, *a, *b) { unimplemented!() }
pub uninterp spec fn lower_spec(s: Seq<char>) -> Seq<char>;
pub assume_specification [str::to_lowercase] (s: &str) -> (r: String)
    ensures r@ == lower_spec(s@);

pub struct Ipv4Addr { pub opaque: u32 }
pub struct SocketAddrV4 { pub ip: Ipv4Addr, pub port: u16 }
impl SocketAddrV4 { pub fn new(ip: Ipv4Addr, port: u16) -> (r: Self) ensures r.ip == ip, r.port == port { SocketAddrV4 { ip, port } } }
impl Clone for Ipv4Addr { fn clone(&self) -> (r: Self) ensures r == *self { Ipv4Addr { opaque: self.opaque } } }
impl Copy for Ipv4Addr {}

pub mod config {
    use vstd::prelude::*;
    use crate::Ipv4Addr;
    //@ item src:zvt_feig_terminal/src/config.rs | struct FeigConfig
    //@ item src:zvt_feig_terminal/src/config.rs | struct Config
}
use crate::config::Config;

pub mod zvt {
    pub use crate::ZVTError;
    pub mod packets {
        use vstd::prelude::*;
        //@ item src:zvt/src/packets.rs | struct Ack
        //@ include packets_all.tpl EXTRA_TLV=empty.tpl
    }
    pub mod feig {
        pub mod packets {
            use vstd::prelude::*;
            //@ item src:zvt/src/feig/packets/mod.rs | struct CVendFunctions
            //@ item src:zvt/src/feig/packets/mod.rs | struct CVendFunctionsEnhancedSystemInformationCompletion
        }
        pub mod sequences {
            use vstd::prelude::*;
            use crate::zvt::packets;
            //@ item src:zvt/src/feig/sequences.rs | enum GetSystemInfoResponse
            pub struct GetSystemInfo;
        }
    }
    pub mod sequences {
        use vstd::prelude::*;
        use crate::zvt::packets;
        //@ item src:zvt/src/sequences.rs | enum RegistrationResponse
        pub struct Registration;
    }
    pub mod io {
        use vstd::prelude::*;
        //@ item src:zvt/src/io.rs | struct PacketTransport
    }
}
use zvt::{feig, io, packets, sequences};

// ------------------------------------------------------------------ ghost view of a raw connection
/// what was exchanged on a raw connection so far: (request kind, the reply items its stream delivers)
pub enum Hs {
    Registration(packets::Registration, Seq<Result<sequences::RegistrationResponse>>),
    GetSystemInfo(feig::packets::CVendFunctions, Seq<Result<feig::sequences::GetSystemInfoResponse>>),
    /// any later command sequence (contents irrelevant for C09)
    Command,
}
/// tokio::net::TcpStream, abstracted: the ghost handshake/command log of the connection
#[verifier::external_body]
pub struct InnerTcpStream { _p: u8 }
impl InnerTcpStream {
    pub uninterp spec fn log(&self) -> Seq<Hs>;
    pub uninterp spec fn peer(&self) -> SocketAddrV4;
    /// `tokio::net::TcpStream::connect(addr).await` (N7): a fresh connection has exchanged nothing
    #[verifier::external_body]
    pub fn connect(addr: SocketAddrV4) -> (r: Result<Self>)
        ensures r matches Ok(s) ==> s.log() =~= Seq::<Hs>::empty() && s.peer() == addr,
    { unimplemented!() }
}
/// reply stream of a sequence running on a raw connection
#[verifier::external_body]
#[verifier::accept_recursive_types(T)]
pub struct VSeqStream<T> { _p: core::marker::PhantomData<T> }
impl<T> VSeqStream<T> {
    pub uninterp spec fn rest(&self) -> Seq<Result<T>>;
    /// an error item was delivered to the consumer
    pub uninterp spec fn saw_err(&self) -> bool;
    /// the consumer gave up waiting (tokio::time::timeout elapsed): the exchange was cut mid-way
    pub uninterp spec fn timed_out(&self) -> bool;
    /// the connection as it was when the sequence was started on it
    pub uninterp spec fn conn(&self) -> io::PacketTransport<InnerTcpStream>;
    #[verifier::external_body]
    pub fn next(&mut self) -> (r: Option<Result<T>>)
        ensures
            final(self).conn() == old(self).conn(), final(self).timed_out() == old(self).timed_out(),
            old(self).rest().len() == 0 ==> r is None && final(self).rest() == old(self).rest() && final(self).saw_err() == old(self).saw_err(),
            old(self).rest().len() > 0 ==> r == Some(old(self).rest()[0]) && final(self).rest() == old(self).rest().skip(1)
                && final(self).saw_err() == (old(self).saw_err() || old(self).rest()[0] is Err),
    { unimplemented!() }
    /// `tokio::time::timeout(d, stream.next()).await` (N7c): either the next item or, at any time, Elapsed
    #[verifier::external_body]
    pub fn next_timeout(&mut self, d: VDuration) -> (r: core::result::Result<Option<Result<T>>, Elapsed>)
        ensures
            final(self).conn() == old(self).conn(),
            r is Err ==> final(self).timed_out() && final(self).saw_err() == old(self).saw_err(),
            r matches Ok(None) ==> old(self).rest().len() == 0 && final(self).saw_err() == old(self).saw_err() && final(self).timed_out() == old(self).timed_out(),
            r matches Ok(Some(it)) ==> old(self).rest().len() > 0 && it == old(self).rest()[0] && final(self).rest() == old(self).rest().skip(1)
                && final(self).saw_err() == (old(self).saw_err() || it is Err) && final(self).timed_out() == old(self).timed_out(),
    { unimplemented!() }
}
pub struct Elapsed;
#[derive(Clone, Copy)]
pub struct VDuration { pub secs: u64 }

//@ include u8_body.tpl

//@ tag canary
pub proof fn zx_canary() ensures false {}
//@ untag

} // verus!
fn main() {}
