    broadcast use {lemma_bcd_fold_overflow, lemma_shr4_le, lemma_and_0f_le};

    /// Contract of a value encoding (C17; used by C01, C03, C14).
    pub trait Encoding<T> {
        /// values the encoder is defined on
        spec fn enc_ok(v: &T) -> bool;
        spec fn spec_enc(v: &T) -> Seq<u8>;
        /// decoder: (value, number of bytes consumed)
        spec fn spec_dec(b: Seq<u8>) -> Option<(T, int)>;
        /// a successful decode of a non-empty input consumes at least one byte
        spec fn progresses() -> bool;

        //@ fn src:zvt_builder/src/encoding.rs | trait Encoding | encode | sig
        //@ tag enc.exact C17 C03
            requires Self::enc_ok(input),
            ensures r@ =~= Self::spec_enc(input),
        //@ end
        //@ fn src:zvt_builder/src/encoding.rs | trait Encoding | decode | sig props=C02
            ensures
        //@ tag dec.ok C17 C14
                Self::spec_dec(bytes@) matches Some((v, k)) ==> (r matches Ok((v2, rest)) && v2 == v && 0 <= k <= bytes@.len() && rest@ =~= bytes@.skip(k)),
        //@ tag dec.err C17 C02
                Self::spec_dec(bytes@) is None ==> r is Err,
        //@ tag dec.progress C02
                Self::progresses() && bytes@.len() > 0 ==> (r matches Ok((v2, rest)) ==> rest@.len() < bytes@.len()),
        //@ end

        //@ tag enc.law_inverse C17 C01
        /// decode(encode(v)) == v, consuming exactly the encoding
        proof fn law_inverse(v: &T)
            requires Self::enc_ok(v),
            ensures Self::spec_dec(Self::spec_enc(v)) == Some((*v, Self::spec_enc(v).len() as int));
        //@ untag
    }

    //@ item src:zvt_builder/src/encoding.rs | struct Default

    //@ item src:zvt_builder/src/encoding.rs | struct BigEndian
    //@ include u1_enc_ints.tpl
    //@ include u1_enc_bcd.tpl
