    broadcast use {crate::frame::lemma_tail_intro, crate::frame::lemma_tail_elim, crate::frame::lemma_tail_refl, lemma_bcd_fold_overflow, lemma_shr4_le, lemma_and_0f_le, lemma_u16_shr8};

    /// Contract of a value encoding (C17; used by C01, C03, C14).
    pub trait Encoding<T> {
        /// values the encoder is defined on
        spec fn enc_ok(v: &T) -> bool;
        /// canonical domain (DESIGN.md §5.1): values the wire format can carry unchanged
        spec fn canon(v: &T) -> bool;
        spec fn spec_enc(v: &T) -> Seq<u8>;
        /// decoder: (value, number of bytes consumed)
        spec fn spec_dec(b: Seq<u8>) -> Option<(T, int)>;
        /// every successful decode consumes at least one byte
        spec fn progresses() -> bool;
        /// the decoder looks only at the bytes it consumes
        spec fn self_delimiting() -> bool;
        /// `spec_dec` specifies the decoder completely (true for every leaf encoding; false for derive-generated
        /// struct decoders, whose tag loop is specified only by frame/totality clauses)
        spec fn functional() -> bool;
        /// what a successful result must satisfy even where `spec_dec` is not functional (raw byte payloads:
        /// `Vec` values have no spec-level equality, so the relation is over the view)
        spec fn dec_rel(b: Seq<u8>, v: &T, k: int) -> bool;
        /// the decoder never fails (only the raw copy)
        spec fn dec_total() -> bool;
        /// where a successful decode may stop (tag loops: only in front of something that is not one of their own tags)
        spec fn dec_stop(rest: Seq<u8>) -> bool;

        //@ fn src:zvt_builder/src/encoding.rs | trait Encoding | encode | sig props=C17,C03
        //@ tag enc.exact C17 C03 ~C01
            requires Self::enc_ok(input),
            ensures r@ =~= Self::spec_enc(input),
        //@ end
        //@ fn src:zvt_builder/src/encoding.rs | trait Encoding | decode | sig props=C02,C17
            ensures
        //@ tag dec.ok C17 C14 ~C01
                Self::functional() ==> (Self::spec_dec(bytes@) matches Some((v, k)) ==> (r matches Ok((v2, rest)) && v2 == v && 0 <= k <= bytes@.len() && rest@ =~= bytes@.skip(k))),
        //@ tag dec.err C17 C02
                (Self::functional() && Self::spec_dec(bytes@) is None) ==> r is Err,
        //@ tag dec.frame C14
                r matches Ok((v2, rest)) ==> is_tail(rest@, bytes@) && rest@.len() <= bytes@.len(),
        //@ tag dec.progress C02
                Self::progresses() ==> (r matches Ok((v2, rest)) ==> rest@.len() < bytes@.len()),
        //@ tag dec.rel C14 C11
                r matches Ok((v2, rest)) ==> Self::dec_rel(bytes@, &v2, bytes@.len() - rest@.len()),
        //@ tag dec.total C02
                Self::dec_total() ==> r is Ok,
        //@ tag dec.stop C13
                r matches Ok((v2, rest)) ==> Self::dec_stop(rest@),
        //@ end

        //@ tag enc.law_inverse C17 C01
        /// decode(encode(v)) == v, consuming exactly the encoding
        proof fn law_inverse(v: &T)
            requires Self::enc_ok(v), Self::canon(v),
            ensures Self::spec_dec(Self::spec_enc(v)) == Some((*v, Self::spec_enc(v).len() as int));
        //@ tag enc.law_dec_frame C14
        /// bytes behind what the decoder consumed do not influence the result
        proof fn law_dec_frame(b: Seq<u8>, s: Seq<u8>)
            requires Self::self_delimiting(), Self::spec_dec(b) is Some,
            ensures Self::spec_dec(b + s) == Self::spec_dec(b);
        proof fn law_dec_bounds(b: Seq<u8>)
            requires Self::functional(),
            ensures Self::spec_dec(b) matches Some((v, k)) ==> 0 <= k <= b.len();
        //@ untag
    }

    //@ item src:zvt_builder/src/encoding.rs | struct Default

    //@ item src:zvt_builder/src/encoding.rs | struct BigEndian
    //@ include u1_enc_ints.tpl
    //@ include u1_enc_bcd.tpl

    // ------------------------------------------------------------------ Tag (BMP number / TLV tag)
    /// a tag travels as two bytes iff its high byte is 0x1f or 0xff
    pub open spec fn tag_is_two_byte(t: u16) -> bool { t / 256 == 0x1f || t / 256 == 0xff }
    impl encoding::Encoding<Tag> for Default {
        /// representable: two-byte tags 1fxx / ffxx, and one-byte tags other than 1f and ff
        open spec fn enc_ok(v: &Tag) -> bool { tag_is_two_byte(v.0) || (v.0 < 256 && v.0 != 0x1f && v.0 != 0xff) }
        open spec fn canon(v: &Tag) -> bool { true }
        open spec fn spec_enc(v: &Tag) -> Seq<u8> {
            if tag_is_two_byte(v.0) { be_seq2(v.0 as nat) } else { seq![v.0 as u8] }
        }
        open spec fn spec_dec(b: Seq<u8>) -> Option<(Tag, int)> {
            if b.len() < 1 { None }
            else if b[0] == 0x1f || b[0] == 0xff {
                if b.len() < 2 { None } else { Some((Tag(be_val2(b.subrange(0, 2)) as u16), 2)) }
            } else { Some((Tag(b[0] as u16), 1)) }
        }
        open spec fn progresses() -> bool { true }
        //@ fn src:zvt_builder/src/encoding.rs | impl encoding::Encoding<Tag> for Default | encode | props=C17,C03 $M
        //@ end
        //@ fn src:zvt_builder/src/encoding.rs | impl encoding::Encoding<Tag> for Default | decode | props=C02,C17 $M
        //@ end
        open spec fn self_delimiting() -> bool { true }
        open spec fn dec_rel(b: Seq<u8>, v: &Tag, k: int) -> bool { true }
        open spec fn dec_total() -> bool { false }
        open spec fn dec_stop(rest: Seq<u8>) -> bool { true }
        open spec fn functional() -> bool { true }
        proof fn law_dec_bounds(b: Seq<u8>) {}
        //@ tag enc.law_dec_frame.tag C14
        proof fn law_dec_frame(b: Seq<u8>, s: Seq<u8>) {
            if b.len() >= 2 { assert((b + s).subrange(0, 2) =~= b.subrange(0, 2)); }
        }
        //@ tag enc.law_inverse.tag C17 C01
        proof fn law_inverse(v: &Tag) {
            if tag_is_two_byte(v.0) {
                lemma_be2_inv(v.0 as nat);
                assert(be_seq2(v.0 as nat).subrange(0, 2) =~= be_seq2(v.0 as nat));
            }
        }
        //@ untag
    }
    impl encoding::Encoding<Tag> for BigEndian {
        open spec fn enc_ok(v: &Tag) -> bool { true }
        open spec fn canon(v: &Tag) -> bool { true }
        /// always two bytes, big endian (class, instruction)
        open spec fn spec_enc(v: &Tag) -> Seq<u8> { be_seq2(v.0 as nat) }
        open spec fn spec_dec(b: Seq<u8>) -> Option<(Tag, int)> {
            if b.len() < 2 { None } else { Some((Tag(be_val2(b.subrange(0, 2)) as u16), 2)) }
        }
        open spec fn progresses() -> bool { true }
        //@ fn src:zvt_builder/src/encoding.rs | impl encoding::Encoding<Tag> for BigEndian | encode | props=C17,C03 $M
        //@ end
        //@ fn src:zvt_builder/src/encoding.rs | impl encoding::Encoding<Tag> for BigEndian | decode | props=C02,C17 $M
        //@ end
        open spec fn self_delimiting() -> bool { true }
        open spec fn dec_rel(b: Seq<u8>, v: &Tag, k: int) -> bool { true }
        open spec fn dec_total() -> bool { false }
        open spec fn dec_stop(rest: Seq<u8>) -> bool { true }
        open spec fn functional() -> bool { true }
        proof fn law_dec_bounds(b: Seq<u8>) {}
        //@ tag enc.law_dec_frame.tagbe C14
        proof fn law_dec_frame(b: Seq<u8>, s: Seq<u8>) {
            assert((b + s).subrange(0, 2) =~= b.subrange(0, 2));
        }
        //@ tag enc.law_inverse.tagbe C17 C01
        proof fn law_inverse(v: &Tag) {
            lemma_be2_inv(v.0 as nat);
            assert(be_seq2(v.0 as nat).subrange(0, 2) =~= be_seq2(v.0 as nat));
        }
        //@ untag
    }

    // ------------------------------------------------------------------ blanket Option<T> / Vec<T>
    impl<T, E> Encoding<Option<T>> for E
    where
        E: Encoding<T>,
    {
        open spec fn enc_ok(v: &Option<T>) -> bool { match v { None => true, Some(i) => E::enc_ok(i) } }
        /// an absent value encodes to nothing, which does not decode to `None` at this level
        open spec fn canon(v: &Option<T>) -> bool { match v { None => false, Some(i) => E::canon(i) } }
        open spec fn spec_enc(v: &Option<T>) -> Seq<u8> { match v { None => Seq::<u8>::empty(), Some(i) => E::spec_enc(i) } }
        open spec fn spec_dec(b: Seq<u8>) -> Option<(Option<T>, int)> {
            match E::spec_dec(b) { None => None, Some((v, k)) => Some((Some(v), k)) }
        }
        open spec fn progresses() -> bool { E::progresses() }
        //@ fn src:zvt_builder/src/encoding.rs | impl Encoding<Option<T>> for E | decode | props=C02,C17 $M
        //@ end
        //@ fn src:zvt_builder/src/encoding.rs | impl Encoding<Option<T>> for E | encode | props=C17,C03 $M
        //@ end
        open spec fn self_delimiting() -> bool { E::self_delimiting() }
        open spec fn dec_rel(b: Seq<u8>, v: &Option<T>, k: int) -> bool { true }
        open spec fn dec_total() -> bool { false }
        open spec fn dec_stop(rest: Seq<u8>) -> bool { true }
        open spec fn functional() -> bool { E::functional() }
        proof fn law_dec_bounds(b: Seq<u8>) { E::law_dec_bounds(b); }
        //@ tag enc.law_dec_frame.option C14
        proof fn law_dec_frame(b: Seq<u8>, s: Seq<u8>) { E::law_dec_frame(b, s); }
        //@ tag enc.law_inverse.option C01
        proof fn law_inverse(v: &Option<T>) {
            match v { Some(i) => { E::law_inverse(i); } None => { } }
        }
        //@ untag
    }
    /// Blanket `Vec<T>` encoding. NOT VERIFIED (trusted shell): the encoder uses iterator adapters and
    /// the decoder loops without a progress guard (finding D5). Unreachable from every shipped packet
    /// type: `Vec` fields are (de)serialised by `ZvtSerializerImpl for Vec<T>`, never through this impl.
    impl<T, E> Encoding<Vec<T>> for E
    where
        E: Encoding<T>,
    {
        open spec fn enc_ok(v: &Vec<T>) -> bool { false }
        open spec fn canon(v: &Vec<T>) -> bool { false }
        uninterp spec fn spec_enc(v: &Vec<T>) -> Seq<u8>;
        open spec fn spec_dec(b: Seq<u8>) -> Option<(Vec<T>, int)> {
            match vec_blanket_dec::<T, E>(b) { Some((v, k)) => if 0 <= k <= b.len() { Some((v, k)) } else { None }, None => None }
        }
        open spec fn progresses() -> bool { false }
        //@ fn src:zvt_builder/src/encoding.rs | impl Encoding<Vec<T>> for E | encode | ext props=C17,C03
        //@ end
        //@ fn src:zvt_builder/src/encoding.rs | impl Encoding<Vec<T>> for E | decode | ext props=C02,C17
        //@ end
        open spec fn self_delimiting() -> bool { false }
        open spec fn dec_rel(b: Seq<u8>, v: &Vec<T>, k: int) -> bool { true }
        open spec fn dec_total() -> bool { false }
        open spec fn dec_stop(rest: Seq<u8>) -> bool { true }
        open spec fn functional() -> bool { true }
        proof fn law_dec_bounds(b: Seq<u8>) {}
        proof fn law_dec_frame(b: Seq<u8>, s: Seq<u8>) {}
        proof fn law_inverse(v: &Vec<T>) {}
    }
    pub uninterp spec fn vec_blanket_dec<T, E: Encoding<T>>(b: Seq<u8>) -> Option<(Vec<T>, int)>;

    // ------------------------------------------------------------------ text (external crates: yore CP437, hex) — trusted, T3
    pub uninterp spec fn cp437_enc(v: &String) -> Seq<u8>;
    pub uninterp spec fn cp437_dec(b: Seq<u8>) -> String;
    /// encodable in CP437 and not ending in NUL
    pub uninterp spec fn cp437_canon(v: &String) -> bool;
    impl Encoding<String> for Default {
        open spec fn enc_ok(v: &String) -> bool { cp437_canon(v) }
        open spec fn canon(v: &String) -> bool { cp437_canon(v) }
        open spec fn spec_enc(v: &String) -> Seq<u8> { cp437_enc(v) }
        /// total; consumes the entire input
        open spec fn spec_dec(b: Seq<u8>) -> Option<(String, int)> { Some((cp437_dec(b), b.len() as int)) }
        open spec fn progresses() -> bool { false }
        //@ fn src:zvt_builder/src/encoding.rs | impl Encoding<String> for Default | encode | ext props=C17,C03
        //@ end
        //@ fn src:zvt_builder/src/encoding.rs | impl Encoding<String> for Default | decode | ext props=C02,C17
        //@ end
        open spec fn self_delimiting() -> bool { false }
        open spec fn dec_rel(b: Seq<u8>, v: &String, k: int) -> bool { true }
        open spec fn dec_total() -> bool { false }
        open spec fn dec_stop(rest: Seq<u8>) -> bool { true }
        open spec fn functional() -> bool { true }
        proof fn law_dec_bounds(b: Seq<u8>) {}
        proof fn law_dec_frame(b: Seq<u8>, s: Seq<u8>) {}
        #[verifier::external_body]
        proof fn law_inverse(v: &String) {}
    }
    //@ item src:zvt_builder/src/encoding.rs | struct Hex
    pub uninterp spec fn hex_enc(v: &String) -> Seq<u8>;
    pub uninterp spec fn hex_dec(b: Seq<u8>) -> String;
    /// lower-case hex digits, even length
    pub uninterp spec fn hex_canon(v: &String) -> bool;
    impl Encoding<String> for Hex {
        open spec fn enc_ok(v: &String) -> bool { hex_canon(v) }
        open spec fn canon(v: &String) -> bool { hex_canon(v) }
        open spec fn spec_enc(v: &String) -> Seq<u8> { hex_enc(v) }
        open spec fn spec_dec(b: Seq<u8>) -> Option<(String, int)> { Some((hex_dec(b), b.len() as int)) }
        open spec fn progresses() -> bool { false }
        //@ fn src:zvt_builder/src/encoding.rs | impl Encoding<String> for Hex | encode | ext props=C17,C03
        //@ end
        //@ fn src:zvt_builder/src/encoding.rs | impl Encoding<String> for Hex | decode | ext props=C02,C17
        //@ end
        open spec fn self_delimiting() -> bool { false }
        open spec fn dec_rel(b: Seq<u8>, v: &String, k: int) -> bool { true }
        open spec fn dec_total() -> bool { false }
        open spec fn dec_stop(rest: Seq<u8>) -> bool { true }
        open spec fn functional() -> bool { true }
        proof fn law_dec_bounds(b: Seq<u8>) {}
        proof fn law_dec_frame(b: Seq<u8>, s: Seq<u8>) {}
        #[verifier::external_body]
        proof fn law_inverse(v: &String) {}
    }

    // ------------------------------------------------------------------ zvt_serializer_registry! (empty impls inheriting the default bodies)
    impl<L: length::Length, E: encoding::Encoding<u8>, TE: encoding::Encoding<Tag>> ZvtSerializerImpl<L, E, TE> for u8 {
        open spec fn ser_pre(&self, tag: Option<Tag>) -> bool { default_ser_pre::<Self, L, E, TE>(self, tag) }
        open spec fn spec_ser_tagged(&self, tag: Option<Tag>) -> Seq<u8> { default_spec_ser::<Self, L, E, TE>(self, tag) }
        open spec fn deser_pre(tag: Option<Tag>) -> bool { L::wf() }
        open spec fn functional() -> bool { $FUNC }
        open spec fn deser_progresses(tag: Option<Tag>) -> bool { tag is Some && TE::progresses() }
        open spec fn deser_defined(b: Seq<u8>, tag: Option<Tag>) -> bool { default_spec_deser::<Self, L, E, TE>(b, tag) is Some }
        open spec fn deser_ok(b: Seq<u8>, tag: Option<Tag>, v: Self, k: int) -> bool { default_spec_deser::<Self, L, E, TE>(b, tag) == Some((v, k)) }
        //@ fn src:zvt_builder/src/lib.rs | trait ZvtSerializerImpl | serialize_tagged | props=C03,C01 $M
        //@ end
        //@ fn src:zvt_builder/src/lib.rs | trait ZvtSerializerImpl | deserialize_tagged | props=C02,C14 $M
        //@ end
    }
    impl<L: length::Length, E: encoding::Encoding<u16>, TE: encoding::Encoding<Tag>> ZvtSerializerImpl<L, E, TE> for u16 {
        open spec fn ser_pre(&self, tag: Option<Tag>) -> bool { default_ser_pre::<Self, L, E, TE>(self, tag) }
        open spec fn spec_ser_tagged(&self, tag: Option<Tag>) -> Seq<u8> { default_spec_ser::<Self, L, E, TE>(self, tag) }
        open spec fn deser_pre(tag: Option<Tag>) -> bool { L::wf() }
        open spec fn functional() -> bool { $FUNC }
        open spec fn deser_progresses(tag: Option<Tag>) -> bool { tag is Some && TE::progresses() }
        open spec fn deser_defined(b: Seq<u8>, tag: Option<Tag>) -> bool { default_spec_deser::<Self, L, E, TE>(b, tag) is Some }
        open spec fn deser_ok(b: Seq<u8>, tag: Option<Tag>, v: Self, k: int) -> bool { default_spec_deser::<Self, L, E, TE>(b, tag) == Some((v, k)) }
        //@ fn src:zvt_builder/src/lib.rs | trait ZvtSerializerImpl | serialize_tagged | props=C03,C01 $M
        //@ end
        //@ fn src:zvt_builder/src/lib.rs | trait ZvtSerializerImpl | deserialize_tagged | props=C02,C14 $M
        //@ end
    }
    impl<L: length::Length, E: encoding::Encoding<u32>, TE: encoding::Encoding<Tag>> ZvtSerializerImpl<L, E, TE> for u32 {
        open spec fn ser_pre(&self, tag: Option<Tag>) -> bool { default_ser_pre::<Self, L, E, TE>(self, tag) }
        open spec fn spec_ser_tagged(&self, tag: Option<Tag>) -> Seq<u8> { default_spec_ser::<Self, L, E, TE>(self, tag) }
        open spec fn deser_pre(tag: Option<Tag>) -> bool { L::wf() }
        open spec fn functional() -> bool { $FUNC }
        open spec fn deser_progresses(tag: Option<Tag>) -> bool { tag is Some && TE::progresses() }
        open spec fn deser_defined(b: Seq<u8>, tag: Option<Tag>) -> bool { default_spec_deser::<Self, L, E, TE>(b, tag) is Some }
        open spec fn deser_ok(b: Seq<u8>, tag: Option<Tag>, v: Self, k: int) -> bool { default_spec_deser::<Self, L, E, TE>(b, tag) == Some((v, k)) }
        //@ fn src:zvt_builder/src/lib.rs | trait ZvtSerializerImpl | serialize_tagged | props=C03,C01 $M
        //@ end
        //@ fn src:zvt_builder/src/lib.rs | trait ZvtSerializerImpl | deserialize_tagged | props=C02,C14 $M
        //@ end
    }
    impl<L: length::Length, E: encoding::Encoding<u64>, TE: encoding::Encoding<Tag>> ZvtSerializerImpl<L, E, TE> for u64 {
        open spec fn ser_pre(&self, tag: Option<Tag>) -> bool { default_ser_pre::<Self, L, E, TE>(self, tag) }
        open spec fn spec_ser_tagged(&self, tag: Option<Tag>) -> Seq<u8> { default_spec_ser::<Self, L, E, TE>(self, tag) }
        open spec fn deser_pre(tag: Option<Tag>) -> bool { L::wf() }
        open spec fn functional() -> bool { $FUNC }
        open spec fn deser_progresses(tag: Option<Tag>) -> bool { tag is Some && TE::progresses() }
        open spec fn deser_defined(b: Seq<u8>, tag: Option<Tag>) -> bool { default_spec_deser::<Self, L, E, TE>(b, tag) is Some }
        open spec fn deser_ok(b: Seq<u8>, tag: Option<Tag>, v: Self, k: int) -> bool { default_spec_deser::<Self, L, E, TE>(b, tag) == Some((v, k)) }
        //@ fn src:zvt_builder/src/lib.rs | trait ZvtSerializerImpl | serialize_tagged | props=C03,C01 $M
        //@ end
        //@ fn src:zvt_builder/src/lib.rs | trait ZvtSerializerImpl | deserialize_tagged | props=C02,C14 $M
        //@ end
    }
    impl<L: length::Length, E: encoding::Encoding<usize>, TE: encoding::Encoding<Tag>> ZvtSerializerImpl<L, E, TE> for usize {
        open spec fn ser_pre(&self, tag: Option<Tag>) -> bool { default_ser_pre::<Self, L, E, TE>(self, tag) }
        open spec fn spec_ser_tagged(&self, tag: Option<Tag>) -> Seq<u8> { default_spec_ser::<Self, L, E, TE>(self, tag) }
        open spec fn deser_pre(tag: Option<Tag>) -> bool { L::wf() }
        open spec fn functional() -> bool { $FUNC }
        open spec fn deser_progresses(tag: Option<Tag>) -> bool { tag is Some && TE::progresses() }
        open spec fn deser_defined(b: Seq<u8>, tag: Option<Tag>) -> bool { default_spec_deser::<Self, L, E, TE>(b, tag) is Some }
        open spec fn deser_ok(b: Seq<u8>, tag: Option<Tag>, v: Self, k: int) -> bool { default_spec_deser::<Self, L, E, TE>(b, tag) == Some((v, k)) }
        //@ fn src:zvt_builder/src/lib.rs | trait ZvtSerializerImpl | serialize_tagged | props=C03,C01 $M
        //@ end
        //@ fn src:zvt_builder/src/lib.rs | trait ZvtSerializerImpl | deserialize_tagged | props=C02,C14 $M
        //@ end
    }
    impl<L: length::Length, E: encoding::Encoding<String>, TE: encoding::Encoding<Tag>> ZvtSerializerImpl<L, E, TE> for String {
        open spec fn ser_pre(&self, tag: Option<Tag>) -> bool { default_ser_pre::<Self, L, E, TE>(self, tag) }
        open spec fn spec_ser_tagged(&self, tag: Option<Tag>) -> Seq<u8> { default_spec_ser::<Self, L, E, TE>(self, tag) }
        open spec fn deser_pre(tag: Option<Tag>) -> bool { L::wf() }
        open spec fn functional() -> bool { $FUNC }
        open spec fn deser_progresses(tag: Option<Tag>) -> bool { tag is Some && TE::progresses() }
        open spec fn deser_defined(b: Seq<u8>, tag: Option<Tag>) -> bool { default_spec_deser::<Self, L, E, TE>(b, tag) is Some }
        open spec fn deser_ok(b: Seq<u8>, tag: Option<Tag>, v: Self, k: int) -> bool { default_spec_deser::<Self, L, E, TE>(b, tag) == Some((v, k)) }
        //@ fn src:zvt_builder/src/lib.rs | trait ZvtSerializerImpl | serialize_tagged | props=C03,C01 $M
        //@ end
        //@ fn src:zvt_builder/src/lib.rs | trait ZvtSerializerImpl | deserialize_tagged | props=C02,C14 $M
        //@ end
    }

    // ------------------------------------------------------------------ UTF-8 text (receipt printout): String::from_utf8 / as_bytes — trusted, T3
    //@ item src:zvt_builder/src/encoding.rs | struct Utf8
    pub uninterp spec fn utf8_enc(v: &String) -> Seq<u8>;
    pub uninterp spec fn utf8_dec(b: Seq<u8>) -> Option<String>;
    pub assume_specification [String::as_bytes] (s: &String) -> (r: &[u8])
        ensures r@ == utf8_enc(s);
    #[verifier::external_type_specification]
    #[verifier::external_body]
    pub struct ExFromUtf8Error(alloc::string::FromUtf8Error);
    pub assume_specification [String::from_utf8] (v: Vec<u8>) -> (r: core::result::Result<String, alloc::string::FromUtf8Error>)
        ensures r matches Ok(s) ==> utf8_dec(v@) == Some(s), r is Err ==> utf8_dec(v@) is None;
    impl Encoding<String> for Utf8 {
        open spec fn enc_ok(v: &String) -> bool { true }
        open spec fn canon(v: &String) -> bool { true }
        open spec fn spec_enc(v: &String) -> Seq<u8> { utf8_enc(v) }
        /// valid UTF-8 => the text, consuming everything; otherwise an error
        open spec fn spec_dec(b: Seq<u8>) -> Option<(String, int)> { match utf8_dec(b) { Some(s) => Some((s, b.len() as int)), None => None } }
        open spec fn progresses() -> bool { false }
        open spec fn self_delimiting() -> bool { false }
        open spec fn dec_rel(b: Seq<u8>, v: &String, k: int) -> bool { true }
        open spec fn dec_total() -> bool { false }
        open spec fn dec_stop(rest: Seq<u8>) -> bool { true }
        open spec fn functional() -> bool { true }
        //@ fn src:zvt_builder/src/encoding.rs | impl Encoding<String> for Utf8 | encode | props=C17,C01 $M
        //@ end
        //@ fn src:zvt_builder/src/encoding.rs | impl Encoding<String> for Utf8 | decode | props=C02,C17 $M
        //@ end
        proof fn law_dec_bounds(b: Seq<u8>) {}
        proof fn law_dec_frame(b: Seq<u8>, s: Seq<u8>) {}
        #[verifier::external_body]
        proof fn law_inverse(v: &String) {}
    }

    // ------------------------------------------------------------------ date/time (chrono: external crate, T4: constructors total, accessors in range)
    #[verifier::external_body]
    pub struct NaiveDate { _p: u8 }
    #[verifier::external_body]
    pub struct NaiveDateTime { _p: u8 }
    impl NaiveDate {
        pub uninterp spec fn ymd_valid(y: i32, m: u32, d: u32) -> bool;
        /// `None` for dates that do not exist
        #[verifier::external_body]
        pub fn from_ymd_opt(year: i32, month: u32, day: u32) -> (r: Option<NaiveDate>) { unimplemented!() }
        #[verifier::external_body]
        pub fn and_hms_opt(&self, hour: u32, min: u32, sec: u32) -> (r: Option<NaiveDateTime>) { unimplemented!() }
    }
    impl NaiveDateTime {
        // chrono::Datelike / chrono::Timelike accessors (documented ranges)
        #[verifier::external_body]
        pub fn year(&self) -> (r: i32) ensures -262144 <= r <= 262143 { unimplemented!() }
        #[verifier::external_body]
        pub fn month(&self) -> (r: u32) ensures 1 <= r <= 12 { unimplemented!() }
        #[verifier::external_body]
        pub fn day(&self) -> (r: u32) ensures 1 <= r <= 31 { unimplemented!() }
        #[verifier::external_body]
        pub fn hour(&self) -> (r: u32) ensures r <= 23 { unimplemented!() }
        #[verifier::external_body]
        pub fn minute(&self) -> (r: u32) ensures r <= 59 { unimplemented!() }
        #[verifier::external_body]
        pub fn second(&self) -> (r: u32) ensures r <= 59 { unimplemented!() }
    }
    pub uninterp spec fn datetime_enc(v: &NaiveDateTime) -> Seq<u8>;
    pub uninterp spec fn datetime_dec(b: Seq<u8>) -> Option<(NaiveDateTime, int)>;
    impl Encoding<NaiveDateTime> for Default {
        /// year 0..=9999 (four BCD digits)
        uninterp spec fn enc_ok(v: &NaiveDateTime) -> bool;
        open spec fn canon(v: &NaiveDateTime) -> bool { false }
        open spec fn spec_enc(v: &NaiveDateTime) -> Seq<u8> { datetime_enc(v) }
        open spec fn spec_dec(b: Seq<u8>) -> Option<(NaiveDateTime, int)> { datetime_dec(b) }
        open spec fn progresses() -> bool { false }
        open spec fn self_delimiting() -> bool { false }
        open spec fn dec_rel(b: Seq<u8>, v: &NaiveDateTime, k: int) -> bool { true }
        open spec fn dec_total() -> bool { false }
        open spec fn dec_stop(rest: Seq<u8>) -> bool { true }
        /// only totality and the frame clause are proved for the date decoder
        open spec fn functional() -> bool { false }
        //@ fn src:zvt_builder/src/encoding.rs | impl Encoding<NaiveDateTime> for Default | encode | ext
        //@ end
        //@ fn src:zvt_builder/src/encoding.rs | impl Encoding<NaiveDateTime> for Default | decode | all-loops props=C02 $M
        //@ loop 0
                invariant
                    is_tail(data@, data0),
                decreases data@.len(),
        //@ entry
            let ghost data0 = data@;
        //@ end
        proof fn law_dec_bounds(b: Seq<u8>) {}
        proof fn law_dec_frame(b: Seq<u8>, s: Seq<u8>) {}
        proof fn law_inverse(v: &NaiveDateTime) {}
    }
    //@ include ../prelude/tagset.rs TAGSET_INSERT=$TSI TAGSET_REMOVE=$TSR
    impl<L: length::Length, E: encoding::Encoding<NaiveDateTime>, TE: encoding::Encoding<Tag>> ZvtSerializerImpl<L, E, TE> for NaiveDateTime {
        open spec fn ser_pre(&self, tag: Option<Tag>) -> bool { default_ser_pre::<Self, L, E, TE>(self, tag) }
        open spec fn spec_ser_tagged(&self, tag: Option<Tag>) -> Seq<u8> { default_spec_ser::<Self, L, E, TE>(self, tag) }
        open spec fn deser_pre(tag: Option<Tag>) -> bool { L::wf() }
        open spec fn functional() -> bool { $FUNC }
        open spec fn deser_progresses(tag: Option<Tag>) -> bool { tag is Some && TE::progresses() }
        open spec fn deser_defined(b: Seq<u8>, tag: Option<Tag>) -> bool { default_spec_deser::<Self, L, E, TE>(b, tag) is Some }
        open spec fn deser_ok(b: Seq<u8>, tag: Option<Tag>, v: Self, k: int) -> bool { default_spec_deser::<Self, L, E, TE>(b, tag) == Some((v, k)) }
        //@ fn src:zvt_builder/src/lib.rs | trait ZvtSerializerImpl | serialize_tagged | props=C03,C01 $M
        //@ end
        //@ fn src:zvt_builder/src/lib.rs | trait ZvtSerializerImpl | deserialize_tagged | props=C02,C14 $M
        //@ end
    }
