    broadcast use {crate::frame::lemma_tail_intro, crate::frame::lemma_tail_elim, crate::frame::lemma_tail_refl, lemma_bcd_fold_overflow, lemma_shr4_le, lemma_and_0f_le, lemma_u16_shr8};

    /// Contract of a value encoding (C17; used by C01, C03, C14).
    pub trait Encoding<T> {
        /// values the encoder is defined on
        spec fn enc_ok(v: &T) -> bool;
        /// canonical domain (DESIGN.md §5.1): values the wire format can carry unchanged
        spec fn canon(v: &T) -> bool;
        spec fn spec_enc(v: &T) -> Seq<u8>;
        /// decoder: (value, number of bytes consumed)
        spec fn spec_dec(b: Seq<u8>) -> Option<(T, int)>;
        /// every successful decode consumes at least one byte
        spec fn progresses() -> bool;
        /// the decoder looks only at the bytes it consumes
        spec fn self_delimiting() -> bool;
        /// `spec_dec` specifies the decoder completely (true for every leaf encoding; false for derive-generated
        /// struct decoders, whose tag loop is specified only by frame/totality clauses)
        spec fn functional() -> bool;
        /// what a successful result must satisfy even where `spec_dec` is not functional (raw byte payloads:
        /// `Vec` values have no spec-level equality, so the relation is over the view)
        spec fn dec_rel(b: Seq<u8>, v: &T, k: int) -> bool;
        /// inputs on which the decoder is known to succeed
        spec fn dec_total(b: Seq<u8>) -> bool;
        /// where a successful decode may stop (tag loops: only in front of something that is not one of their own tags)
        spec fn dec_stop(rest: Seq<u8>) -> bool;

        //@ fn src:zvt_builder/src/encoding.rs | trait Encoding | encode | sig props=C17,C03
        //@ tag enc.exact C17 C03 ~C01
            requires Self::enc_ok(input),
            ensures r@ =~= Self::spec_enc(input),
        //@ end
        //@ fn src:zvt_builder/src/encoding.rs | trait Encoding | decode | sig props=C02,C17
            ensures
        //@ tag dec.ok C17 C14 ~C01
                Self::functional() ==> (Self::spec_dec(bytes@) matches Some((v, k)) ==> (r matches Ok((v2, rest)) && v2 == v && 0 <= k <= bytes@.len() && rest@ =~= bytes@.skip(k))),
        //@ tag dec.err C17 C02
                (Self::functional() && Self::spec_dec(bytes@) is None) ==> r is Err,
        //@ tag dec.frame C14
                r matches Ok((v2, rest)) ==> is_tail(rest@, bytes@) && rest@.len() <= bytes@.len(),
        //@ tag dec.progress C02
                Self::progresses() ==> (r matches Ok((v2, rest)) ==> rest@.len() < bytes@.len()),
        //@ tag dec.rel C14 C11
                r matches Ok((v2, rest)) ==> Self::dec_rel(bytes@, &v2, bytes@.len() - rest@.len()),
        //@ tag dec.total C02
                Self::dec_total(bytes@) ==> r is Ok,
        //@ tag dec.stop C13
                r matches Ok((v2, rest)) ==> Self::dec_stop(rest@),
        //@ end

        //@ tag enc.law_inverse C17 C01
        /// decode(encode(v)) == v, consuming exactly the encoding
        proof fn law_inverse(v: &T)
            requires Self::enc_ok(v), Self::canon(v),
            ensures Self::spec_dec(Self::spec_enc(v)) == Some((*v, Self::spec_enc(v).len() as int));
        //@ tag enc.law_dec_frame C14
        /// bytes behind what the decoder consumed do not influence the result
        proof fn law_dec_frame(b: Seq<u8>, s: Seq<u8>)
            requires Self::self_delimiting(), Self::spec_dec(b) is Some,
            ensures Self::spec_dec(b + s) == Self::spec_dec(b);
        proof fn law_dec_bounds(b: Seq<u8>)
            requires Self::functional(),
            ensures Self::spec_dec(b) matches Some((v, k)) ==> 0 <= k <= b.len();
        //@ untag
    }

    //@ item src:zvt_builder/src/encoding.rs | struct Default

    //@ item src:zvt_builder/src/encoding.rs | struct BigEndian
    //@ include u1_enc_ints.tpl
    //@ include u1_enc_bcd.tpl

    // ------------------------------------------------------------------ Tag (BMP number / TLV tag)
    /// a tag travels as two bytes iff its high byte is 0x1f or 0xff
    pub open spec fn tag_is_two_byte(t: u16) -> bool { t / 256 == 0x1f || t / 256 == 0xff }
    impl encoding::Encoding<Tag> for Default {
        /// representable: two-byte tags 1fxx / ffxx, and one-byte tags other than 1f and ff
        open spec fn enc_ok(v: &Tag) -> bool { tag_is_two_byte(v.0) || (v.0 < 256 && v.0 != 0x1f && v.0 != 0xff) }
        open spec fn canon(v: &Tag) -> bool { true }
        open spec fn spec_enc(v: &Tag) -> Seq<u8> {
            if tag_is_two_byte(v.0) { be_seq2(v.0 as nat) } else { seq![v.0 as u8] }
        }
        open spec fn spec_dec(b: Seq<u8>) -> Option<(Tag, int)> {
            if b.len() < 1 { None }
            else if b[0] == 0x1f || b[0] == 0xff {
                if b.len() < 2 { None } else { Some((Tag(be_val2(b.subrange(0, 2)) as u16), 2)) }
            } else { Some((Tag(b[0] as u16), 1)) }
        }
        open spec fn progresses() -> bool { true }
        //@ fn src:zvt_builder/src/encoding.rs | impl encoding::Encoding<Tag> for Default | encode | props=C17,C03 $M
        //@ end
        //@ fn src:zvt_builder/src/encoding.rs | impl encoding::Encoding<Tag> for Default | decode | props=C02,C17 $M
        //@ end
        open spec fn self_delimiting() -> bool { true }
        open spec fn dec_rel(b: Seq<u8>, v: &Tag, k: int) -> bool { true }
        open spec fn dec_total(b: Seq<u8>) -> bool { false }
        open spec fn dec_stop(rest: Seq<u8>) -> bool { true }
        open spec fn functional() -> bool { true }
        proof fn law_dec_bounds(b: Seq<u8>) {}
        //@ tag enc.law_dec_frame.tag C14
        proof fn law_dec_frame(b: Seq<u8>, s: Seq<u8>) {
            if b.len() >= 2 { assert((b + s).subrange(0, 2) =~= b.subrange(0, 2)); }
        }
        //@ tag enc.law_inverse.tag C17 C01
        proof fn law_inverse(v: &Tag) {
            if tag_is_two_byte(v.0) {
                lemma_be2_inv(v.0 as nat);
                assert(be_seq2(v.0 as nat).subrange(0, 2) =~= be_seq2(v.0 as nat));
            }
        }
        //@ untag
    }
    impl encoding::Encoding<Tag> for BigEndian {
        open spec fn enc_ok(v: &Tag) -> bool { true }
        open spec fn canon(v: &Tag) -> bool { true }
        /// always two bytes, big endian (class, instruction)
        open spec fn spec_enc(v: &Tag) -> Seq<u8> { be_seq2(v.0 as nat) }
        open spec fn spec_dec(b: Seq<u8>) -> Option<(Tag, int)> {
            if b.len() < 2 { None } else { Some((Tag(be_val2(b.subrange(0, 2)) as u16), 2)) }
        }
        open spec fn progresses() -> bool { true }
        //@ fn src:zvt_builder/src/encoding.rs | impl encoding::Encoding<Tag> for BigEndian | encode | props=C17,C03 $M
        //@ end
        //@ fn src:zvt_builder/src/encoding.rs | impl encoding::Encoding<Tag> for BigEndian | decode | props=C02,C17 $M
        //@ end
        open spec fn self_delimiting() -> bool { true }
        open spec fn dec_rel(b: Seq<u8>, v: &Tag, k: int) -> bool { true }
        open spec fn dec_total(b: Seq<u8>) -> bool { false }
        open spec fn dec_stop(rest: Seq<u8>) -> bool { true }
        open spec fn functional() -> bool { true }
        proof fn law_dec_bounds(b: Seq<u8>) {}
        //@ tag enc.law_dec_frame.tagbe C14
        proof fn law_dec_frame(b: Seq<u8>, s: Seq<u8>) {
            assert((b + s).subrange(0, 2) =~= b.subrange(0, 2));
        }
        //@ tag enc.law_inverse.tagbe C17 C01
        proof fn law_inverse(v: &Tag) {
            lemma_be2_inv(v.0 as nat);
            assert(be_seq2(v.0 as nat).subrange(0, 2) =~= be_seq2(v.0 as nat));
        }
        //@ untag
    }

    // ------------------------------------------------------------------ blanket Option<T> / Vec<T>
    impl<T, E> Encoding<Option<T>> for E
    where
        E: Encoding<T>,
    {
        open spec fn enc_ok(v: &Option<T>) -> bool { match v { None => true, Some(i) => E::enc_ok(i) } }
        /// an absent value encodes to nothing, which does not decode to `None` at this level
        open spec fn canon(v: &Option<T>) -> bool { match v { None => false, Some(i) => E::canon(i) } }
        open spec fn spec_enc(v: &Option<T>) -> Seq<u8> { match v { None => Seq::<u8>::empty(), Some(i) => E::spec_enc(i) } }
        open spec fn spec_dec(b: Seq<u8>) -> Option<(Option<T>, int)> {
            match E::spec_dec(b) { None => None, Some((v, k)) => Some((Some(v), k)) }
        }
        open spec fn progresses() -> bool { E::progresses() }
        //@ fn src:zvt_builder/src/encoding.rs | impl Encoding<Option<T>> for E | decode | props=C02,C17 $M
        //@ end
        //@ fn src:zvt_builder/src/encoding.rs | impl Encoding<Option<T>> for E | encode | props=C17,C03 $M
        //@ end
        open spec fn self_delimiting() -> bool { E::self_delimiting() }
        open spec fn dec_rel(b: Seq<u8>, v: &Option<T>, k: int) -> bool { true }
        open spec fn dec_total(b: Seq<u8>) -> bool { false }
        open spec fn dec_stop(rest: Seq<u8>) -> bool { true }
        open spec fn functional() -> bool { E::functional() }
        proof fn law_dec_bounds(b: Seq<u8>) { E::law_dec_bounds(b); }
        //@ tag enc.law_dec_frame.option C14
        proof fn law_dec_frame(b: Seq<u8>, s: Seq<u8>) { E::law_dec_frame(b, s); }
        //@ tag enc.law_inverse.option C01
        proof fn law_inverse(v: &Option<T>) {
            match v { Some(i) => { E::law_inverse(i); } None => { } }
        }
        //@ untag
    }
    /// concatenation of the element encodings
    pub open spec fn vec_blanket_enc<T, E: Encoding<T>>(s: Seq<T>) -> Seq<u8>
        decreases s.len()
    {
        if s.len() == 0 { Seq::<u8>::empty() } else { vec_blanket_enc::<T, E>(s.drop_last()) + E::spec_enc(&s.last()) }
    }
    /// Blanket `Vec<T>` encoding. Unreachable from every shipped packet type (`Vec` fields are (de)serialised by
    /// `ZvtSerializerImpl for Vec<T>`, never through this impl). Verified: the encoder is the concatenation of the element
    /// encodings (N20); the decoder is panic-free and hands back a tail of its input. NOT verified: that the decoder
    /// terminates - it loops while input remains and has no progress guard (finding D5: an element decoder that consumes
    /// nothing would spin) - and what its elements are.
    impl<T, E> Encoding<Vec<T>> for E
    where
        E: Encoding<T>,
    {
        open spec fn enc_ok(v: &Vec<T>) -> bool { forall|i: int| 0 <= i < v@.len() ==> E::enc_ok(&(#[trigger] v@[i])) }
        open spec fn canon(v: &Vec<T>) -> bool { false }
        open spec fn spec_enc(v: &Vec<T>) -> Seq<u8> { vec_blanket_enc::<T, E>(v@) }
        open spec fn spec_dec(b: Seq<u8>) -> Option<(Vec<T>, int)> {
            match vec_blanket_dec::<T, E>(b) { Some((v, k)) => if 0 <= k <= b.len() { Some((v, k)) } else { None }, None => None }
        }
        open spec fn progresses() -> bool { false }
        //@ fn src:zvt_builder/src/encoding.rs | impl Encoding<Vec<T>> for E | encode | all-loops props=C17,C03 $M
        //@ loop 0
                invariant
                    <E as Encoding<Vec<T>>>::enc_ok(input),
                    iter.index@ <= input@.len(),
                    __out@ =~= vec_blanket_enc::<T, E>(input@.take(iter.index@ as int)),
        //@ before let mut__part=
                proof {
                    let i = iter.index@ as int;
                    assert(input@.take(i + 1).drop_last() =~= input@.take(i));
                    assert(input@.take(i + 1).last() == input@[i]);
                }
        //@ tail
                proof { assert(input@.take(input@.len() as int) =~= input@); }
        //@ end
        //@ fn src:zvt_builder/src/encoding.rs | impl Encoding<Vec<T>> for E | decode | all-loops shadowmut props=C02,C14 $M
        //@ loop 0
                invariant
                    is_tail(bytes@, __p_bytes@), crate::frame::tail_base(__p_bytes@),
        //@ entry
            proof { crate::frame::lemma_tail_base(__p_bytes@); }
        //@ attr
        #[verifier::exec_allows_no_decreases_clause]
        //@ end
        open spec fn self_delimiting() -> bool { false }
        open spec fn dec_rel(b: Seq<u8>, v: &Vec<T>, k: int) -> bool { true }
        open spec fn dec_total(b: Seq<u8>) -> bool { false }
        open spec fn dec_stop(rest: Seq<u8>) -> bool { true }
        /// element content and termination are not specified (see above)
        open spec fn functional() -> bool { false }
        proof fn law_dec_bounds(b: Seq<u8>) {}
        proof fn law_dec_frame(b: Seq<u8>, s: Seq<u8>) {}
        proof fn law_inverse(v: &Vec<T>) {}
    }
    pub uninterp spec fn vec_blanket_dec<T, E: Encoding<T>>(b: Seq<u8>) -> Option<(Vec<T>, int)>;

    // ------------------------------------------------------------------ text (external crates: yore CP437, hex)
    // The code-page table and the hex digits themselves are the crates' business (T3, uninterpreted); what IS verified is how
    // zvt_builder uses them: which calls, on which bytes, what is trimmed, what is returned as remainder.
    /// the String with a given text (a Rust String is determined by its text)
    pub uninterp spec fn str_of(t: Seq<char>) -> String;
    /// the tables of yore's code pages, by code-page number (T3: uninterpreted, so two different pages are never provably equal)
    pub uninterp spec fn cp_encodable(page: int, t: Seq<char>) -> bool;
    pub uninterp spec fn cp_raw_enc(page: int, t: Seq<char>) -> Seq<u8>;
    pub uninterp spec fn cp_raw_dec(page: int, b: Seq<u8>) -> Seq<char>;
    pub open spec fn cp437_encodable(t: Seq<char>) -> bool { cp_encodable(437, t) }
    pub open spec fn cp437_raw_enc(t: Seq<char>) -> Seq<u8> { cp_raw_enc(437, t) }
    pub open spec fn cp437_raw_dec(b: Seq<u8>) -> Seq<char> { cp_raw_dec(437, b) }
    pub uninterp spec fn trim_end_spec(t: Seq<char>, c: char) -> Seq<char>;
    /// yore::code_pages::* (the property asks for CP437; the others exist so that a change of code page is decided, not a compile error)
    pub struct CodePage { pub page: u16 }
    pub const CP437: CodePage = CodePage { page: 437 };
    pub const CP737: CodePage = CodePage { page: 737 };
    pub const CP850: CodePage = CodePage { page: 850 };
    pub const CP852: CodePage = CodePage { page: 852 };
    pub const CP855: CodePage = CodePage { page: 855 };
    pub const CP857: CodePage = CodePage { page: 857 };
    pub const CP860: CodePage = CodePage { page: 860 };
    pub const CP861: CodePage = CodePage { page: 861 };
    pub const CP862: CodePage = CodePage { page: 862 };
    pub const CP863: CodePage = CodePage { page: 863 };
    pub const CP864: CodePage = CodePage { page: 864 };
    pub const CP865: CodePage = CodePage { page: 865 };
    pub const CP866: CodePage = CodePage { page: 866 };
    pub const CP869: CodePage = CodePage { page: 869 };
    pub const CP874: CodePage = CodePage { page: 874 };
    pub const CP910: CodePage = CodePage { page: 910 };
    pub const CP1250: CodePage = CodePage { page: 1250 };
    pub const CP1251: CodePage = CodePage { page: 1251 };
    pub const CP1252: CodePage = CodePage { page: 1252 };
    pub const CP1253: CodePage = CodePage { page: 1253 };
    pub const CP1254: CodePage = CodePage { page: 1254 };
    pub const CP1255: CodePage = CodePage { page: 1255 };
    pub const CP1256: CodePage = CodePage { page: 1256 };
    pub const CP1257: CodePage = CodePage { page: 1257 };
    pub const CP1258: CodePage = CodePage { page: 1258 };
    #[verifier::external_body]
    pub struct VCowBytes { _p: u8 }
    #[verifier::external_body]
    pub struct VCowStr { _p: u8 }
    #[verifier::external_body]
    pub struct VStrRef { _p: u8 }
    #[derive(Debug)]
    pub struct VEncodeError;
    #[derive(Debug)]
    pub struct VNever;
    impl CodePage {
        #[verifier::external_body]
        pub fn encode(&self, s: &String) -> (r: core::result::Result<VCowBytes, VEncodeError>)
            ensures r is Ok <==> cp_encodable(self.page as int, s@), r matches Ok(b) ==> b@ == cp_raw_enc(self.page as int, s@),
        { unimplemented!() }
        #[verifier::external_body]
        pub fn decode(&self, b: &[u8]) -> (r: VCowStr) ensures r@ == cp_raw_dec(self.page as int, b@) { unimplemented!() }
    }
    impl VCowBytes {
        pub uninterp spec fn view(&self) -> Seq<u8>;
        /// `Cow<[u8]>` -> `Vec<u8>` (never fails)
        #[verifier::external_body]
        pub fn try_into(self) -> (r: core::result::Result<Vec<u8>, VNever>) ensures r matches Ok(v) && v@ == self@ { unimplemented!() }
    }
    impl VCowStr {
        pub uninterp spec fn view(&self) -> Seq<char>;
        #[verifier::external_body]
        pub fn trim_end_matches(&self, c: char) -> (r: VStrRef) ensures r@ == trim_end_spec(self@, c) { unimplemented!() }
        #[verifier::external_body]
        pub fn to_string(&self) -> (r: String) ensures r == str_of(self@), r@ == self@ { unimplemented!() }
    }
    impl VStrRef {
        pub uninterp spec fn view(&self) -> Seq<char>;
        #[verifier::external_body]
        pub fn to_string(&self) -> (r: String) ensures r == str_of(self@), r@ == self@ { unimplemented!() }
    }
    /// whole field as CP437 text, trailing NUL padding removed
    pub open spec fn cp437_dec(b: Seq<u8>) -> String { str_of(trim_end_spec(cp437_raw_dec(b), 0u8 as char)) }
    /// encodable in CP437 and not ending in NUL
    pub uninterp spec fn cp437_canon(v: &String) -> bool;
    impl Encoding<String> for Default {
        open spec fn enc_ok(v: &String) -> bool { cp437_encodable(v@) }
        open spec fn canon(v: &String) -> bool { cp437_canon(v) }
        open spec fn spec_enc(v: &String) -> Seq<u8> { cp437_raw_enc(v@) }
        /// total; consumes the entire input
        open spec fn spec_dec(b: Seq<u8>) -> Option<(String, int)> { Some((cp437_dec(b), b.len() as int)) }
        open spec fn progresses() -> bool { false }
        //@ fn src:zvt_builder/src/encoding.rs | impl Encoding<String> for Default | encode | props=C17,C03 $M
        //@ end
        //@ fn src:zvt_builder/src/encoding.rs | impl Encoding<String> for Default | decode | props=C02,C17 $M
        //@ end
        open spec fn self_delimiting() -> bool { false }
        open spec fn dec_rel(b: Seq<u8>, v: &String, k: int) -> bool { true }
        open spec fn dec_total(b: Seq<u8>) -> bool { false }
        open spec fn dec_stop(rest: Seq<u8>) -> bool { true }
        open spec fn functional() -> bool { true }
        proof fn law_dec_bounds(b: Seq<u8>) {}
        proof fn law_dec_frame(b: Seq<u8>, s: Seq<u8>) {}
        /// T3: the code page maps back what it maps forth, and trimming does not touch text that does not end in NUL
        #[verifier::external_body]
        proof fn law_inverse(v: &String) {}
    }
    //@ item src:zvt_builder/src/encoding.rs | struct Hex
    pub uninterp spec fn hex_valid(digits: Seq<u8>) -> bool;
    pub uninterp spec fn hex_raw_dec(digits: Seq<u8>) -> Seq<u8>;
    pub uninterp spec fn hex_text(b: Seq<u8>) -> Seq<char>;
    #[derive(Debug)]
    pub struct VHexError;
    /// `<Vec<u8>>::from_hex(digits)` (N9)
    #[verifier::external_body]
    pub fn v_from_hex(digits: &[u8]) -> (r: core::result::Result<Vec<u8>, VHexError>)
        ensures r is Ok <==> hex_valid(digits@), r matches Ok(v) ==> v@ == hex_raw_dec(digits@),
    { unimplemented!() }
    /// `bytes.encode_hex::<String>()` (N9)
    #[verifier::external_body]
    pub fn v_encode_hex(b: &[u8]) -> (r: String) ensures r == str_of(hex_text(b@)), r@ == hex_text(b@) { unimplemented!() }
    pub open spec fn hex_enc(v: &String) -> Seq<u8> { hex_raw_dec(utf8_enc(v)) }
    pub open spec fn hex_dec(b: Seq<u8>) -> String { str_of(hex_text(b)) }
    /// lower-case hex digits, even length
    pub uninterp spec fn hex_canon(v: &String) -> bool;
    impl Encoding<String> for Hex {
        open spec fn enc_ok(v: &String) -> bool { hex_valid(utf8_enc(v)) }
        open spec fn canon(v: &String) -> bool { hex_canon(v) }
        open spec fn spec_enc(v: &String) -> Seq<u8> { hex_enc(v) }
        open spec fn spec_dec(b: Seq<u8>) -> Option<(String, int)> { Some((hex_dec(b), b.len() as int)) }
        open spec fn progresses() -> bool { false }
        //@ fn src:zvt_builder/src/encoding.rs | impl Encoding<String> for Hex | encode | props=C17,C03 $M
        //@ end
        //@ fn src:zvt_builder/src/encoding.rs | impl Encoding<String> for Hex | decode | props=C02,C17 $M
        //@ end
        open spec fn self_delimiting() -> bool { false }
        open spec fn dec_rel(b: Seq<u8>, v: &String, k: int) -> bool { true }
        open spec fn dec_total(b: Seq<u8>) -> bool { false }
        open spec fn dec_stop(rest: Seq<u8>) -> bool { true }
        open spec fn functional() -> bool { true }
        proof fn law_dec_bounds(b: Seq<u8>) {}
        proof fn law_dec_frame(b: Seq<u8>, s: Seq<u8>) {}
        /// T3: hex digits of bytes read back as those bytes
        #[verifier::external_body]
        proof fn law_inverse(v: &String) {}
    }

    // ------------------------------------------------------------------ zvt_serializer_registry! (empty impls inheriting the default bodies)
    impl<L: length::Length, E: encoding::Encoding<u8>, TE: encoding::Encoding<Tag>> ZvtSerializerImpl<L, E, TE> for u8 {
        open spec fn ser_pre(&self, tag: Option<Tag>) -> bool { default_ser_pre::<Self, L, E, TE>(self, tag) }
        open spec fn spec_ser_tagged(&self, tag: Option<Tag>) -> Seq<u8> { default_spec_ser::<Self, L, E, TE>(self, tag) }
        open spec fn deser_pre(tag: Option<Tag>) -> bool { L::wf() }
        open spec fn functional() -> bool { $FUNC }
        open spec fn deser_progresses(tag: Option<Tag>) -> bool { tag is Some && TE::progresses() }
        open spec fn deser_defined(b: Seq<u8>, tag: Option<Tag>) -> bool { default_spec_deser::<Self, L, E, TE>(b, tag) is Some }
        open spec fn deser_ok(b: Seq<u8>, tag: Option<Tag>, v: Self, k: int) -> bool { default_spec_deser::<Self, L, E, TE>(b, tag) == Some((v, k)) }
        //@ fn src:zvt_builder/src/lib.rs | trait ZvtSerializerImpl | serialize_tagged | props=C03,C01 $M
        //@ end
        //@ fn src:zvt_builder/src/lib.rs | trait ZvtSerializerImpl | deserialize_tagged | props=C02,C14 $M
        //@ end
    }
    impl<L: length::Length, E: encoding::Encoding<u16>, TE: encoding::Encoding<Tag>> ZvtSerializerImpl<L, E, TE> for u16 {
        open spec fn ser_pre(&self, tag: Option<Tag>) -> bool { default_ser_pre::<Self, L, E, TE>(self, tag) }
        open spec fn spec_ser_tagged(&self, tag: Option<Tag>) -> Seq<u8> { default_spec_ser::<Self, L, E, TE>(self, tag) }
        open spec fn deser_pre(tag: Option<Tag>) -> bool { L::wf() }
        open spec fn functional() -> bool { $FUNC }
        open spec fn deser_progresses(tag: Option<Tag>) -> bool { tag is Some && TE::progresses() }
        open spec fn deser_defined(b: Seq<u8>, tag: Option<Tag>) -> bool { default_spec_deser::<Self, L, E, TE>(b, tag) is Some }
        open spec fn deser_ok(b: Seq<u8>, tag: Option<Tag>, v: Self, k: int) -> bool { default_spec_deser::<Self, L, E, TE>(b, tag) == Some((v, k)) }
        //@ fn src:zvt_builder/src/lib.rs | trait ZvtSerializerImpl | serialize_tagged | props=C03,C01 $M
        //@ end
        //@ fn src:zvt_builder/src/lib.rs | trait ZvtSerializerImpl | deserialize_tagged | props=C02,C14 $M
        //@ end
    }
    impl<L: length::Length, E: encoding::Encoding<u32>, TE: encoding::Encoding<Tag>> ZvtSerializerImpl<L, E, TE> for u32 {
        open spec fn ser_pre(&self, tag: Option<Tag>) -> bool { default_ser_pre::<Self, L, E, TE>(self, tag) }
        open spec fn spec_ser_tagged(&self, tag: Option<Tag>) -> Seq<u8> { default_spec_ser::<Self, L, E, TE>(self, tag) }
        open spec fn deser_pre(tag: Option<Tag>) -> bool { L::wf() }
        open spec fn functional() -> bool { $FUNC }
        open spec fn deser_progresses(tag: Option<Tag>) -> bool { tag is Some && TE::progresses() }
        open spec fn deser_defined(b: Seq<u8>, tag: Option<Tag>) -> bool { default_spec_deser::<Self, L, E, TE>(b, tag) is Some }
        open spec fn deser_ok(b: Seq<u8>, tag: Option<Tag>, v: Self, k: int) -> bool { default_spec_deser::<Self, L, E, TE>(b, tag) == Some((v, k)) }
        //@ fn src:zvt_builder/src/lib.rs | trait ZvtSerializerImpl | serialize_tagged | props=C03,C01 $M
        //@ end
        //@ fn src:zvt_builder/src/lib.rs | trait ZvtSerializerImpl | deserialize_tagged | props=C02,C14 $M
        //@ end
    }
    impl<L: length::Length, E: encoding::Encoding<u64>, TE: encoding::Encoding<Tag>> ZvtSerializerImpl<L, E, TE> for u64 {
        open spec fn ser_pre(&self, tag: Option<Tag>) -> bool { default_ser_pre::<Self, L, E, TE>(self, tag) }
        open spec fn spec_ser_tagged(&self, tag: Option<Tag>) -> Seq<u8> { default_spec_ser::<Self, L, E, TE>(self, tag) }
        open spec fn deser_pre(tag: Option<Tag>) -> bool { L::wf() }
        open spec fn functional() -> bool { $FUNC }
        open spec fn deser_progresses(tag: Option<Tag>) -> bool { tag is Some && TE::progresses() }
        open spec fn deser_defined(b: Seq<u8>, tag: Option<Tag>) -> bool { default_spec_deser::<Self, L, E, TE>(b, tag) is Some }
        open spec fn deser_ok(b: Seq<u8>, tag: Option<Tag>, v: Self, k: int) -> bool { default_spec_deser::<Self, L, E, TE>(b, tag) == Some((v, k)) }
        //@ fn src:zvt_builder/src/lib.rs | trait ZvtSerializerImpl | serialize_tagged | props=C03,C01 $M
        //@ end
        //@ fn src:zvt_builder/src/lib.rs | trait ZvtSerializerImpl | deserialize_tagged | props=C02,C14 $M
        //@ end
    }
    impl<L: length::Length, E: encoding::Encoding<usize>, TE: encoding::Encoding<Tag>> ZvtSerializerImpl<L, E, TE> for usize {
        open spec fn ser_pre(&self, tag: Option<Tag>) -> bool { default_ser_pre::<Self, L, E, TE>(self, tag) }
        open spec fn spec_ser_tagged(&self, tag: Option<Tag>) -> Seq<u8> { default_spec_ser::<Self, L, E, TE>(self, tag) }
        open spec fn deser_pre(tag: Option<Tag>) -> bool { L::wf() }
        open spec fn functional() -> bool { $FUNC }
        open spec fn deser_progresses(tag: Option<Tag>) -> bool { tag is Some && TE::progresses() }
        open spec fn deser_defined(b: Seq<u8>, tag: Option<Tag>) -> bool { default_spec_deser::<Self, L, E, TE>(b, tag) is Some }
        open spec fn deser_ok(b: Seq<u8>, tag: Option<Tag>, v: Self, k: int) -> bool { default_spec_deser::<Self, L, E, TE>(b, tag) == Some((v, k)) }
        //@ fn src:zvt_builder/src/lib.rs | trait ZvtSerializerImpl | serialize_tagged | props=C03,C01 $M
        //@ end
        //@ fn src:zvt_builder/src/lib.rs | trait ZvtSerializerImpl | deserialize_tagged | props=C02,C14 $M
        //@ end
    }
    impl<L: length::Length, E: encoding::Encoding<String>, TE: encoding::Encoding<Tag>> ZvtSerializerImpl<L, E, TE> for String {
        open spec fn ser_pre(&self, tag: Option<Tag>) -> bool { default_ser_pre::<Self, L, E, TE>(self, tag) }
        open spec fn spec_ser_tagged(&self, tag: Option<Tag>) -> Seq<u8> { default_spec_ser::<Self, L, E, TE>(self, tag) }
        open spec fn deser_pre(tag: Option<Tag>) -> bool { L::wf() }
        open spec fn functional() -> bool { $FUNC }
        open spec fn deser_progresses(tag: Option<Tag>) -> bool { tag is Some && TE::progresses() }
        open spec fn deser_defined(b: Seq<u8>, tag: Option<Tag>) -> bool { default_spec_deser::<Self, L, E, TE>(b, tag) is Some }
        open spec fn deser_ok(b: Seq<u8>, tag: Option<Tag>, v: Self, k: int) -> bool { default_spec_deser::<Self, L, E, TE>(b, tag) == Some((v, k)) }
        //@ fn src:zvt_builder/src/lib.rs | trait ZvtSerializerImpl | serialize_tagged | props=C03,C01 $M
        //@ end
        //@ fn src:zvt_builder/src/lib.rs | trait ZvtSerializerImpl | deserialize_tagged | props=C02,C14 $M
        //@ end
    }

    // ------------------------------------------------------------------ UTF-8 text (receipt printout): String::from_utf8 / as_bytes — trusted, T3
    //@ item src:zvt_builder/src/encoding.rs | struct Utf8
    pub uninterp spec fn utf8_enc(v: &String) -> Seq<u8>;
    pub uninterp spec fn utf8_dec(b: Seq<u8>) -> Option<String>;
    pub assume_specification [String::as_bytes] (s: &String) -> (r: &[u8])
        ensures r@ == utf8_enc(s);
    #[verifier::external_type_specification]
    #[verifier::external_body]
    pub struct ExFromUtf8Error(alloc::string::FromUtf8Error);
    pub assume_specification [String::from_utf8] (v: Vec<u8>) -> (r: core::result::Result<String, alloc::string::FromUtf8Error>)
        ensures r matches Ok(s) ==> utf8_dec(v@) == Some(s), r is Err ==> utf8_dec(v@) is None;
    impl Encoding<String> for Utf8 {
        open spec fn enc_ok(v: &String) -> bool { true }
        open spec fn canon(v: &String) -> bool { true }
        open spec fn spec_enc(v: &String) -> Seq<u8> { utf8_enc(v) }
        /// valid UTF-8 => the text, consuming everything; otherwise an error
        open spec fn spec_dec(b: Seq<u8>) -> Option<(String, int)> { match utf8_dec(b) { Some(s) => Some((s, b.len() as int)), None => None } }
        open spec fn progresses() -> bool { false }
        open spec fn self_delimiting() -> bool { false }
        open spec fn dec_rel(b: Seq<u8>, v: &String, k: int) -> bool { true }
        open spec fn dec_total(b: Seq<u8>) -> bool { false }
        open spec fn dec_stop(rest: Seq<u8>) -> bool { true }
        open spec fn functional() -> bool { true }
        //@ fn src:zvt_builder/src/encoding.rs | impl Encoding<String> for Utf8 | encode | props=C17,C01 $M
        //@ end
        //@ fn src:zvt_builder/src/encoding.rs | impl Encoding<String> for Utf8 | decode | props=C02,C17 $M
        //@ end
        proof fn law_dec_bounds(b: Seq<u8>) {}
        proof fn law_dec_frame(b: Seq<u8>, s: Seq<u8>) {}
        #[verifier::external_body]
        proof fn law_inverse(v: &String) {}
    }

    // ------------------------------------------------------------------ date/time (chrono: external crate, T4)
    // chrono is outside reach. Trusted (T4): a NaiveDateTime with zero sub-second part is determined by its six calendar
    // fields (`dt_of`); the accessors return those fields, in their documented ranges; `from_ymd_opt` / `and_hms_opt` succeed
    // exactly on valid dates / times and build the value with those fields.
    #[verifier::external_body]
    pub struct NaiveDate { _p: u8 }
    #[verifier::external_body]
    pub struct NaiveDateTime { _p: u8 }
    pub uninterp spec fn dt_of(y: int, m: int, d: int, h: int, mi: int, s: int) -> NaiveDateTime;
    impl NaiveDate {
        pub uninterp spec fn ymd_valid(y: int, m: int, d: int) -> bool;
        pub uninterp spec fn s_ymd(&self) -> (int, int, int);
        /// `None` for dates that do not exist
        #[verifier::external_body]
        pub fn from_ymd_opt(year: i32, month: u32, day: u32) -> (r: Option<NaiveDate>)
            ensures
                r is Some <==> Self::ymd_valid(year as int, month as int, day as int),
                r matches Some(nd) ==> nd.s_ymd() == (year as int, month as int, day as int),
        { unimplemented!() }
        #[verifier::external_body]
        pub fn and_hms_opt(&self, hour: u32, min: u32, sec: u32) -> (r: Option<NaiveDateTime>)
            ensures
                r is Some <==> (hour < 24 && min < 60 && sec < 60),
                r matches Some(dt) ==> dt == dt_of(self.s_ymd().0, self.s_ymd().1, self.s_ymd().2, hour as int, min as int, sec as int),
        { unimplemented!() }
    }
    impl NaiveDateTime {
        pub uninterp spec fn s_year(&self) -> int;
        pub uninterp spec fn s_month(&self) -> int;
        pub uninterp spec fn s_day(&self) -> int;
        pub uninterp spec fn s_hour(&self) -> int;
        pub uninterp spec fn s_minute(&self) -> int;
        pub uninterp spec fn s_second(&self) -> int;
        /// no sub-second part: the value is the one its calendar fields determine
        pub open spec fn whole_second(&self) -> bool {
            *self == dt_of(self.s_year(), self.s_month(), self.s_day(), self.s_hour(), self.s_minute(), self.s_second())
        }
        // chrono::Datelike / chrono::Timelike accessors (documented ranges)
        #[verifier::external_body]
        pub fn year(&self) -> (r: i32) ensures r == self.s_year(), -262144 <= r <= 262143 { unimplemented!() }
        #[verifier::external_body]
        pub fn month(&self) -> (r: u32) ensures r == self.s_month(), 1 <= r <= 12 { unimplemented!() }
        #[verifier::external_body]
        pub fn day(&self) -> (r: u32) ensures r == self.s_day(), 1 <= r <= 31 { unimplemented!() }
        #[verifier::external_body]
        pub fn hour(&self) -> (r: u32) ensures r == self.s_hour(), r <= 23 { unimplemented!() }
        #[verifier::external_body]
        pub fn minute(&self) -> (r: u32) ensures r == self.s_minute(), r <= 59 { unimplemented!() }
        #[verifier::external_body]
        pub fn second(&self) -> (r: u32) ensures r == self.s_second(), r <= 59 { unimplemented!() }
    }
    /// T4: every NaiveDateTime is a valid date and time of day (what the accessors' ranges say, at spec level)
    #[verifier::external_body]
    pub proof fn axiom_datetime_fields(v: &NaiveDateTime)
        ensures
            NaiveDate::ymd_valid(v.s_year(), v.s_month(), v.s_day()),
            -262144 <= v.s_year() <= 262143, 1 <= v.s_month() <= 12, 1 <= v.s_day() <= 31,
            0 <= v.s_hour() <= 23, 0 <= v.s_minute() <= 59, 0 <= v.s_second() <= 59,
    {}
    pub open spec fn DATE_TAG() -> u16 { 0x1f0e }
    pub open spec fn TIME_TAG() -> u16 { 0x1f0f }
    /// YYYYMMDD
    pub open spec fn date_num(v: &NaiveDateTime) -> int { v.s_year() * 10000 + v.s_month() * 100 + v.s_day() }
    /// HHMMSS
    pub open spec fn time_num(v: &NaiveDateTime) -> int { v.s_hour() * 10000 + v.s_minute() * 100 + v.s_second() }
    /// the date as BCD number under TLV tag 1f0e, then the time under 1f0f
    pub open spec fn datetime_enc(v: &NaiveDateTime) -> Seq<u8> {
        default_spec_ser::<usize, length::Tlv, Bcd, Default>(&(date_num(v) as usize), Some(Tag(DATE_TAG())))
            + default_spec_ser::<u32, length::Tlv, Bcd, Default>(&(time_num(v) as u32), Some(Tag(TIME_TAG())))
    }
    /// the reader's walk over the two sub-tags in any order: (date, time, tags seen, bytes consumed); None = error
    pub open spec fn dt_walk(b: Seq<u8>, date: usize, time: u32, seen: Set<u16>) -> Option<(usize, u32, Set<u16>, int)>
        decreases b.len(), 1int
    {
        if b.len() == 0 { Some((date, time, seen, 0int)) } else { dt_step(b, date, time, seen) }
    }
    pub open spec fn dt_shift(r: Option<(usize, u32, Set<u16>, int)>, k: int) -> Option<(usize, u32, Set<u16>, int)> {
        match r { None => None, Some((d, t, s, c)) => Some((d, t, s, c + k)) }
    }
    /// one round of the reader's loop on a non-empty input
    #[verifier::opaque]
    pub open spec fn dt_step(b: Seq<u8>, date: usize, time: u32, seen: Set<u16>) -> Option<(usize, u32, Set<u16>, int)>
        decreases b.len(), 0int
    {
        match <Default as Encoding<Tag>>::spec_dec(b) {
            None => None,
            Some((t, _)) =>
                if t.0 == DATE_TAG() {
                    if seen.contains(DATE_TAG()) { None } else {
                        match default_spec_deser::<usize, length::Tlv, Bcd, Default>(b, Some(Tag(DATE_TAG()))) {
                            None => None,
                            Some((v, k)) => if k <= 0 || k > b.len() { None } else { dt_shift(dt_walk(b.skip(k), v, time, seen.insert(DATE_TAG())), k) },
                        }
                    }
                } else if t.0 == TIME_TAG() {
                    if seen.contains(TIME_TAG()) { None } else {
                        match default_spec_deser::<u32, length::Tlv, Bcd, Default>(b, Some(Tag(TIME_TAG()))) {
                            None => None,
                            Some((v, k)) => if k <= 0 || k > b.len() { None } else { dt_shift(dt_walk(b.skip(k), date, v, seen.insert(TIME_TAG())), k) },
                        }
                    }
                } else { Some((date, time, seen, 0int)) },
        }
    }
    pub proof fn lemma_dt_step(b: Seq<u8>, date: usize, time: u32, seen: Set<u16>)
        ensures dt_step(b, date, time, seen) == (match <Default as Encoding<Tag>>::spec_dec(b) {
            None => None,
            Some((t, _)) =>
                if t.0 == DATE_TAG() {
                    if seen.contains(DATE_TAG()) { None } else {
                        match default_spec_deser::<usize, length::Tlv, Bcd, Default>(b, Some(Tag(DATE_TAG()))) {
                            None => None,
                            Some((v, k)) => if k <= 0 || k > b.len() { None } else { dt_shift(dt_walk(b.skip(k), v, time, seen.insert(DATE_TAG())), k) },
                        }
                    }
                } else if t.0 == TIME_TAG() {
                    if seen.contains(TIME_TAG()) { None } else {
                        match default_spec_deser::<u32, length::Tlv, Bcd, Default>(b, Some(Tag(TIME_TAG()))) {
                            None => None,
                            Some((v, k)) => if k <= 0 || k > b.len() { None } else { dt_shift(dt_walk(b.skip(k), date, v, seen.insert(TIME_TAG())), k) },
                        }
                    }
                } else { Some((date, time, seen, 0int)) },
        })
    {
        reveal(dt_step);
    }
    /// the date number the walk delivers fits i32 (every four-digit-year date does): the only inputs on which the decoder's
    /// arithmetic is specified
    pub open spec fn dt_in_range(b: Seq<u8>) -> bool {
        dt_walk(b, 0usize, 0u32, Set::<u16>::empty()) matches Some((date, time, seen, c)) ==> date <= 0x7fff_ffff
    }
    /// both sub-tags exactly once, a date that exists and a time of day that exists
    pub open spec fn datetime_dec(b: Seq<u8>) -> Option<(NaiveDateTime, int)> {
        match dt_walk(b, 0usize, 0u32, Set::<u16>::empty()) {
            None => None,
            Some((date, time, seen, c)) =>
                if !(seen.finite() && seen.len() == 2) { None } else {
                    let y = (date as i32 / 10000) as int;
                    let m = ((date as u32 % 10000) / 100) as int;
                    let d = (date as u32 % 100) as int;
                    let (h, mi, s) = ((time / 10000) as int, ((time % 10000) / 100) as int, (time % 100) as int);
                    if NaiveDate::ymd_valid(y, m, d) && h < 24 && mi < 60 && s < 60 { Some((dt_of(y, m, d, h, mi, s), c)) } else { None }
                },
        }
    }
    impl Encoding<NaiveDateTime> for Default {
        /// four-digit year; the two BCD fields are representable
        open spec fn enc_ok(v: &NaiveDateTime) -> bool {
            &&& 0 <= v.s_year() <= 9999
            &&& default_ser_pre::<usize, length::Tlv, Bcd, Default>(&(date_num(v) as usize), Some(Tag(DATE_TAG())))
            &&& default_ser_pre::<u32, length::Tlv, Bcd, Default>(&(time_num(v) as u32), Some(Tag(TIME_TAG())))
        }
        /// the wire format carries whole seconds only
        open spec fn canon(v: &NaiveDateTime) -> bool { v.whole_second() }
        open spec fn spec_enc(v: &NaiveDateTime) -> Seq<u8> { datetime_enc(v) }
        open spec fn spec_dec(b: Seq<u8>) -> Option<(NaiveDateTime, int)> { datetime_dec(b) }
        open spec fn progresses() -> bool { false }
        open spec fn self_delimiting() -> bool { false }
        /// on inputs whose date number fits i32 the decoder is exactly `datetime_dec` (see `dt_in_range`)
        open spec fn dec_rel(b: Seq<u8>, v: &NaiveDateTime, k: int) -> bool { dt_in_range(b) ==> datetime_dec(b) == Some((*v, k)) }
        open spec fn dec_total(b: Seq<u8>) -> bool { dt_in_range(b) && datetime_dec(b) is Some }
        open spec fn dec_stop(rest: Seq<u8>) -> bool { true }
        /// `spec_dec` is the reference decoder; the code agrees with it on in-range inputs (`dec_rel`, `dec_total`). It is not
        /// claimed beyond: Rust's `/` on a negative i32 (a date number >= 2^31 reinterpreted) has no Verus specification
        open spec fn functional() -> bool { false }
        //@ fn src:zvt_builder/src/encoding.rs | impl Encoding<NaiveDateTime> for Default | encode | props=C17,C03,C01 $M
        //@ entry
            proof { axiom_datetime_fields(input); }
        //@ end
        //@ fn src:zvt_builder/src/encoding.rs | impl Encoding<NaiveDateTime> for Default | decode | all-loops shadowmut also=C17,C01 props=C02,C17,C01 $M
        //@ loop 0
                invariant
                    is_tail(data@, __p_data@),
        //@ tag datetime.walk C17 C01 C13
                    // what is left to do on the rest of the input, from the current state, is what the walk of the whole input does
                    datetime_walk_from(__p_data@, data@, date, time, seen_tags@),
                ensures
                    dt_walk(data@, date, time, seen_tags@) == Some((date, time, seen_tags@, 0int)),
                decreases data@.len(),
        //@ entry
            hide(crate::default_spec_deser);
            proof { assert(__p_data@.skip(0) =~= __p_data@); }
        //@ before lettag:Tag=
            proof { lemma_dt_step(data@, date, time, seen_tags@); }
        //@ end
        proof fn law_dec_bounds(b: Seq<u8>) { lemma_dt_walk_bounds(b, 0usize, 0u32, Set::<u16>::empty()); }
        proof fn law_dec_frame(b: Seq<u8>, s: Seq<u8>) {}
        //@ tag enc.law_inverse.datetime C17 C01
        /// a whole-second date-time with a four-digit year reads back as itself, consuming exactly its encoding
        proof fn law_inverse(v: &NaiveDateTime) {
            lemma_datetime_roundtrip(v);
        }
        //@ untag
    }
    /// a TLV/BCD field written by the reference serialiser, followed by anything: it starts with its tag and reads back
    pub proof fn lemma_field_first<T, E: Encoding<T>>(v: &T, t: Tag, s: Seq<u8>)
        requires
            default_ser_pre::<T, length::Tlv, E, Default>(v, Some(t)),
            E::canon(v),
        ensures
            ({
                let e1 = default_spec_ser::<T, length::Tlv, E, Default>(v, Some(t));
                &&& <Default as Encoding<Tag>>::spec_dec(e1 + s) matches Some((t2, _)) && t2 == t
                &&& default_spec_deser::<T, length::Tlv, E, Default>(e1 + s, Some(t)) == Some((*v, e1.len() as int))
                &&& e1.len() >= 1
            }),
    {
        let enc = E::spec_enc(v);
        let lenb = <length::Tlv as length::Length>::spec_ser(enc.len() as usize);
        let tb = <Default as Encoding<Tag>>::spec_enc(&t);
        let e1 = default_spec_ser::<T, length::Tlv, E, Default>(v, Some(t));
        E::law_inverse(v);
        assert(<length::Tlv as length::Length>::spec_pad(enc.len() as usize) =~= Seq::<u8>::empty());
        assert(Seq::<u8>::empty() + enc =~= enc);
        crate::lemma_tagged_inverse::<T, length::Tlv, E, Default>(v, Some(t), s);
        <Default as Encoding<Tag>>::law_inverse(&t);
        <Default as Encoding<Tag>>::law_dec_frame(tb, lenb + enc + s);
        assert(e1 + s =~= tb + (lenb + enc + s));
        assert(tb.len() >= 1);
    }
    /// YYYYMMDD / HHMMSS split back into the calendar fields
    pub proof fn lemma_date_split(y: int, m: int, d: int, h: int, mi: int, sc: int)
        requires 0 <= y <= 9999, 1 <= m <= 12, 1 <= d <= 31, 0 <= h <= 23, 0 <= mi <= 59, 0 <= sc <= 59,
        ensures
            ({
                let dn = (y * 10000 + m * 100 + d) as usize;
                let tn = (h * 10000 + mi * 100 + sc) as u32;
                &&& dn <= 0x7fff_ffff
                &&& (dn as i32 / 10000) as int == y && ((dn as u32 % 10000) / 100) as int == m && (dn as u32 % 100) as int == d
                &&& (tn / 10000) as int == h && ((tn % 10000) / 100) as int == mi && (tn % 100) as int == sc
            }),
    {}
    pub proof fn lemma_datetime_roundtrip(v: &NaiveDateTime)
        requires <Default as Encoding<NaiveDateTime>>::enc_ok(v), v.whole_second(),
        ensures
            datetime_dec(datetime_enc(v)) == Some((*v, datetime_enc(v).len() as int)),
            dt_in_range(datetime_enc(v)),
    {
        hide(crate::default_spec_deser);
        hide(crate::default_spec_ser);
        axiom_datetime_fields(v);
        lemma_date_split(v.s_year(), v.s_month(), v.s_day(), v.s_hour(), v.s_minute(), v.s_second());
        let dn = date_num(v) as usize;
        let tn = time_num(v) as u32;
        let e1 = default_spec_ser::<usize, length::Tlv, Bcd, Default>(&dn, Some(Tag(DATE_TAG())));
        let e2 = default_spec_ser::<u32, length::Tlv, Bcd, Default>(&tn, Some(Tag(TIME_TAG())));
        let e = e1 + e2;
        let s0 = Set::<u16>::empty();
        let s1 = s0.insert(DATE_TAG());
        let s2 = s1.insert(TIME_TAG());
        lemma_field_first::<usize, Bcd>(&dn, Tag(DATE_TAG()), e2);
        lemma_field_first::<u32, Bcd>(&tn, Tag(TIME_TAG()), Seq::<u8>::empty());
        assert(e2 + Seq::<u8>::empty() =~= e2);
        assert(e.skip(e1.len() as int) =~= e2);
        assert(e2.skip(e2.len() as int) =~= Seq::<u8>::empty());
        lemma_dt_step(e, 0usize, 0u32, s0);
        lemma_dt_step(e2, dn, 0u32, s1);
        assert(dt_walk(Seq::<u8>::empty(), dn, tn, s2) == Some((dn, tn, s2, 0int)));
        assert(dt_walk(e2, dn, 0u32, s1) == Some((dn, tn, s2, e2.len() as int)));
        assert(dt_walk(e, 0usize, 0u32, s0) == Some((dn, tn, s2, (e1.len() + e2.len()) as int)));
        assert(s2.finite() && s2.len() == 2);
        assert(datetime_enc(v) == e);
    }
    pub proof fn lemma_dt_walk_bounds(b: Seq<u8>, date: usize, time: u32, seen: Set<u16>)
        ensures dt_walk(b, date, time, seen) matches Some((d, t, s, c)) ==> 0 <= c <= b.len(),
        decreases b.len(),
    {
        if b.len() > 0 {
            lemma_dt_step(b, date, time, seen);
            match <Default as Encoding<Tag>>::spec_dec(b) {
                None => {},
                Some((t, _)) => {
                    if t.0 == DATE_TAG() {
                        match default_spec_deser::<usize, length::Tlv, Bcd, Default>(b, Some(Tag(DATE_TAG()))) {
                            None => {},
                            Some((v, k)) => { if 0 < k <= b.len() { lemma_dt_walk_bounds(b.skip(k), v, time, seen.insert(DATE_TAG())); } },
                        }
                    } else if t.0 == TIME_TAG() {
                        match default_spec_deser::<u32, length::Tlv, Bcd, Default>(b, Some(Tag(TIME_TAG()))) {
                            None => {},
                            Some((v, k)) => { if 0 < k <= b.len() { lemma_dt_walk_bounds(b.skip(k), date, v, seen.insert(TIME_TAG())); } },
                        }
                    }
                },
            }
        }
    }
    /// loop invariant of the date decoder: walking the rest from the current state completes the walk of the whole input
    pub open spec fn datetime_walk_from(b0: Seq<u8>, rest: Seq<u8>, date: usize, time: u32, seen: Set<u16>) -> bool {
        &&& rest.len() <= b0.len()
        &&& seen.finite()
        &&& dt_walk(b0, 0usize, 0u32, Set::<u16>::empty()) == dt_shift(dt_walk(rest, date, time, seen), b0.len() - rest.len())
    }
    //@ include ../prelude/tagset.rs TAGSET_INSERT=$TSI TAGSET_REMOVE=$TSR
    impl<L: length::Length, E: encoding::Encoding<NaiveDateTime>, TE: encoding::Encoding<Tag>> ZvtSerializerImpl<L, E, TE> for NaiveDateTime {
        open spec fn ser_pre(&self, tag: Option<Tag>) -> bool { default_ser_pre::<Self, L, E, TE>(self, tag) }
        open spec fn spec_ser_tagged(&self, tag: Option<Tag>) -> Seq<u8> { default_spec_ser::<Self, L, E, TE>(self, tag) }
        open spec fn deser_pre(tag: Option<Tag>) -> bool { L::wf() }
        open spec fn functional() -> bool { $FUNC }
        open spec fn deser_progresses(tag: Option<Tag>) -> bool { tag is Some && TE::progresses() }
        open spec fn deser_defined(b: Seq<u8>, tag: Option<Tag>) -> bool { default_spec_deser::<Self, L, E, TE>(b, tag) is Some }
        open spec fn deser_ok(b: Seq<u8>, tag: Option<Tag>, v: Self, k: int) -> bool { default_spec_deser::<Self, L, E, TE>(b, tag) == Some((v, k)) }
        //@ fn src:zvt_builder/src/lib.rs | trait ZvtSerializerImpl | serialize_tagged | props=C03,C01 $M
        //@ end
        //@ fn src:zvt_builder/src/lib.rs | trait ZvtSerializerImpl | deserialize_tagged | props=C02,C14 $M
        //@ end
    }
