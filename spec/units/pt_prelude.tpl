//@ item src:zvt_builder/src/lib.rs | struct Tag | derive=Debug,PartialEq,Eq,Structural
//@ item src:zvt_builder/src/lib.rs | enum ZVTError | derive=Debug
#[derive(Debug)]
pub enum FeigError { Unused }
// N10: one error type; ZVTResult and anyhow::Result are the same alias here
pub type Result<T> = core::result::Result<T, VErr>;
pub type ZVTResult<T> = core::result::Result<T, VErr>;
//@ include ../prelude/transport.rs

// the `encoding::Default: encoding::Encoding<T>` bounds of io.rs are kept; they carry no behaviour here
pub mod encoding {
    pub struct Default;
    pub trait Encoding<T> {}
    impl<T> Encoding<T> for Default {}
}

/// the crate's names as a (changed) body may spell them with their full path
pub mod zvt_builder { pub use super::{ZVTError, ZVTResult, Tag, ZvtParser, ZvtSerializer, encoding}; }

/// Abstract contract of a reply parser (proved per enum in U3)
pub trait ZvtParser: Sized {
    spec fn parse_spec(b: Seq<u8>) -> Option<Self>;
    //@ fn src:zvt_builder/src/lib.rs | trait ZvtParser | zvt_parse | sig
        ensures
            r matches Ok(v) ==> Self::parse_spec(bytes@) == Some(v),
            r is Err ==> Self::parse_spec(bytes@) is None,
    //@ end
}
/// Abstract contract of a packet serialiser (proved in U1/U2)
pub trait ZvtSerializer: Sized {
    spec fn zs_spec(&self) -> Seq<u8>;
    fn zvt_serialize(&self) -> (r: Vec<u8>)
        ensures r@ =~= self.zs_spec();
}
pub mod packets {
    use vstd::prelude::*;
    //@ item src:zvt/src/packets.rs | struct Ack
    impl super::ZvtSerializer for Ack {
        /// 80 00 00
        open spec fn zs_spec(&self) -> Seq<u8> { seq![0x80u8, 0x00u8, 0x00u8] }
        #[verifier::external_body]
        fn zvt_serialize(&self) -> (r: Vec<u8>) { unimplemented!() }
    }
    //@ include $PACKETS EXTRA_TLV=empty.tpl
}
/// the reply enum `io::Ack`: only 80 00 parses
//@ item src:zvt/src/io.rs | enum Ack
impl ZvtParser for Ack {
    uninterp spec fn parse_spec(b: Seq<u8>) -> Option<Self>;
    #[verifier::external_body]
    fn zvt_parse(bytes: &[u8]) -> (r: ZVTResult<Self>) { unimplemented!() }
}

//@ item src:zvt/src/io.rs | struct PacketTransport

