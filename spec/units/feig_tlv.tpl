        pub struct Custom;
        //@ items src:zvt/src/feig/packets/tlv.rs | structs except=Custom
