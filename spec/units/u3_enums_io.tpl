    // ------------------------------------------------------------------ Ack
    //@ item src:zvt/src/io.rs | enum Ack
    impl zvt_builder::ZvtParser for Ack {
        /// a variant is returned only for its own control field, with what its packet type decodes on its own
        open spec fn parse_ok(b: Seq<u8>, v: Self) -> bool {
            match v {
                Self::Ack(x) => b.len() >= 2 && b[0] == 128 && b[1] == 0 && zvt_builder::tid_of(x) == 8 /* packets::Ack */ && zvt_builder::zd_ok_of(b, x),
                // a variant the frozen reply table does not know can never be a correct result
                #[allow(unreachable_patterns)]
                _ => false,
            }
        }
        /// the command's reply set
        open spec fn ctrl_known(c: u8, i: u8) -> bool { (c == 128 && i == 0) }
        /// a packet of the reply set (an APDU has at least its three header bytes) that its own packet type decodes is accepted
        open spec fn parse_defined(b: Seq<u8>) -> bool { b.len() >= 3 && ((b[0] == 128 && b[1] == 0 && <crate::packets::Ack as zvt_builder::ZvtSerializer>::zd_defined(b))) }
        //@ fn exp:zvt | impl zvt_builder::ZvtParser for Ack | zvt_parse | mod=io props=C15,C02
        //@ end
    }
