    // ------------------------------------------------------------------ little endian integers (encode_integral! expansion)
    impl Encoding<u8> for Default {
        open spec fn enc_ok(v: &u8) -> bool { true }
        open spec fn canon(v: &u8) -> bool { true }
        /// 1 byte(s), little endian
        open spec fn spec_enc(v: &u8) -> Seq<u8> { le_seq1(*v as nat) }
        open spec fn spec_dec(b: Seq<u8>) -> Option<(u8, int)> { if b.len() < 1 { None } else { Some((le_val1(b.subrange(0, 1)) as u8, 1)) } }
        open spec fn progresses() -> bool { true }
        //@ fn exp:zvt_builder | impl Encoding<u8> for Default | encode | mod=encoding props=C17,C03 $M
        //@ end
        //@ fn exp:zvt_builder | impl Encoding<u8> for Default | decode | mod=encoding props=C02,C17 $M
        //@ end
        open spec fn self_delimiting() -> bool { true }
        open spec fn dec_rel(b: Seq<u8>, v: &u8, k: int) -> bool { true }
        open spec fn dec_total(b: Seq<u8>) -> bool { false }
        open spec fn dec_stop(rest: Seq<u8>) -> bool { true }
        open spec fn functional() -> bool { true }
        proof fn law_dec_bounds(b: Seq<u8>) {}
        //@ tag enc.law_dec_frame.le.u8 C14
        proof fn law_dec_frame(b: Seq<u8>, s: Seq<u8>) {
            assert((b + s).subrange(0, 1) =~= b.subrange(0, 1));
        }
        //@ tag enc.law_inverse.le.u8 C17 C01
        proof fn law_inverse(v: &u8) {
            lemma_le1_inv(*v as nat);
            assert(le_seq1(*v as nat).subrange(0, 1) =~= le_seq1(*v as nat));
        }
        //@ untag
    }
    impl Encoding<u16> for Default {
        open spec fn enc_ok(v: &u16) -> bool { true }
        open spec fn canon(v: &u16) -> bool { true }
        /// 2 byte(s), little endian
        open spec fn spec_enc(v: &u16) -> Seq<u8> { le_seq2(*v as nat) }
        open spec fn spec_dec(b: Seq<u8>) -> Option<(u16, int)> { if b.len() < 2 { None } else { Some((le_val2(b.subrange(0, 2)) as u16, 2)) } }
        open spec fn progresses() -> bool { true }
        //@ fn exp:zvt_builder | impl Encoding<u16> for Default | encode | mod=encoding props=C17,C03 $M
        //@ end
        //@ fn exp:zvt_builder | impl Encoding<u16> for Default | decode | mod=encoding props=C02,C17 $M
        //@ end
        open spec fn self_delimiting() -> bool { true }
        open spec fn dec_rel(b: Seq<u8>, v: &u16, k: int) -> bool { true }
        open spec fn dec_total(b: Seq<u8>) -> bool { false }
        open spec fn dec_stop(rest: Seq<u8>) -> bool { true }
        open spec fn functional() -> bool { true }
        proof fn law_dec_bounds(b: Seq<u8>) {}
        //@ tag enc.law_dec_frame.le.u16 C14
        proof fn law_dec_frame(b: Seq<u8>, s: Seq<u8>) {
            assert((b + s).subrange(0, 2) =~= b.subrange(0, 2));
        }
        //@ tag enc.law_inverse.le.u16 C17 C01
        proof fn law_inverse(v: &u16) {
            lemma_le2_inv(*v as nat);
            assert(le_seq2(*v as nat).subrange(0, 2) =~= le_seq2(*v as nat));
        }
        //@ untag
    }
    impl Encoding<u32> for Default {
        open spec fn enc_ok(v: &u32) -> bool { true }
        open spec fn canon(v: &u32) -> bool { true }
        /// 4 byte(s), little endian
        open spec fn spec_enc(v: &u32) -> Seq<u8> { le_seq4(*v as nat) }
        open spec fn spec_dec(b: Seq<u8>) -> Option<(u32, int)> { if b.len() < 4 { None } else { Some((le_val4(b.subrange(0, 4)) as u32, 4)) } }
        open spec fn progresses() -> bool { true }
        //@ fn exp:zvt_builder | impl Encoding<u32> for Default | encode | mod=encoding props=C17,C03 $M
        //@ end
        //@ fn exp:zvt_builder | impl Encoding<u32> for Default | decode | mod=encoding props=C02,C17 $M
        //@ end
        open spec fn self_delimiting() -> bool { true }
        open spec fn dec_rel(b: Seq<u8>, v: &u32, k: int) -> bool { true }
        open spec fn dec_total(b: Seq<u8>) -> bool { false }
        open spec fn dec_stop(rest: Seq<u8>) -> bool { true }
        open spec fn functional() -> bool { true }
        proof fn law_dec_bounds(b: Seq<u8>) {}
        //@ tag enc.law_dec_frame.le.u32 C14
        proof fn law_dec_frame(b: Seq<u8>, s: Seq<u8>) {
            assert((b + s).subrange(0, 4) =~= b.subrange(0, 4));
        }
        //@ tag enc.law_inverse.le.u32 C17 C01
        proof fn law_inverse(v: &u32) {
            lemma_le4_inv(*v as nat);
            assert(le_seq4(*v as nat).subrange(0, 4) =~= le_seq4(*v as nat));
        }
        //@ untag
    }
    impl Encoding<u64> for Default {
        open spec fn enc_ok(v: &u64) -> bool { true }
        open spec fn canon(v: &u64) -> bool { true }
        /// 8 byte(s), little endian
        open spec fn spec_enc(v: &u64) -> Seq<u8> { le_seq8(*v as nat) }
        open spec fn spec_dec(b: Seq<u8>) -> Option<(u64, int)> { if b.len() < 8 { None } else { Some((le_val8(b.subrange(0, 8)) as u64, 8)) } }
        open spec fn progresses() -> bool { true }
        //@ fn exp:zvt_builder | impl Encoding<u64> for Default | encode | mod=encoding props=C17,C03 $M
        //@ end
        //@ fn exp:zvt_builder | impl Encoding<u64> for Default | decode | mod=encoding props=C02,C17 $M
        //@ end
        open spec fn self_delimiting() -> bool { true }
        open spec fn dec_rel(b: Seq<u8>, v: &u64, k: int) -> bool { true }
        open spec fn dec_total(b: Seq<u8>) -> bool { false }
        open spec fn dec_stop(rest: Seq<u8>) -> bool { true }
        open spec fn functional() -> bool { true }
        proof fn law_dec_bounds(b: Seq<u8>) {}
        //@ tag enc.law_dec_frame.le.u64 C14
        proof fn law_dec_frame(b: Seq<u8>, s: Seq<u8>) {
            assert((b + s).subrange(0, 8) =~= b.subrange(0, 8));
        }
        //@ tag enc.law_inverse.le.u64 C17 C01
        proof fn law_inverse(v: &u64) {
            lemma_le8_inv(*v as nat);
            assert(le_seq8(*v as nat).subrange(0, 8) =~= le_seq8(*v as nat));
        }
        //@ untag
    }
    impl Encoding<usize> for Default {
        open spec fn enc_ok(v: &usize) -> bool { true }
        open spec fn canon(v: &usize) -> bool { true }
        /// 8 byte(s), little endian
        open spec fn spec_enc(v: &usize) -> Seq<u8> { le_seq8(*v as nat) }
        open spec fn spec_dec(b: Seq<u8>) -> Option<(usize, int)> { if b.len() < 8 { None } else { Some((le_val8(b.subrange(0, 8)) as usize, 8)) } }
        open spec fn progresses() -> bool { true }
        //@ fn exp:zvt_builder | impl Encoding<usize> for Default | encode | mod=encoding props=C17,C03 $M
        //@ end
        //@ fn exp:zvt_builder | impl Encoding<usize> for Default | decode | mod=encoding props=C02,C17 $M
        //@ end
        open spec fn self_delimiting() -> bool { true }
        open spec fn dec_rel(b: Seq<u8>, v: &usize, k: int) -> bool { true }
        open spec fn dec_total(b: Seq<u8>) -> bool { false }
        open spec fn dec_stop(rest: Seq<u8>) -> bool { true }
        open spec fn functional() -> bool { true }
        proof fn law_dec_bounds(b: Seq<u8>) {}
        //@ tag enc.law_dec_frame.le.usize C14
        proof fn law_dec_frame(b: Seq<u8>, s: Seq<u8>) {
            assert((b + s).subrange(0, 8) =~= b.subrange(0, 8));
        }
        //@ tag enc.law_inverse.le.usize C17 C01
        proof fn law_inverse(v: &usize) {
            lemma_le8_inv(*v as nat);
            assert(le_seq8(*v as nat).subrange(0, 8) =~= le_seq8(*v as nat));
        }
        //@ untag
    }
    // ------------------------------------------------------------------ big endian integers (encode_integral! expansion)
    impl Encoding<u8> for BigEndian {
        open spec fn enc_ok(v: &u8) -> bool { true }
        open spec fn canon(v: &u8) -> bool { true }
        /// 1 byte(s), big endian
        open spec fn spec_enc(v: &u8) -> Seq<u8> { be_seq1(*v as nat) }
        open spec fn spec_dec(b: Seq<u8>) -> Option<(u8, int)> { if b.len() < 1 { None } else { Some((be_val1(b.subrange(0, 1)) as u8, 1)) } }
        open spec fn progresses() -> bool { true }
        //@ fn exp:zvt_builder | impl Encoding<u8> for BigEndian | encode | mod=encoding props=C17,C03 $M
        //@ end
        //@ fn exp:zvt_builder | impl Encoding<u8> for BigEndian | decode | mod=encoding props=C02,C17 $M
        //@ end
        open spec fn self_delimiting() -> bool { true }
        open spec fn dec_rel(b: Seq<u8>, v: &u8, k: int) -> bool { true }
        open spec fn dec_total(b: Seq<u8>) -> bool { false }
        open spec fn dec_stop(rest: Seq<u8>) -> bool { true }
        open spec fn functional() -> bool { true }
        proof fn law_dec_bounds(b: Seq<u8>) {}
        //@ tag enc.law_dec_frame.be.u8 C14
        proof fn law_dec_frame(b: Seq<u8>, s: Seq<u8>) {
            assert((b + s).subrange(0, 1) =~= b.subrange(0, 1));
        }
        //@ tag enc.law_inverse.be.u8 C17 C01
        proof fn law_inverse(v: &u8) {
            lemma_be1_inv(*v as nat);
            assert(be_seq1(*v as nat).subrange(0, 1) =~= be_seq1(*v as nat));
        }
        //@ untag
    }
    impl Encoding<u16> for BigEndian {
        open spec fn enc_ok(v: &u16) -> bool { true }
        open spec fn canon(v: &u16) -> bool { true }
        /// 2 byte(s), big endian
        open spec fn spec_enc(v: &u16) -> Seq<u8> { be_seq2(*v as nat) }
        open spec fn spec_dec(b: Seq<u8>) -> Option<(u16, int)> { if b.len() < 2 { None } else { Some((be_val2(b.subrange(0, 2)) as u16, 2)) } }
        open spec fn progresses() -> bool { true }
        //@ fn exp:zvt_builder | impl Encoding<u16> for BigEndian | encode | mod=encoding props=C17,C03 $M
        //@ end
        //@ fn exp:zvt_builder | impl Encoding<u16> for BigEndian | decode | mod=encoding props=C02,C17 $M
        //@ end
        open spec fn self_delimiting() -> bool { true }
        open spec fn dec_rel(b: Seq<u8>, v: &u16, k: int) -> bool { true }
        open spec fn dec_total(b: Seq<u8>) -> bool { false }
        open spec fn dec_stop(rest: Seq<u8>) -> bool { true }
        open spec fn functional() -> bool { true }
        proof fn law_dec_bounds(b: Seq<u8>) {}
        //@ tag enc.law_dec_frame.be.u16 C14
        proof fn law_dec_frame(b: Seq<u8>, s: Seq<u8>) {
            assert((b + s).subrange(0, 2) =~= b.subrange(0, 2));
        }
        //@ tag enc.law_inverse.be.u16 C17 C01
        proof fn law_inverse(v: &u16) {
            lemma_be2_inv(*v as nat);
            assert(be_seq2(*v as nat).subrange(0, 2) =~= be_seq2(*v as nat));
        }
        //@ untag
    }
    impl Encoding<u32> for BigEndian {
        open spec fn enc_ok(v: &u32) -> bool { true }
        open spec fn canon(v: &u32) -> bool { true }
        /// 4 byte(s), big endian
        open spec fn spec_enc(v: &u32) -> Seq<u8> { be_seq4(*v as nat) }
        open spec fn spec_dec(b: Seq<u8>) -> Option<(u32, int)> { if b.len() < 4 { None } else { Some((be_val4(b.subrange(0, 4)) as u32, 4)) } }
        open spec fn progresses() -> bool { true }
        //@ fn exp:zvt_builder | impl Encoding<u32> for BigEndian | encode | mod=encoding props=C17,C03 $M
        //@ end
        //@ fn exp:zvt_builder | impl Encoding<u32> for BigEndian | decode | mod=encoding props=C02,C17 $M
        //@ end
        open spec fn self_delimiting() -> bool { true }
        open spec fn dec_rel(b: Seq<u8>, v: &u32, k: int) -> bool { true }
        open spec fn dec_total(b: Seq<u8>) -> bool { false }
        open spec fn dec_stop(rest: Seq<u8>) -> bool { true }
        open spec fn functional() -> bool { true }
        proof fn law_dec_bounds(b: Seq<u8>) {}
        //@ tag enc.law_dec_frame.be.u32 C14
        proof fn law_dec_frame(b: Seq<u8>, s: Seq<u8>) {
            assert((b + s).subrange(0, 4) =~= b.subrange(0, 4));
        }
        //@ tag enc.law_inverse.be.u32 C17 C01
        proof fn law_inverse(v: &u32) {
            lemma_be4_inv(*v as nat);
            assert(be_seq4(*v as nat).subrange(0, 4) =~= be_seq4(*v as nat));
        }
        //@ untag
    }
    impl Encoding<u64> for BigEndian {
        open spec fn enc_ok(v: &u64) -> bool { true }
        open spec fn canon(v: &u64) -> bool { true }
        /// 8 byte(s), big endian
        open spec fn spec_enc(v: &u64) -> Seq<u8> { be_seq8(*v as nat) }
        open spec fn spec_dec(b: Seq<u8>) -> Option<(u64, int)> { if b.len() < 8 { None } else { Some((be_val8(b.subrange(0, 8)) as u64, 8)) } }
        open spec fn progresses() -> bool { true }
        //@ fn exp:zvt_builder | impl Encoding<u64> for BigEndian | encode | mod=encoding props=C17,C03 $M
        //@ end
        //@ fn exp:zvt_builder | impl Encoding<u64> for BigEndian | decode | mod=encoding props=C02,C17 $M
        //@ end
        open spec fn self_delimiting() -> bool { true }
        open spec fn dec_rel(b: Seq<u8>, v: &u64, k: int) -> bool { true }
        open spec fn dec_total(b: Seq<u8>) -> bool { false }
        open spec fn dec_stop(rest: Seq<u8>) -> bool { true }
        open spec fn functional() -> bool { true }
        proof fn law_dec_bounds(b: Seq<u8>) {}
        //@ tag enc.law_dec_frame.be.u64 C14
        proof fn law_dec_frame(b: Seq<u8>, s: Seq<u8>) {
            assert((b + s).subrange(0, 8) =~= b.subrange(0, 8));
        }
        //@ tag enc.law_inverse.be.u64 C17 C01
        proof fn law_inverse(v: &u64) {
            lemma_be8_inv(*v as nat);
            assert(be_seq8(*v as nat).subrange(0, 8) =~= be_seq8(*v as nat));
        }
        //@ untag
    }
    impl Encoding<usize> for BigEndian {
        open spec fn enc_ok(v: &usize) -> bool { true }
        open spec fn canon(v: &usize) -> bool { true }
        /// 8 byte(s), big endian
        open spec fn spec_enc(v: &usize) -> Seq<u8> { be_seq8(*v as nat) }
        open spec fn spec_dec(b: Seq<u8>) -> Option<(usize, int)> { if b.len() < 8 { None } else { Some((be_val8(b.subrange(0, 8)) as usize, 8)) } }
        open spec fn progresses() -> bool { true }
        //@ fn exp:zvt_builder | impl Encoding<usize> for BigEndian | encode | mod=encoding props=C17,C03 $M
        //@ end
        //@ fn exp:zvt_builder | impl Encoding<usize> for BigEndian | decode | mod=encoding props=C02,C17 $M
        //@ end
        open spec fn self_delimiting() -> bool { true }
        open spec fn dec_rel(b: Seq<u8>, v: &usize, k: int) -> bool { true }
        open spec fn dec_total(b: Seq<u8>) -> bool { false }
        open spec fn dec_stop(rest: Seq<u8>) -> bool { true }
        open spec fn functional() -> bool { true }
        proof fn law_dec_bounds(b: Seq<u8>) {}
        //@ tag enc.law_dec_frame.be.usize C14
        proof fn law_dec_frame(b: Seq<u8>, s: Seq<u8>) {
            assert((b + s).subrange(0, 8) =~= b.subrange(0, 8));
        }
        //@ tag enc.law_inverse.be.usize C17 C01
        proof fn law_inverse(v: &usize) {
            lemma_be8_inv(*v as nat);
            assert(be_seq8(*v as nat).subrange(0, 8) =~= be_seq8(*v as nat));
        }
        //@ untag
    }
