    // control-field constants: rustc's expansion of #[zvt_control_field]. Verus exposes the value of an
    // associated const only inside the module of its impl, hence the impls are placed next to their users.
    //@ item exp:zvt | impl zvt_builder::ZvtCommand for Ack | mod=packets selfty=crate::packets::Ack
