//@ item src:zvt_feig_terminal/src/feig.rs | enum CardInfo
//@ item src:zvt_feig_terminal/src/feig.rs | struct TransactionSummary
// every module-level constant of feig.rs (a changed body may name a new one)
//@ items src:zvt_feig_terminal/src/feig.rs | consts
//@ item src:zvt_feig_terminal/src/feig.rs | struct Feig

use sequences::{PartialReversalResponse, EndOfDayResponse, AuthorizationResponse, ReadCardResponse};

// ------------------------------------------------------------------ reference semantics: how a reply stream decides an operation
// Items are taken in order; transport/codec error items are skipped (the reconnecting stream retries underneath).
pub open spec fn incomplete() -> VErr { VErr::Zvt(ZVTError::IncompleteData) }
pub open spec fn aborted(c: u8) -> VErr { VErr::Zvt(ZVTError::Aborted(c)) }

/// pre-authorisation reversal: completion => done; abort c => Aborted(c); nothing decisive => IncompleteData
pub open spec fn cancel_fold(items: Seq<Result<PartialReversalResponse>>) -> Result<()>
    decreases items.len()
{
    if items.len() == 0 { Err(incomplete()) } else {
        match items[0] {
            Ok(PartialReversalResponse::CompletionData(_)) => Ok(()),
            Ok(PartialReversalResponse::PartialReversalAbort(data)) => Err(aborted(data.error)),
            _ => cancel_fold(items.skip(1)),
        }
    }
}
/// pending query (partial reversal of receipt FFFF): the 06 1E reply carries the dangling receipt number, FFFF/absent = none
pub open spec fn pending_fold(items: Seq<Result<PartialReversalResponse>>) -> Result<Seq<usize>>
    decreases items.len()
{
    if items.len() == 0 { Err(incomplete()) } else {
        match items[0] {
            Err(_) => pending_fold(items.skip(1)),
            Ok(PartialReversalResponse::PartialReversalAbort(data)) => Ok(match data.receipt_no {
                None => Seq::<usize>::empty(),
                Some(r) => if r == 0xFFFF { Seq::<usize>::empty() } else { seq![r] },
            }),
            Ok(_) => Err(VErr::Feig(Error::UnexpectedPacket)),
        }
    }
}
/// end-of-day: completion => done; abort A0 'receiver not ready' tolerated; any other abort c => Aborted(c)
pub open spec fn eod_fold(items: Seq<Result<EndOfDayResponse>>) -> Result<()>
    decreases items.len()
{
    if items.len() == 0 { Err(incomplete()) } else {
        match items[0] {
            Ok(EndOfDayResponse::CompletionData(_)) => Ok(()),
            Ok(EndOfDayResponse::Abort(data)) => if data.error == 0xa0 { Ok(()) } else { Err(aborted(data.error)) },
            _ => eod_fold(items.skip(1)),
        }
    }
}
/// reservation: the last receipt number reported before the stream ends; abort FC 'device missing' => NeedsPinEntry,
/// unknown code => error naming the code, any other abort c => Aborted(c)
pub open spec fn begin_fold(items: Seq<Result<AuthorizationResponse>>, rn: Option<usize>) -> Result<Option<usize>>
    decreases items.len()
{
    if items.len() == 0 { Ok(rn) } else {
        match items[0] {
            Ok(AuthorizationResponse::Abort(data)) => Err(match constants::em_from_u8(data.error) {
                None => VErr::Msg(ID_UNKNOWN_ERROR_CODE()),
                Some(constants::ErrorMessages::NecessaryDeviceNotPresentOrDefective) => VErr::Feig(Error::NeedsPinEntry),
                Some(_) => aborted(data.error),
            }),
            Ok(AuthorizationResponse::StatusInformation(data)) => begin_fold(items.skip(1), if data.receipt_no is Some { data.receipt_no } else { rn }),
            _ => begin_fold(items.skip(1), rn),
        }
    }
}
/// the receipt number a reservation stream reports: the last status information that carries one (everything else is skipped)
pub open spec fn last_receipt(items: Seq<Result<AuthorizationResponse>>, rn: Option<usize>) -> Option<usize>
    decreases items.len()
{
    if items.len() == 0 { rn } else {
        match items[0] {
            Ok(AuthorizationResponse::StatusInformation(data)) => last_receipt(items.skip(1), if data.receipt_no is Some { data.receipt_no } else { rn }),
            _ => last_receipt(items.skip(1), rn),
        }
    }
}
/// the status information a commit stream reports: the last one (everything else is skipped)
pub open spec fn last_status(items: Seq<Result<PartialReversalResponse>>, si: Option<packets::StatusInformation>) -> Option<packets::StatusInformation>
    decreases items.len()
{
    if items.len() == 0 { si } else {
        match items[0] {
            Ok(PartialReversalResponse::StatusInformation(data)) => last_status(items.skip(1), Some(data)),
            _ => last_status(items.skip(1), si),
        }
    }
}
/// commit: abort c => Aborted(c); otherwise the last status information of the whole stream
pub open spec fn commit_fold(items: Seq<Result<PartialReversalResponse>>, si: Option<packets::StatusInformation>) -> Result<Option<packets::StatusInformation>>
    decreases items.len()
{
    if items.len() == 0 { Ok(si) } else {
        match items[0] {
            Ok(PartialReversalResponse::PartialReversalAbort(data)) => Err(aborted(data.error)),
            Ok(PartialReversalResponse::StatusInformation(data)) => commit_fold(items.skip(1), Some(data)),
            _ => commit_fold(items.skip(1), si),
        }
    }
}

// ---- C20: the result code of a terminal abort that reaches the operation (no transport/codec error item and no other
// decisive packet before it). These scanners are deliberately weaker than the fold functions: they say nothing about
// how error items are treated, only what an abort that IS received must lead to.
pub open spec fn pr_clean_abort(items: Seq<Result<PartialReversalResponse>>, completion_decides: bool) -> Option<u8>
    decreases items.len()
{
    if items.len() == 0 { None } else {
        match items[0] {
            Err(_) => None,
            Ok(PartialReversalResponse::PartialReversalAbort(a)) => Some(a.error),
            Ok(PartialReversalResponse::CompletionData(_)) => if completion_decides { None } else { pr_clean_abort(items.skip(1), completion_decides) },
            Ok(_) => pr_clean_abort(items.skip(1), completion_decides),
        }
    }
}
pub open spec fn eod_clean_abort(items: Seq<Result<EndOfDayResponse>>) -> Option<u8>
    decreases items.len()
{
    if items.len() == 0 { None } else {
        match items[0] {
            Err(_) => None,
            Ok(EndOfDayResponse::Abort(a)) => Some(a.error),
            Ok(EndOfDayResponse::CompletionData(_)) => None,
            Ok(_) => eod_clean_abort(items.skip(1)),
        }
    }
}
pub open spec fn auth_clean_abort(items: Seq<Result<AuthorizationResponse>>) -> Option<u8>
    decreases items.len()
{
    if items.len() == 0 { None } else {
        match items[0] {
            Err(_) => None,
            Ok(AuthorizationResponse::Abort(a)) => Some(a.error),
            Ok(_) => auth_clean_abort(items.skip(1)),
        }
    }
}
pub open spec fn sysinfo_clean_abort(items: Seq<Result<feig::sequences::GetSystemInfoResponse>>) -> Option<u8> {
    if items.len() == 0 { None } else { match items[0] { Ok(feig::sequences::GetSystemInfoResponse::Abort(p)) => Some(p.error), _ => None } }
}
pub open spec fn init_clean_abort(items: Seq<Result<sequences::InitializationResponse>>) -> Option<u8>
    decreases items.len()
{
    if items.len() == 0 { None } else {
        match items[0] {
            Err(_) => None,
            Ok(sequences::InitializationResponse::Abort(a)) => Some(a.error),
            Ok(sequences::InitializationResponse::CompletionData(_)) => None,
            Ok(_) => init_clean_abort(items.skip(1)),
        }
    }
}
pub open spec fn settid_clean_abort(items: Seq<Result<sequences::SetTerminalIdResponse>>) -> Option<u8> {
    if items.len() == 0 { None } else { match items[0] { Ok(sequences::SetTerminalIdResponse::Abort(a)) => Some(a.error), _ => None } }
}
/// reservation: FC 'device missing' means a PIN is required; an unknown code is reported by number; any other code c is Aborted(c)
pub open spec fn begin_abort_err(c: u8) -> VErr {
    match constants::em_from_u8(c) {
        None => VErr::Msg(ID_UNKNOWN_ERROR_CODE()),
        Some(constants::ErrorMessages::NecessaryDeviceNotPresentOrDefective) => VErr::Feig(Error::NeedsPinEntry),
        Some(_) => aborted(c),
    }
}

/// FNV-1a ids of the format strings (computed by the extractor; N9)
pub open spec fn ID_UNKNOWN_ERROR_CODE() -> u64 { @FMTID("Unknown error code: 0x{:X}") }

// ---- the requests the client is supposed to send (C08, C19) ----
// Request contents are pinned only as far as the property statements go (C07: that token's receipt number; C08: configured
// amount and currency, released amount, reference token; C19: the dangling-pre-authorisation query, the reversal of the receipt
// it reports). Protocol constants the statements do not mention (payment type 0x40, the "AC" prefix, unused optional fields,
// the end-of-day password) are deliberately NOT part of the contracts: changing them breaks none of the listed properties.
/// the query for a dangling pre-authorisation: partial reversal of the pseudo receipt FFFF (ZVT 2.10.1)
pub open spec fn pending_query(r: packets::PartialReversal) -> bool {
    r.receipt_no == Some(0xFFFFusize)
}
pub open spec fn reversal_req(r: packets::PreAuthReversal, cfg: Config, receipt_no: usize) -> bool {
    r.receipt_no == Some(receipt_no)
}
pub open spec fn eod_req(r: packets::EndOfDay, cfg: Config) -> bool { true }
/// the caller's token travels as the individual reference of the reservation
pub open spec fn bmp60_ok(t: Option<packets::tlv::PreAuthData>, token: Seq<char>) -> bool {
    t matches Some(d) && d.bmp_data matches Some(b) && b.bmp_data@ == token
}
pub open spec fn reservation_req(r: packets::Reservation, cfg: Config, token: Seq<char>) -> bool {
    &&& r.amount == Some(cfg.feig_config.pre_authorization_amount)
    &&& r.currency == Some(cfg.feig_config.currency)
    &&& bmp60_ok(r.tlv, token)
}
/// release exactly the unused part: pre-authorised minus final amount, zero when the final amount is larger
pub open spec fn release_amount(pre: usize, final_amount: u64) -> usize {
    if final_amount as int >= pre as int { 0usize } else { (pre as int - final_amount as int) as usize }
}
pub open spec fn commit_req(r: packets::PartialReversal, cfg: Config, token: Seq<char>, final_amount: u64) -> bool {
    &&& r.currency == Some(cfg.feig_config.currency)
    &&& r.amount == Some(release_amount(cfg.feig_config.pre_authorization_amount, final_amount))
    &&& bmp60_ok(r.tlv, token)
}


// ---- shapes of the ghost log suffix an operation may leave ----
pub open spec fn extends(new: Seq<Exch>, old: Seq<Exch>) -> bool {
    new.len() >= old.len() && new.take(old.len() as int) =~= old
}
/// clean-up when going idle: ask for a dangling pre-authorisation, reverse the one it reports (C19)
pub open spec fn cp_shape(exs: Seq<Exch>, cfg: Config) -> bool {
    &&& exs.len() >= 1
    &&& exs[0].req matches Req::PartialReversal(q) && pending_query(q)
    &&& exs[0].items matches AnyItems::PartialReversal(its_a) && (match pending_fold(its_a) {
            Err(e) => exs.len() == 1,
            Ok(v) => if v.len() == 0 { exs.len() == 1 } else {
                &&& exs.len() == 2
                &&& exs[1].req matches Req::PreAuthReversal(q2) && reversal_req(q2, cfg, v[0])
                &&& exs[1].items is PreAuthReversal
            },
        })
}
pub open spec fn cp_result(exs: Seq<Exch>) -> Result<()> {
    match exs[0].items {
        AnyItems::PartialReversal(its_a) => match pending_fold(its_a) {
            Err(e) => Err(e),
            Ok(v) => if v.len() == 0 { Ok(()) } else {
                match exs[1].items { AnyItems::PreAuthReversal(its_b) => cancel_fold(its_b), _ => Ok(()) }
            },
        },
        _ => Ok(()),
    }
}
/// number of exchanges the clean-up part consists of: the pending query, plus the reversal when it reported one
pub open spec fn cp_len(exs: Seq<Exch>) -> int {
    if exs.len() >= 1 && (exs[0].items matches AnyItems::PartialReversal(its_a) && pending_fold(its_a) matches Ok(v) && v.len() > 0) { 2 } else { 1 }
}
/// ... and then end-of-day with the configured password, unless the clean-up failed (C19)
pub open spec fn eod_shape(exs: Seq<Exch>, cfg: Config) -> bool {
    let n = cp_len(exs);
    &&& n <= exs.len()
    &&& cp_shape(exs.take(n), cfg)
    &&& if cp_result(exs.take(n)) is Err { exs.len() == n } else {
            &&& exs.len() == n + 1
            &&& exs[n].req matches Req::EndOfDay(q) && eod_req(q, cfg)
            &&& exs[n].items is EndOfDay
        }
}
pub open spec fn eod_result(exs: Seq<Exch>) -> Result<()> {
    let n = cp_len(exs);
    if cp_result(exs.take(n)) is Err { cp_result(exs.take(n)) } else {
        match exs[n].items { AnyItems::EndOfDay(its_c) => eod_fold(its_c), _ => Ok(()) }
    }
}

pub open spec fn begin_refused(c: &Feig, token: Seq<char>) -> bool {
    c.transactions@.len() == c.transactions_max_num || c.transactions@.contains_key(token)
}
pub open spec fn same_client(a: &Feig, b: &Feig) -> bool {
    a.transactions@ == b.transactions@ && a.transactions_max_num == b.transactions_max_num && a.socket.cfg() == b.socket.cfg()
}
pub open spec fn one_more(new: Seq<Exch>, old: Seq<Exch>) -> bool { new.len() == old.len() + 1 && extends(new, old) }

impl Feig {
    //@ fn src:zvt_feig_terminal/src/feig.rs | impl Feig | cancel_transaction_by_receipt_no | all-loops nexton=self.socket props=~C19,~C20
        ensures
    //@ tag cancel_transaction_by_receipt_no.no_failed_connection_kept C09
            clean(old(self)) ==> clean(final(self)),
    //@ tag cancel_by_receipt.state ~C19 ~C20 ~C07
            same_client(final(self), old(self)),
            one_more(final(self).socket.log(), old(self).socket.log()),
    //@ tag cancel_by_receipt.request C19 C08
            final(self).socket.log().last().req matches Req::PreAuthReversal(q) && reversal_req(q, old(self).socket.cfg(), receipt_no),
    //@ tag cancel_by_receipt.result ~C19 ~C20
            final(self).socket.log().last().items matches AnyItems::PreAuthReversal(its) && r == cancel_fold(its),
    //@ tag cancel_by_receipt.abort_surfaces C20
            final(self).socket.log().last().items matches AnyItems::PreAuthReversal(its) && (pr_clean_abort(its, true) matches Some(c) ==> r == Result::<()>::Err(aborted(c))),
    //@ loop 0
            invariant
                same_client(self, old(self)),
                one_more(self.socket.log(), old(self).socket.log()),
                self.socket.log().last().req matches Req::PreAuthReversal(q) && reversal_req(q, old(self).socket.cfg(), receipt_no),
                self.socket.log().last().items matches AnyItems::PreAuthReversal(its) && cancel_fold(stream.rest()) == cancel_fold(its),
    //@ tag cancel_by_receipt.inv.abort C20
                self.socket.log().last().items matches AnyItems::PreAuthReversal(its) && (pr_clean_abort(its, true) matches Some(c) ==> pr_clean_abort(stream.rest(), true) == Some(c)),
    //@ tag cancel_transaction_by_receipt_no.inv.clean C09
                clean(old(self)) ==> !self.socket.reused_bad(),
    //@ tag cancel_transaction_by_receipt_no.loop.exit ~C09 ~C19 ~C20 ~C07 ~C08 ~C10 ~C18
            ensures stream.rest().len() == 0, !self.socket.pending_drop(),
    //@ attr
    #[verifier::exec_allows_no_decreases_clause]
    //@ end

    //@ fn src:zvt_feig_terminal/src/feig.rs | impl Feig | get_pending | all-loops nexton=self.socket props=C19
    //@ tag get_pending C19
        ensures
    //@ tag get_pending.no_failed_connection_kept C09
            clean(old(self)) ==> clean(final(self)),
    //@ tag get_pending C19
            same_client(final(self), old(self)),
            one_more(final(self).socket.log(), old(self).socket.log()),
            final(self).socket.log().last().req matches Req::PartialReversal(q) && pending_query(q),
            final(self).socket.log().last().items matches AnyItems::PartialReversal(its) && (match pending_fold(its) {
                Err(e) => r == Result::<Vec<usize>>::Err(e),
                Ok(v) => r matches Ok(rv) && rv@ == v,
            }),
            r matches Ok(rv) ==> rv@.len() <= 1,
    //@ loop 0
            invariant
                same_client(self, old(self)),
                one_more(self.socket.log(), old(self).socket.log()),
                self.socket.log().last().req matches Req::PartialReversal(q) && pending_query(q),
                self.socket.log().last().items matches AnyItems::PartialReversal(its) && pending_fold(stream.rest()) == pending_fold(its),
    //@ tag get_pending.inv.clean C09
                clean(old(self)) ==> !self.socket.reused_bad(),
    //@ tag get_pending.loop.exit ~C09 ~C19 ~C20 ~C07 ~C08 ~C10 ~C18
            ensures stream.rest().len() == 0, !self.socket.pending_drop(),
    //@ attr
    #[verifier::exec_allows_no_decreases_clause]
    //@ end

    //@ fn src:zvt_feig_terminal/src/feig.rs | impl Feig | cancel_pending | all-loops nexton=self.socket props=C19
        ensures
    //@ tag cancel_pending.no_failed_connection_kept C09
            clean(old(self)) ==> clean(final(self)),
    //@ tag cancel_pending.state C07 ~C19
            final(self).transactions@ == Map::<Seq<char>, usize>::empty(),
            final(self).transactions_max_num == old(self).transactions_max_num,
            final(self).socket.cfg() == old(self).socket.cfg(),
            extends(final(self).socket.log(), old(self).socket.log()),
    //@ tag cancel_pending.shape C19
            cp_shape(final(self).socket.log().skip(old(self).socket.log().len() as int), old(self).socket.cfg()),
            r == cp_result(final(self).socket.log().skip(old(self).socket.log().len() as int)),
    //@ tag cancel_pending.abort_surfaces C20
            // an abort of the reversal of the dangling pre-authorisation is returned with its code
            ({
                let exs = final(self).socket.log().skip(old(self).socket.log().len() as int);
                (cp_len(exs) == 2 && exs.len() >= 2) ==> (exs[1].items matches AnyItems::PreAuthReversal(its_b) ==> (pr_clean_abort(its_b, true) matches Some(c) ==> r == Result::<()>::Err(aborted(c))))
            }),
    //@ loop 0
            invariant
                pending@.len() <= 1, iter.index@ <= pending@.len(),
                self.transactions@ == Map::<Seq<char>, usize>::empty(),
                self.transactions_max_num == old(self).transactions_max_num,
                self.socket.cfg() == old(self).socket.cfg(),
                extends(self.socket.log(), old(self).socket.log()),
                self.socket.log().len() == old(self).socket.log().len() + 1 + iter.index@,
                self.socket.log()[old(self).socket.log().len() as int].req matches Req::PartialReversal(q) && pending_query(q),
                self.socket.log()[old(self).socket.log().len() as int].items matches AnyItems::PartialReversal(its_a) && pending_fold(its_a) == Result::<Seq<usize>>::Ok(pending@),
                iter.index@ == 1 ==> (self.socket.log().last().req matches Req::PreAuthReversal(q2) && reversal_req(q2, old(self).socket.cfg(), pending@[0])),
                iter.index@ == 1 ==> (self.socket.log().last().items matches AnyItems::PreAuthReversal(its_b) && cancel_fold(its_b) == Result::<()>::Ok(())),
    //@ tag cancel_pending.inv.clean C09
                clean(old(self)) ==> clean(self),
    //@ tail
            proof {
                if pending@.len() == 1 {
                    match self.socket.log().last().items { AnyItems::PreAuthReversal(its_b) => { lemma_cancel_clean_abort(its_b); }, _ => {} }
                }
            }
    //@ end

    //@ fn src:zvt_feig_terminal/src/feig.rs | impl Feig | end_of_day | all-loops nexton=self.socket props=~C19,~C20,~C07
        ensures
    //@ tag end_of_day.no_failed_connection_kept C09
            clean(old(self)) ==> clean(final(self)),
    //@ tag end_of_day.state C07 ~C19
            final(self).transactions@ == Map::<Seq<char>, usize>::empty(),
            final(self).transactions_max_num == old(self).transactions_max_num,
            final(self).socket.cfg() == old(self).socket.cfg(),
            extends(final(self).socket.log(), old(self).socket.log()),
    //@ tag end_of_day.shape C19
            eod_shape(final(self).socket.log().skip(old(self).socket.log().len() as int), old(self).socket.cfg()),
    //@ tag end_of_day.result ~C19 ~C20
            r == eod_result(final(self).socket.log().skip(old(self).socket.log().len() as int)),
    //@ tag end_of_day.cleanup_error_is_returned C20 C19
            // whatever the clean-up part fails with (cancel_pending states: an aborted reversal => that abort code) is returned
            // unchanged, whatever the terminal answers afterwards
            ({
                let exs = final(self).socket.log().skip(old(self).socket.log().len() as int);
                cp_result(exs.take(cp_len(exs))) is Err ==> r == cp_result(exs.take(cp_len(exs)))
            }),
    //@ tag end_of_day.refusal_reported C19 C20
            // when the end-of-day request itself is refused with code c: A0 'receiver not ready' is tolerated, any other code is reported
            ({
                let exs = final(self).socket.log().skip(old(self).socket.log().len() as int);
                exs.len() == cp_len(exs) + 1 ==> (exs[cp_len(exs)].items matches AnyItems::EndOfDay(its_c) ==> (eod_clean_abort(its_c) matches Some(c)
                    ==> r == (if c == 0xa0 { Result::<()>::Ok(()) } else { Err(aborted(c)) })))
            }),
    //@ loop 0
            invariant
                self.transactions@ == Map::<Seq<char>, usize>::empty(),
                self.transactions_max_num == old(self).transactions_max_num,
                self.socket.cfg() == old(self).socket.cfg(),
                extends(self.socket.log(), old(self).socket.log()),
                self.socket.log().len() >= old(self).socket.log().len() + 2,
    //@ tag end_of_day.inv.only_after_successful_cleanup C19 C20
                // the end-of-day request is only sent after the clean-up part completed without an error (so a failed
                // clean-up - e.g. an aborted reversal - has already been returned with its code)
                cp_shape(self.socket.log().skip(old(self).socket.log().len() as int).drop_last(), old(self).socket.cfg()),
                cp_result(self.socket.log().skip(old(self).socket.log().len() as int).drop_last()) == Result::<()>::Ok(()),
    //@ tag end_of_day.inv.len ~C19 ~C20 ~C07
                cp_len(self.socket.log().skip(old(self).socket.log().len() as int)) == self.socket.log().len() - old(self).socket.log().len() - 1,
                self.socket.log().last().req matches Req::EndOfDay(q) && eod_req(q, old(self).socket.cfg()),
    //@ tag end_of_day.inv.fold ~C19 ~C20
                self.socket.log().last().items matches AnyItems::EndOfDay(its_c) && eod_fold(stream.rest()) == eod_fold(its_c),
    //@ tag end_of_day.inv.abort C19 C20
                self.socket.log().last().items matches AnyItems::EndOfDay(its_c) && (eod_clean_abort(its_c) matches Some(c) ==> eod_clean_abort(stream.rest()) == Some(c)),
    //@ tag end_of_day.inv.clean C09
                clean(old(self)) ==> !self.socket.reused_bad(),
    //@ tag end_of_day.loop.exit ~C09 ~C19 ~C20 ~C07 ~C08 ~C10 ~C18
            ensures stream.rest().len() == 0, !self.socket.pending_drop(),
    //@ attr
    #[verifier::exec_allows_no_decreases_clause]
    //@ end

    //@ fn src:zvt_feig_terminal/src/feig.rs | impl Feig | begin_transaction | all-loops nexton=self.socket props=C07
        ensures
    //@ tag begin_transaction.no_failed_connection_kept C09
            clean(old(self)) ==> clean(final(self)),
    //@ tag begin.frame C07
            final(self).transactions_max_num == old(self).transactions_max_num,
            final(self).socket.cfg() == old(self).socket.cfg(),
    //@ tag begin.refused_without_traffic C07
            // begin is refused for an open token and when the maximum is reached: documented error, no traffic, nothing recorded
            begin_refused(old(self), token@) ==> (
                r matches Err(VErr::Feig(Error::ActiveTransaction(_)))
                && final(self).socket.log() == old(self).socket.log()
                && final(self).transactions@ == old(self).transactions@),
    //@ tag begin.sends_one C07
            !begin_refused(old(self), token@) ==> one_more(final(self).socket.log(), old(self).socket.log()),
    //@ tag begin.request C08
            // exactly one reservation for the configured amount and currency, tagged with the token
            one_more(final(self).socket.log(), old(self).socket.log()) ==> (final(self).socket.log().last().req matches Req::Reservation(q) && reservation_req(q, old(self).socket.cfg(), token@)),
    //@ tag begin.map C07
            // the token is recorded with the receipt number the terminal issued iff the reservation went through
            !begin_refused(old(self), token@) ==> (
                final(self).socket.log().last().items matches AnyItems::Reservation(its) && (
                    if r is Ok { last_receipt(its, None) matches Some(rn) && final(self).transactions@ == old(self).transactions@.insert(token@, rn) }
                    else { final(self).transactions@ == old(self).transactions@ })),
    //@ tag begin.abort_surfaces C20
            one_more(final(self).socket.log(), old(self).socket.log()) ==> (
                final(self).socket.log().last().items matches AnyItems::Reservation(its) && (auth_clean_abort(its) matches Some(c) ==> r == Result::<()>::Err(begin_abort_err(c)))),
    //@ loop 0
            invariant
    //@ tag begin.inv.state C07
                same_client(self, old(self)),
                one_more(self.socket.log(), old(self).socket.log()),
                !begin_refused(old(self), token@),
    //@ tag begin.inv.request C08 ~C07
                self.socket.log().last().req matches Req::Reservation(q) && reservation_req(q, old(self).socket.cfg(), token@),
    //@ tag begin.inv.receipt C07
                self.socket.log().last().items matches AnyItems::Reservation(its) && last_receipt(stream.rest(), receipt_no) == last_receipt(its, None),
    //@ tag begin.inv.abort C20
                self.socket.log().last().items matches AnyItems::Reservation(its) && (auth_clean_abort(its) matches Some(c) ==> auth_clean_abort(stream.rest()) == Some(c)),
    //@ tag begin_transaction.inv.clean C09
                clean(old(self)) ==> !self.socket.reused_bad(),
    //@ tag begin_transaction.loop.exit ~C09 ~C19 ~C20 ~C07 ~C08 ~C10 ~C18
            ensures stream.rest().len() == 0, !self.socket.pending_drop(),
    //@ attr
    #[verifier::exec_allows_no_decreases_clause]
    //@ end

    //@ fn src:zvt_feig_terminal/src/feig.rs | impl Feig | cancel_transaction | all-loops nexton=self.socket props=C07
        ensures
    //@ tag cancel_transaction.no_failed_connection_kept C09
            clean(old(self)) ==> clean(final(self)),
    //@ tag cancel.frame C07
            final(self).transactions_max_num == old(self).transactions_max_num,
            final(self).socket.cfg() == old(self).socket.cfg(),
            extends(final(self).socket.log(), old(self).socket.log()),
    //@ tag cancel.unknown_without_traffic C07
            !old(self).transactions@.contains_key(token@) ==> (
                (r matches Err(VErr::Feig(Error::UnknownToken(s))) && s@ == token@)
                && final(self).socket.log() == old(self).socket.log()
                && final(self).transactions@ == old(self).transactions@),
    //@ tag cancel.acts_on_own_receipt C07
            old(self).transactions@.contains_key(token@) ==> ({
                let exs = final(self).socket.log().skip(old(self).socket.log().len() as int);
                &&& exs.len() >= 1
                &&& exs[0].req matches Req::PreAuthReversal(q) && reversal_req(q, old(self).socket.cfg(), old(self).transactions@[token@])
                &&& exs[0].items is PreAuthReversal
            }),
    //@ tag cancel.closes_token C07
            old(self).transactions@.contains_key(token@) ==> ({
                let exs = final(self).socket.log().skip(old(self).socket.log().len() as int);
                let m1 = old(self).transactions@.remove(token@);
                exs[0].items matches AnyItems::PreAuthReversal(its) && (
                    if cancel_fold(its) is Ok && m1 =~= Map::<Seq<char>, usize>::empty() { final(self).transactions@ == Map::<Seq<char>, usize>::empty() }
                    else { final(self).transactions@ == m1 })
            }),
    //@ tag cancel.idle_cleanup C19
            old(self).transactions@.contains_key(token@) ==> ({
                let exs = final(self).socket.log().skip(old(self).socket.log().len() as int);
                let m1 = old(self).transactions@.remove(token@);
                exs[0].items matches AnyItems::PreAuthReversal(its) && (match cancel_fold(its) {
                    Err(e) => exs.len() == 1,
                    // nothing open any more: clean up and request end-of-day at once; otherwise: no end-of-day, no pending query
                    Ok(_) => if m1 =~= Map::<Seq<char>, usize>::empty() { eod_shape(exs.skip(1), old(self).socket.cfg()) } else { exs.len() == 1 },
                })
            }),
    //@ tag cancel.abort_surfaces C20
            old(self).transactions@.contains_key(token@) ==> ({
                let exs = final(self).socket.log().skip(old(self).socket.log().len() as int);
                exs[0].items matches AnyItems::PreAuthReversal(its) && (pr_clean_abort(its, true) matches Some(c) ==> r == Result::<()>::Err(aborted(c)))
            }),
    //@ tag cancel.fold_error ~C20 ~C19
            old(self).transactions@.contains_key(token@) ==> ({
                let exs = final(self).socket.log().skip(old(self).socket.log().len() as int);
                exs[0].items matches AnyItems::PreAuthReversal(its) && (cancel_fold(its) matches Err(e) ==> r == Result::<()>::Err(e))
            }),
    //@ tag cancel.result C19
            old(self).transactions@.contains_key(token@) ==> ({
                let exs = final(self).socket.log().skip(old(self).socket.log().len() as int);
                let m1 = old(self).transactions@.remove(token@);
                exs[0].items matches AnyItems::PreAuthReversal(its) && (cancel_fold(its) is Ok ==> (
                    if m1 =~= Map::<Seq<char>, usize>::empty() { r == eod_result(exs.skip(1)) } else { r == Result::<()>::Ok(()) }))
            }),
    //@ end

    //@ fn src:zvt_feig_terminal/src/feig.rs | impl Feig | commit_transaction | all-loops nexton=self.socket optmap props=C07
        ensures
    //@ tag commit_transaction.no_failed_connection_kept C09
            clean(old(self)) ==> clean(final(self)),
    //@ tag commit.frame C07
            final(self).transactions_max_num == old(self).transactions_max_num,
            final(self).socket.cfg() == old(self).socket.cfg(),
            extends(final(self).socket.log(), old(self).socket.log()),
    //@ tag commit.unknown_without_traffic C07
            !old(self).transactions@.contains_key(token@) ==> (
                (r matches Err(VErr::Feig(Error::UnknownToken(s))) && s@ == token@)
                && final(self).socket.log() == old(self).socket.log()
                && final(self).transactions@ == old(self).transactions@),
    //@ tag commit.acts_on_own_receipt C07
            old(self).transactions@.contains_key(token@) ==> ({
                let exs = final(self).socket.log().skip(old(self).socket.log().len() as int);
                &&& exs.len() >= 1
                &&& exs[0].req matches Req::PartialReversal(q) && q.receipt_no == Some(old(self).transactions@[token@])
                &&& exs[0].items is PartialReversal
            }),
    //@ tag commit.request C08
            // releases exactly pre-authorised minus final amount (0 when the final amount is larger), configured currency,
            // payment type 40, reference token of that reservation
            old(self).transactions@.contains_key(token@) ==> ({
                let exs = final(self).socket.log().skip(old(self).socket.log().len() as int);
                exs[0].req matches Req::PartialReversal(q) && commit_req(q, old(self).socket.cfg(), token@, amount)
            }),
    //@ tag commit.closes_token C07
            // the token is closed whatever the outcome; nothing else changes unless the client went idle (then the map is empty anyway)
            old(self).transactions@.contains_key(token@) ==> ({
                let m1 = old(self).transactions@.remove(token@);
                final(self).transactions@ == m1 || (m1 =~= Map::<Seq<char>, usize>::empty() && final(self).transactions@ == Map::<Seq<char>, usize>::empty())
            }),
    //@ tag commit.idle_cleanup C19
            // the terminal completed the commit (the reply stream ended without an abort) and nothing is open any more:
            // clean up and request end-of-day at once; other transactions still open: no end-of-day, no pending query
            old(self).transactions@.contains_key(token@) ==> ({
                let exs = final(self).socket.log().skip(old(self).socket.log().len() as int);
                let m1 = old(self).transactions@.remove(token@);
                exs[0].items matches AnyItems::PartialReversal(its) && (
                    if pr_clean_abort(its, false) is Some { exs.len() == 1 }
                    else if !(m1 =~= Map::<Seq<char>, usize>::empty()) { exs.len() == 1 }
                    else { exs.len() == 1 || eod_shape(exs.skip(1), old(self).socket.cfg()) })
            }),
    //@ tag commit.idle_cleanup_runs C19
            // ... and it is not skipped: a commit whose stream ended normally (no abort, no error item) and that leaves nothing open
            // did run the clean-up
            old(self).transactions@.contains_key(token@) ==> ({
                let exs = final(self).socket.log().skip(old(self).socket.log().len() as int);
                let m1 = old(self).transactions@.remove(token@);
                exs[0].items matches AnyItems::PartialReversal(its) && (
                    (all_ok_items(its) && pr_clean_abort(its, false) is None && m1 =~= Map::<Seq<char>, usize>::empty())
                        ==> (exs.len() >= 2 && eod_shape(exs.skip(1), old(self).socket.cfg())))
            }),
    //@ tag commit.abort_surfaces C20
            old(self).transactions@.contains_key(token@) ==> ({
                let exs = final(self).socket.log().skip(old(self).socket.log().len() as int);
                exs[0].items matches AnyItems::PartialReversal(its) && (pr_clean_abort(its, false) matches Some(c) ==> (r matches Err(e2) && e2 == aborted(c)))
            }),
    //@ tag commit.eod_refusal_reported C19
            old(self).transactions@.contains_key(token@) ==> ({
                let exs = final(self).socket.log().skip(old(self).socket.log().len() as int);
                (exs.len() >= 2 && eod_result(exs.skip(1)) is Err) ==> (r matches Err(e2) && Result::<()>::Err(e2) == eod_result(exs.skip(1)))
            }),
    //@ tag commit.summary C08
            // the summary reproduces the last status information the terminal reported
            old(self).transactions@.contains_key(token@) ==> ({
                let exs = final(self).socket.log().skip(old(self).socket.log().len() as int);
                exs[0].items matches AnyItems::PartialReversal(its) && (r matches Ok(ts) ==> (last_status(its, None) matches Some(si) && summary_ok(ts, si)))
            }),
    //@ loop 0
            invariant
    //@ tag commit.inv.state C07
                old(self).transactions@.contains_key(token@),
                self.transactions@ == old(self).transactions@.remove(token@),
                self.transactions_max_num == old(self).transactions_max_num,
                self.socket.cfg() == old(self).socket.cfg(),
                one_more(self.socket.log(), old(self).socket.log()),
                self.socket.log().last().req matches Req::PartialReversal(q) && q.receipt_no == Some(old(self).transactions@[token@]),
    //@ tag commit.inv.request C08 ~C07
                self.socket.log().last().req matches Req::PartialReversal(q) && commit_req(q, old(self).socket.cfg(), token@, amount),
    //@ tag commit.inv.summary C08
                self.socket.log().last().items matches AnyItems::PartialReversal(its) && last_status(stream.rest(), status_information) == last_status(its, None),
    //@ tag commit.inv.abort C20 ~C19
                self.socket.log().last().items matches AnyItems::PartialReversal(its) && (pr_clean_abort(its, false) matches Some(c) ==> pr_clean_abort(stream.rest(), false) == Some(c)),
    //@ tag commit.inv.noabort C19
                self.socket.log().last().items matches AnyItems::PartialReversal(its) && ((all_ok_items(its) && pr_clean_abort(its, false) is None) ==> (all_ok_items(stream.rest()) && pr_clean_abort(stream.rest(), false) is None)),
    //@ tag commit_transaction.inv.clean C09
                clean(old(self)) ==> !self.socket.reused_bad(),
    //@ tag commit_transaction.loop.exit ~C09 ~C19 ~C20 ~C07 ~C08 ~C10 ~C18
            ensures stream.rest().len() == 0, !self.socket.pending_drop(),
    //@ attr
    #[verifier::exec_allows_no_decreases_clause]
    //@ end

    //@ fn src:zvt_feig_terminal/src/feig.rs | impl Feig | read_card | all-loops nexton=self.socket strviews props=C10,~C18,~C20
        ensures
    //@ tag read_card.no_failed_connection_kept C09
            clean(old(self)) ==> clean(final(self)),
            same_client(final(self), old(self)),
            one_more(final(self).socket.log(), old(self).socket.log()),
    //@ tag read_card.timeout_never_zero C10
            // whatever the configured card timeout (0..255): the per-packet timeout is computed without overflow (a built-in
            // obligation of the body) and is never zero
            final(self).socket.log().last().req matches Req::ReadCard(q, retry, timeout) && timeout.secs >= 1,
    //@ tag read_card.abort_surfaces C20
            // an abort before any status information: 6C (time-out) => no card presented, unknown code => error naming it,
            // any other code => error with that code's message; never success
            final(self).socket.log().last().items matches AnyItems::ReadCard(its) && (abort_first(its) matches Some(c) ==> (r matches Err(e) && e == read_abort_err(c))),
    //@ tag read_card.outcome C18
            final(self).socket.log().last().items matches AnyItems::ReadCard(its) && (match read_fold(its, None) {
                // errors of the fold are the translated aborts (time-out => no card presented, other codes => their message)
                Err(e) => r matches Err(e2) && e2 == e,
                // the stream ended without a verdict: some error (which one is not pinned by the statement)
                Ok(None) => r is Err,
                Ok(Some(CardSpec::Bank)) => r matches Ok(CardInfo::Bank),
                Ok(Some(CardSpec::Member(id))) => r matches Ok(CardInfo::MembershipCard(t)) && t@ == id,
            }),
    //@ loop 0
            invariant
    //@ tag read_card.inv.state ~C18 ~C20 ~C10
                same_client(self, old(self)),
                one_more(self.socket.log(), old(self).socket.log()),
    //@ tag read_card.inv.request C10 ~C18
                self.socket.log().last().req matches Req::ReadCard(q, retry, timeout) && timeout.secs >= 1,
    //@ tag read_card.inv.fold C18
                self.socket.log().last().items matches AnyItems::ReadCard(its) && read_fold(stream.rest(), card_spec(card_info)) == read_fold(its, None),
    //@ tag read_card.inv.abort C20
                self.socket.log().last().items matches AnyItems::ReadCard(its) && (abort_first(its) matches Some(c) ==> abort_first(stream.rest()) == Some(c)),
    //@ tag read_card.inv.clean C09
                clean(old(self)) ==> !self.socket.reused_bad(),
    //@ tag read_card.loop.exit ~C09 ~C19 ~C20 ~C07 ~C08 ~C10 ~C18
            ensures stream.rest().len() == 0, !self.socket.pending_drop(),
    //@ attr
    #[verifier::exec_allows_no_decreases_clause]
    //@ end

    //@ fn src:zvt_feig_terminal/src/feig.rs | impl Feig | get_system_info | all-loops nexton=self.socket props=~C20
        ensures
    //@ tag get_system_info.no_failed_connection_kept C09
            clean(old(self)) ==> clean(final(self)),
            same_client(final(self), old(self)),
            one_more(final(self).socket.log(), old(self).socket.log()),
            final(self).socket.log().last().req matches Req::GetSystemInfo(q) && q.password is None && q.instr == 1,
    //@ tag get_system_info.outcome ~C20
            final(self).socket.log().last().items matches AnyItems::GetSystemInfo(its) && (match sysinfo_fold(its) {
                Err(e) => r matches Err(e2) && e2 == e,
                Ok(p) => r matches Ok(p2) && p2 == p,
            }),
    //@ tag get_system_info.abort_surfaces C20
            final(self).socket.log().last().items matches AnyItems::GetSystemInfo(its) && (sysinfo_clean_abort(its) matches Some(c) ==> (r matches Err(e2) && e2 == aborted(c))),
    //@ loop 0
            invariant
                same_client(self, old(self)),
                one_more(self.socket.log(), old(self).socket.log()),
                self.socket.log().last().req matches Req::GetSystemInfo(q) && q.password is None && q.instr == 1,
                self.socket.log().last().items matches AnyItems::GetSystemInfo(its) && sysinfo_fold(stream.rest()) == sysinfo_fold(its),
    //@ tag get_system_info.inv.abort C20
                self.socket.log().last().items matches AnyItems::GetSystemInfo(its) && (sysinfo_clean_abort(its) matches Some(c) ==> sysinfo_clean_abort(stream.rest()) == Some(c)),
    //@ tag get_system_info.inv.clean C09
                clean(old(self)) ==> !self.socket.reused_bad(),
    //@ tag get_system_info.loop.exit ~C09 ~C19 ~C20 ~C07 ~C08 ~C10 ~C18
            ensures stream.rest().len() == 0, !self.socket.pending_drop(),
    //@ attr
    #[verifier::exec_allows_no_decreases_clause]
    //@ end

    //@ fn src:zvt_feig_terminal/src/feig.rs | impl Feig | initialize | all-loops nexton=self.socket props=~C20
        ensures
    //@ tag initialize.no_failed_connection_kept C09
            clean(old(self)) ==> clean(final(self)),
            same_client(final(self), old(self)),
            one_more(final(self).socket.log(), old(self).socket.log()),
            final(self).socket.log().last().req matches Req::Initialization(q) && q.password == old(self).socket.cfg().feig_config.password,
    //@ tag initialize.outcome ~C20
            final(self).socket.log().last().items matches AnyItems::Initialization(its) && r == init_fold(its),
    //@ tag initialize.abort_surfaces C20
            final(self).socket.log().last().items matches AnyItems::Initialization(its) && (init_clean_abort(its) matches Some(c) ==> r == Result::<()>::Err(aborted(c))),
    //@ loop 0
            invariant
                same_client(self, old(self)),
                one_more(self.socket.log(), old(self).socket.log()),
                self.socket.log().last().req matches Req::Initialization(q) && q.password == old(self).socket.cfg().feig_config.password,
                self.socket.log().last().items matches AnyItems::Initialization(its) && init_fold(stream.rest()) == init_fold(its),
    //@ tag initialize.inv.abort C20
                self.socket.log().last().items matches AnyItems::Initialization(its) && (init_clean_abort(its) matches Some(c) ==> init_clean_abort(stream.rest()) == Some(c)),
    //@ tag initialize.inv.clean C09
                clean(old(self)) ==> !self.socket.reused_bad(),
    //@ tag initialize.loop.exit ~C09 ~C19 ~C20 ~C07 ~C08 ~C10 ~C18
            ensures stream.rest().len() == 0, !self.socket.pending_drop(),
    //@ attr
    #[verifier::exec_allows_no_decreases_clause]
    //@ end

    //@ fn src:zvt_feig_terminal/src/feig.rs | impl Feig | set_terminal_id | all-loops nexton=self.socket props=~C20
        ensures
    //@ tag set_terminal_id.no_failed_connection_kept C09
            clean(old(self)) ==> clean(final(self)),
            same_client(final(self), old(self)),
            extends(final(self).socket.log(), old(self).socket.log()),
    //@ tag set_terminal_id.abort_surfaces C20
            ({
                let exs = final(self).socket.log().skip(old(self).socket.log().len() as int);
                exs.len() == 2 ==> (exs[1].items matches AnyItems::SetTerminalId(its1) ==> (settid_clean_abort(its1) matches Some(c) ==> r == Result::<()>::Err(aborted(c))))
            }),
    //@ tag set_terminal_id.outcome ~C20
            ({
                let exs = final(self).socket.log().skip(old(self).socket.log().len() as int);
                &&& exs.len() >= 1
                &&& exs[0].items matches AnyItems::GetSystemInfo(its0) && (match sysinfo_fold(its0) {
                        Err(e) => exs.len() == 1 && r == Result::<()>::Err(e),
                        Ok(info) => if old(self).socket.cfg().terminal_id@ == info.terminal_id@ { exs.len() == 1 && r == Result::<()>::Ok(()) } else {
                            match parse_usize_spec(old(self).socket.cfg().terminal_id@) {
                                None => exs.len() == 1 && r is Err,
                                Some(tid) => {
                                    &&& exs.len() == 2
                                    &&& exs[1].req matches Req::SetTerminalId(q) && q.terminal_id == Some(tid) && q.password == old(self).socket.cfg().feig_config.password
                                    &&& exs[1].items matches AnyItems::SetTerminalId(its1) && r == settid_fold(its1)
                                },
                            }
                        },
                    })
            }),
    //@ loop 0
            invariant
                same_client(self, old(self)),
                self.socket.log().len() == old(self).socket.log().len() + 2,
                extends(self.socket.log(), old(self).socket.log()),
                self.socket.log()[old(self).socket.log().len() as int].items matches AnyItems::GetSystemInfo(its0) && sysinfo_fold(its0) == Result::<feig::packets::CVendFunctionsEnhancedSystemInformationCompletion>::Ok(system_info),
                old(self).socket.cfg().terminal_id@ != system_info.terminal_id@,
                parse_usize_spec(old(self).socket.cfg().terminal_id@) == Some(terminal_id),
                self.socket.log().last().req matches Req::SetTerminalId(q) && q.terminal_id == Some(terminal_id) && q.password == old(self).socket.cfg().feig_config.password,
                self.socket.log().last().items matches AnyItems::SetTerminalId(its1) && settid_fold(stream.rest()) == settid_fold(its1),
    //@ tag set_terminal_id.inv.abort C20
                self.socket.log().last().items matches AnyItems::SetTerminalId(its1) && (settid_clean_abort(its1) matches Some(c) ==> settid_clean_abort(stream.rest()) == Some(c)),
    //@ tag set_terminal_id.inv.clean C09
                clean(old(self)) ==> !self.socket.reused_bad(),
    //@ tag set_terminal_id.loop.exit ~C09 ~C19 ~C20 ~C07 ~C08 ~C10 ~C18
            ensures stream.rest().len() == 0, !self.socket.pending_drop(),
    //@ attr
    #[verifier::exec_allows_no_decreases_clause]
    //@ end

    //@ fn src:zvt_feig_terminal/src/feig.rs | impl Feig | configure | all-loops nexton=self.socket props=~C20
        ensures
    //@ tag configure.no_failed_connection_kept C09
            clean(old(self)) ==> clean(final(self)),
            final(self).transactions_max_num == old(self).transactions_max_num,
            final(self).socket.cfg() == old(self).socket.cfg(),
            extends(final(self).socket.log(), old(self).socket.log()),
    //@ end
}

/// code of an abort that arrives before any status information (read-card)
pub open spec fn abort_first(items: Seq<Result<ReadCardResponse>>) -> Option<u8>
    decreases items.len()
{
    if items.len() == 0 { None } else {
        match items[0] {
            Err(_) => None,
            Ok(ReadCardResponse::Abort(data)) => Some(data.error),
            Ok(ReadCardResponse::StatusInformation(_)) => None,
            Ok(_) => abort_first(items.skip(1)),
        }
    }
}
pub open spec fn read_abort_err(c: u8) -> VErr {
    match constants::em_from_u8(c) {
        None => VErr::Msg(ID_UNKNOWN_ERROR_CODE()),
        Some(constants::ErrorMessages::AbortViaTimeoutOrAbortKey) => VErr::Feig(Error::NoCardPresented),
        Some(_) => VErr::Msg(@FMTID("Unhandled error: {other}")),
    }
}
/// card identity as a pure value
pub enum CardSpec { Bank, Member(Seq<char>) }
pub open spec fn card_spec(c: Option<CardInfo>) -> Option<CardSpec> {
    match c { None => None, Some(CardInfo::Bank) => Some(CardSpec::Bank), Some(CardInfo::MembershipCard(s)) => Some(CardSpec::Member(s@)) }
}
/// canonical membership id: upper case; longer than 14 => last 14, and a leading 000000 of those dropped
pub open spec fn canon_uid(u: Seq<char>) -> Seq<char> {
    let up = upper_spec(u);
    if str_byte_len(up) > 14 {
        let last14 = str_from_spec(up, (str_byte_len(up) - 14) as nat);
        match strip_prefix_spec(last14, "000000"@) { Some(t) => t, None => last14 }
    } else { up }
}
/// read-card: classification from the status data alone (C18); abort 6C => no card, unknown code / other abort => error (C20)
pub open spec fn read_fold(items: Seq<Result<ReadCardResponse>>, ci: Option<CardSpec>) -> Result<Option<CardSpec>>
    decreases items.len()
{
    if items.len() == 0 { Ok(ci) } else {
        match items[0] {
            Ok(ReadCardResponse::Abort(data)) => Err(match constants::em_from_u8(data.error) {
                None => VErr::Msg(ID_UNKNOWN_ERROR_CODE()),
                Some(constants::ErrorMessages::AbortViaTimeoutOrAbortKey) => VErr::Feig(Error::NoCardPresented),
                Some(_) => VErr::Msg(@FMTID("Unhandled error: {other}")),
            }),
            Ok(ReadCardResponse::StatusInformation(data)) => match data.tlv {
                None => Err(incomplete()),
                Some(tlv) => if tlv.subs@.len() > 0 {
                    // the terminal lists a payment application: a bank card, never a membership card
                    if tlv.subs@[0].application_id is Some { read_fold(items.skip(1), Some(CardSpec::Bank)) } else { Err(VErr::Msg(@FMTID("Unknown card type"))) }
                } else {
                    match tlv.uuid {
                        Some(u) => read_fold(items.skip(1), Some(CardSpec::Member(canon_uid(u@)))),
                        None => Err(incomplete()),
                    }
                },
            },
            _ => read_fold(items.skip(1), ci),
        }
    }
}
pub open spec fn sysinfo_fold(items: Seq<Result<feig::sequences::GetSystemInfoResponse>>) -> Result<feig::packets::CVendFunctionsEnhancedSystemInformationCompletion>
    decreases items.len()
{
    if items.len() == 0 { Err(incomplete()) } else {
        match items[0] {
            Ok(feig::sequences::GetSystemInfoResponse::CVendFunctionsEnhancedSystemInformationCompletion(p)) => Ok(p),
            Ok(feig::sequences::GetSystemInfoResponse::Abort(p)) => Err(aborted(p.error)),
            Err(_) => sysinfo_fold(items.skip(1)),
        }
    }
}
pub open spec fn init_fold(items: Seq<Result<sequences::InitializationResponse>>) -> Result<()>
    decreases items.len()
{
    if items.len() == 0 { Err(incomplete()) } else {
        match items[0] {
            Ok(sequences::InitializationResponse::CompletionData(_)) => Ok(()),
            Ok(sequences::InitializationResponse::Abort(data)) => Err(aborted(data.error)),
            _ => init_fold(items.skip(1)),
        }
    }
}
pub open spec fn settid_fold(items: Seq<Result<sequences::SetTerminalIdResponse>>) -> Result<()>
    decreases items.len()
{
    if items.len() == 0 { Err(incomplete()) } else {
        match items[0] {
            Ok(sequences::SetTerminalIdResponse::CompletionData(_)) => Ok(()),
            Ok(sequences::SetTerminalIdResponse::Abort(data)) => Err(aborted(data.error)),
            Err(_) => settid_fold(items.skip(1)),
        }
    }
}

pub open spec fn all_ok_items<T>(items: Seq<Result<T>>) -> bool { forall|i: int| 0 <= i < items.len() ==> (#[trigger] items[i]) is Ok }
pub open spec fn summary_ok(ts: TransactionSummary, si: packets::StatusInformation) -> bool {
    &&& (ts.amount == match si.amount { Some(a) => Some(a as u64), None => None })
    &&& (ts.trace_number == match si.trace_number { Some(a) => Some(a as u64), None => None })
    &&& (match si.date { Some(n) => ts.date matches Some(t) && t@ == fmt1_spec::<usize>(@FMTID("{:04}"), n), None => ts.date is None })
    &&& (match si.time { Some(n) => ts.time matches Some(t) && t@ == fmt1_spec::<usize>(@FMTID("{:06}"), n), None => ts.time is None })
    &&& (ts.terminal_id is Some <==> si.terminal_id is Some)
}
/// the summary reproduces what the terminal reported (texts via uninterpreted format functions)
pub open spec fn summary_result(osi: Option<packets::StatusInformation>, r: Result<TransactionSummary>) -> bool {
    match osi {
        None => r matches Err(e) && e == incomplete(),
        Some(si) => r matches Ok(ts) && ({
            &&& (ts.amount == match si.amount { Some(a) => Some(a as u64), None => None })
            &&& (ts.trace_number == match si.trace_number { Some(a) => Some(a as u64), None => None })
            &&& (match si.date { Some(n) => ts.date matches Some(t) && t@ == fmt1_spec::<usize>(@FMTID("{:04}"), n), None => ts.date is None })
            &&& (match si.time { Some(n) => ts.time matches Some(t) && t@ == fmt1_spec::<usize>(@FMTID("{:06}"), n), None => ts.time is None })
            &&& (ts.terminal_id is Some <==> si.terminal_id is Some)
        }),
    }
}
