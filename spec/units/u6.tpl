// U6 — zvt_feig_terminal/src/feig.rs: the terminal client (DESIGN.md §6 C07 C08 C10 C18 C19 C20)
#![allow(unused_imports, unused_variables, dead_code, unused_mut, non_snake_case, unused_parens, unused_braces, non_camel_case_types)]
extern crate alloc;
use vstd::prelude::*;
verus! {

global size_of usize == 8;

pub struct NaiveDateTime { pub opaque: u64 }
pub struct Ipv4Addr { pub opaque: u32 }
//@ item src:zvt_builder/src/lib.rs | struct Tag | derive=Debug,PartialEq,Eq,Structural
//@ item src:zvt_builder/src/lib.rs | enum ZVTError | derive=Debug
//@ item src:zvt_feig_terminal/src/feig.rs | enum Error | derive=Debug
// (derive(Structural) must sit in the root module: Verus internal error otherwise)
//@ item src:zvt/src/constants.rs | enum ErrorMessages | derive=Debug,PartialEq,Eq,Structural,Clone,Copy
//@ include ../prelude/client.rs

// ------------------------------------------------------------------ the `zvt` crate as the client sees it
pub mod zvt {
    pub use crate::ZVTError;
    pub mod packets {
        use vstd::prelude::*;
        //@ item src:zvt/src/packets.rs | struct Ack
        //@ include packets_all.tpl EXTRA_TLV=empty.tpl
        // `#[derive(Default)]`: every field is `None` (T9)
        impl Default for PartialReversal {
            #[verifier::external_body]
            fn default() -> (r: Self)
                ensures r.receipt_no is None, r.amount is None, r.payment_type is None, r.currency is None, r.tlv is None,
            { unimplemented!() }
        }
        impl Default for Reservation {
            #[verifier::external_body]
            fn default() -> (r: Self)
                ensures r.amount is None, r.currency is None, r.payment_type is None, r.expiry_date is None, r.card_number is None,
                    r.track_2_data is None, r.timeout is None, r.maximum_no_of_status_info is None, r.pump_no is None, r.trace_number is None,
                    r.aid_authorization_attribute is None, r.additional_text is None, r.zvt_card_type is None, r.tlv is None,
            { unimplemented!() }
        }
    }
    pub mod constants {
        use vstd::prelude::*;
        pub use crate::ErrorMessages;
        //@ include u6_errcodes.tpl
    }
    pub mod feig {
        pub mod packets {
            use vstd::prelude::*;
            //@ item src:zvt/src/feig/packets/mod.rs | struct CVendFunctions
            //@ item src:zvt/src/feig/packets/mod.rs | struct CVendFunctionsEnhancedSystemInformationCompletion
        }
        pub mod sequences {
            use vstd::prelude::*;
            use crate::zvt::packets;
            //@ item src:zvt/src/feig/sequences.rs | enum GetSystemInfoResponse
            //@ include u6_adapter.tpl SEQ=GetSystemInfo INPUT=super::packets::CVendFunctions REPLY=GetSystemInfoResponse
        }
    }
    pub mod sequences {
        use vstd::prelude::*;
        use crate::zvt::packets;
        //@ item src:zvt/src/sequences.rs | enum SetTerminalIdResponse
        //@ item src:zvt/src/sequences.rs | enum InitializationResponse
        //@ item src:zvt/src/sequences.rs | enum PartialReversalResponse
        //@ item src:zvt/src/sequences.rs | enum EndOfDayResponse
        //@ item src:zvt/src/sequences.rs | enum ReadCardResponse
        //@ item src:zvt/src/sequences.rs | enum AuthorizationResponse
        //@ include u6_adapter.tpl SEQ=SetTerminalId INPUT=packets::SetTerminalId REPLY=SetTerminalIdResponse
        //@ include u6_adapter.tpl SEQ=Initialization INPUT=packets::Initialization REPLY=InitializationResponse
        //@ include u6_adapter.tpl SEQ=PartialReversal INPUT=packets::PartialReversal REPLY=PartialReversalResponse
        //@ include u6_adapter.tpl SEQ=PreAuthReversal INPUT=packets::PreAuthReversal REPLY=PartialReversalResponse
        //@ include u6_adapter.tpl SEQ=EndOfDay INPUT=packets::EndOfDay REPLY=EndOfDayResponse
        //@ include u6_adapter.tpl SEQ=Reservation INPUT=packets::Reservation REPLY=AuthorizationResponse
        pub struct ReadCard;
        impl ReadCard {
            /// `<ReadCard as ResetSequence>::into_stream_with_retry(input, src, retry, timeout)`
            #[verifier::external_body]
            pub fn into_stream_with_retry(input: packets::ReadCard, src: &mut crate::stream::TcpStream, retry: crate::VRetry, timeout: crate::VDuration) -> (s: crate::VStream<ReadCardResponse>)
                ensures
                    final(src).cfg() == old(src).cfg(),
                    final(src).pending_drop() == old(src).pending_drop(),
                    final(src).reused_bad() == (old(src).reused_bad() || old(src).pending_drop()),
                    final(src).log() == old(src).log().push(crate::stream::Exch {
                        req: crate::stream::Req::ReadCard(input, retry, timeout),
                        items: crate::stream::AnyItems::ReadCard(s.rest()),
                    }),
            { unimplemented!() }
        }
    }
}
use zvt::{constants, feig, packets, sequences};

pub mod config {
    use vstd::prelude::*;
    use crate::Ipv4Addr;
    //@ item src:zvt_feig_terminal/src/config.rs | struct FeigConfig
    //@ item src:zvt_feig_terminal/src/config.rs | struct Config
}
pub mod stream {
    use vstd::prelude::*;
    use crate::zvt::{packets, sequences, feig};
    use crate::{Result, VRetry, VDuration};
    use crate::config::Config;
    /// what the client asked the lower layers to do
    pub enum Req {
        GetSystemInfo(feig::packets::CVendFunctions),
        SetTerminalId(packets::SetTerminalId),
        Initialization(packets::Initialization),
        PartialReversal(packets::PartialReversal),
        PreAuthReversal(packets::PreAuthReversal),
        EndOfDay(packets::EndOfDay),
        Reservation(packets::Reservation),
        ReadCard(packets::ReadCard, VRetry, VDuration),
    }
    /// the items the corresponding stream delivers (arbitrary; prophesied)
    pub enum AnyItems {
        GetSystemInfo(Seq<Result<feig::sequences::GetSystemInfoResponse>>),
        SetTerminalId(Seq<Result<sequences::SetTerminalIdResponse>>),
        Initialization(Seq<Result<sequences::InitializationResponse>>),
        PartialReversal(Seq<Result<sequences::PartialReversalResponse>>),
        PreAuthReversal(Seq<Result<sequences::PartialReversalResponse>>),
        EndOfDay(Seq<Result<sequences::EndOfDayResponse>>),
        Reservation(Seq<Result<sequences::AuthorizationResponse>>),
        ReadCard(Seq<Result<sequences::ReadCardResponse>>),
    }
    pub struct Exch { pub req: Req, pub items: AnyItems }
    /// the reconnecting stream of stream.rs, abstracted (U8 verifies stream.rs itself)
    #[verifier::external_body]
    pub struct TcpStream { _p: u8 }
    impl TcpStream {
        pub uninterp spec fn cfg(&self) -> Config;
        pub uninterp spec fn log(&self) -> Seq<Exch>;
        /// an error item was delivered and the stream has not been polled since: stream.rs tears the failed
        /// connection down only when it is resumed after that item (U8 verifies that it then does)
        pub uninterp spec fn pending_drop(&self) -> bool;
        /// an exchange was started while a failed connection was still installed
        pub uninterp spec fn reused_bad(&self) -> bool;
        #[verifier::external_body]
        pub fn config(&self) -> (r: &Config) ensures *r == self.cfg() { unimplemented!() }
    }
}
use crate::config::Config;
use crate::stream::{TcpStream, Exch, Req, AnyItems};
impl<T> VStream<T> {
    /// `stream.next().await` on the stream that owns `src` (N17)
    #[verifier::external_body]
    pub fn next_on(&mut self, src: &mut TcpStream) -> (r: Option<Result<T>>)
        ensures
            old(self).rest().len() == 0 ==> r is None && final(self).rest() == old(self).rest(),
            old(self).rest().len() > 0 ==> r == Some(old(self).rest()[0]) && final(self).rest() == old(self).rest().skip(1),
            final(src).cfg() == old(src).cfg(), final(src).log() == old(src).log(),
            final(src).reused_bad() == old(src).reused_bad(),
            final(src).pending_drop() == (r matches Some(Err(_))),
    { unimplemented!() }
}
/// C09 at the client level: no failed connection is left installed, none was reused
pub open spec fn clean(c: &Feig) -> bool { !c.socket.pending_drop() && !c.socket.reused_bad() }

//@ include u6_client.tpl
//@ include u6_props.tpl

//@ tag canary
pub proof fn zx_canary() ensures false {}
//@ untag

} // verus!
fn main() {}
