    // ------------------------------------------------------------------ GetSystemInfoResponse
    //@ item src:zvt/src/feig/sequences.rs | enum GetSystemInfoResponse
    impl zvt_builder::ZvtParser for GetSystemInfoResponse {
        /// a variant is returned only for its own control field, with what its packet type decodes on its own
        open spec fn parse_ok(b: Seq<u8>, v: Self) -> bool {
            match v {
                Self::CVendFunctionsEnhancedSystemInformationCompletion(x) => b.len() >= 2 && b[0] == 6 && b[1] == 15 && zvt_builder::tid_of(x) == 10 /* feig::packets::CVendFunctionsEnhancedSystemInformationCompletion */ && zvt_builder::zd_ok_of(b, x),
                Self::Abort(x) => b.len() >= 2 && b[0] == 6 && b[1] == 30 && zvt_builder::tid_of(x) == 4 /* packets::Abort */ && zvt_builder::zd_ok_of(b, x),
                // a variant the frozen reply table does not know can never be a correct result
                #[allow(unreachable_patterns)]
                _ => false,
            }
        }
        /// the command's reply set
        open spec fn ctrl_known(c: u8, i: u8) -> bool { (c == 6 && i == 15) || (c == 6 && i == 30) }
        /// a packet of the reply set (an APDU has at least its three header bytes) that its own packet type decodes is accepted
        open spec fn parse_defined(b: Seq<u8>) -> bool { b.len() >= 3 && ((b[0] == 6 && b[1] == 15 && <crate::packets::CVendFunctionsEnhancedSystemInformationCompletion as zvt_builder::ZvtSerializer>::zd_defined(b)) || (b[0] == 6 && b[1] == 30 && <crate::packets::Abort as zvt_builder::ZvtSerializer>::zd_defined(b))) }
        //@ fn exp:zvt | impl zvt_builder::ZvtParser for GetSystemInfoResponse | zvt_parse | mod=feig::sequences props=C15,C02
        //@ end
    }
    // ------------------------------------------------------------------ WriteFileResponse
    //@ item src:zvt/src/feig/sequences.rs | enum WriteFileResponse
    impl zvt_builder::ZvtParser for WriteFileResponse {
        /// a variant is returned only for its own control field, with what its packet type decodes on its own
        open spec fn parse_ok(b: Seq<u8>, v: Self) -> bool {
            match v {
                Self::CompletionData(x) => b.len() >= 2 && b[0] == 6 && b[1] == 15 && zvt_builder::tid_of(x) == 3 /* packets::CompletionData */ && zvt_builder::zd_ok_of(b, x),
                Self::RequestForData(x) => b.len() >= 2 && b[0] == 4 && b[1] == 12 && zvt_builder::tid_of(x) == 9 /* feig::packets::RequestForData */ && zvt_builder::zd_ok_of(b, x),
                Self::Abort(x) => b.len() >= 2 && b[0] == 6 && b[1] == 30 && zvt_builder::tid_of(x) == 4 /* packets::Abort */ && zvt_builder::zd_ok_of(b, x),
                // a variant the frozen reply table does not know can never be a correct result
                #[allow(unreachable_patterns)]
                _ => false,
            }
        }
        /// the command's reply set
        open spec fn ctrl_known(c: u8, i: u8) -> bool { (c == 6 && i == 15) || (c == 4 && i == 12) || (c == 6 && i == 30) }
        /// a packet of the reply set (an APDU has at least its three header bytes) that its own packet type decodes is accepted
        open spec fn parse_defined(b: Seq<u8>) -> bool { b.len() >= 3 && ((b[0] == 6 && b[1] == 15 && <crate::packets::CompletionData as zvt_builder::ZvtSerializer>::zd_defined(b)) || (b[0] == 4 && b[1] == 12 && <crate::packets::RequestForData as zvt_builder::ZvtSerializer>::zd_defined(b)) || (b[0] == 6 && b[1] == 30 && <crate::packets::Abort as zvt_builder::ZvtSerializer>::zd_defined(b))) }
        //@ fn exp:zvt | impl zvt_builder::ZvtParser for WriteFileResponse | zvt_parse | mod=feig::sequences props=C15,C02
        //@ end
    }
    // ------------------------------------------------------------------ FactoryResetResponse
    //@ item src:zvt/src/feig/sequences.rs | enum FactoryResetResponse
    impl zvt_builder::ZvtParser for FactoryResetResponse {
        /// a variant is returned only for its own control field, with what its packet type decodes on its own
        open spec fn parse_ok(b: Seq<u8>, v: Self) -> bool {
            match v {
                Self::CompletionData(x) => b.len() >= 2 && b[0] == 6 && b[1] == 15 && zvt_builder::tid_of(x) == 3 /* packets::CompletionData */ && zvt_builder::zd_ok_of(b, x),
                // a variant the frozen reply table does not know can never be a correct result
                #[allow(unreachable_patterns)]
                _ => false,
            }
        }
        /// the command's reply set
        open spec fn ctrl_known(c: u8, i: u8) -> bool { (c == 6 && i == 15) }
        /// a packet of the reply set (an APDU has at least its three header bytes) that its own packet type decodes is accepted
        open spec fn parse_defined(b: Seq<u8>) -> bool { b.len() >= 3 && ((b[0] == 6 && b[1] == 15 && <crate::packets::CompletionData as zvt_builder::ZvtSerializer>::zd_defined(b))) }
        //@ fn exp:zvt | impl zvt_builder::ZvtParser for FactoryResetResponse | zvt_parse | mod=feig::sequences props=C15,C02
        //@ end
    }
    // ------------------------------------------------------------------ ChangeHostConfigurationResponse
    //@ item src:zvt/src/feig/sequences.rs | enum ChangeHostConfigurationResponse
    impl zvt_builder::ZvtParser for ChangeHostConfigurationResponse {
        /// a variant is returned only for its own control field, with what its packet type decodes on its own
        open spec fn parse_ok(b: Seq<u8>, v: Self) -> bool {
            match v {
                Self::CompletionData(x) => b.len() >= 2 && b[0] == 6 && b[1] == 15 && zvt_builder::tid_of(x) == 3 /* packets::CompletionData */ && zvt_builder::zd_ok_of(b, x),
                Self::Abort(x) => b.len() >= 2 && b[0] == 6 && b[1] == 30 && zvt_builder::tid_of(x) == 4 /* packets::Abort */ && zvt_builder::zd_ok_of(b, x),
                // a variant the frozen reply table does not know can never be a correct result
                #[allow(unreachable_patterns)]
                _ => false,
            }
        }
        /// the command's reply set
        open spec fn ctrl_known(c: u8, i: u8) -> bool { (c == 6 && i == 15) || (c == 6 && i == 30) }
        /// a packet of the reply set (an APDU has at least its three header bytes) that its own packet type decodes is accepted
        open spec fn parse_defined(b: Seq<u8>) -> bool { b.len() >= 3 && ((b[0] == 6 && b[1] == 15 && <crate::packets::CompletionData as zvt_builder::ZvtSerializer>::zd_defined(b)) || (b[0] == 6 && b[1] == 30 && <crate::packets::Abort as zvt_builder::ZvtSerializer>::zd_defined(b))) }
        //@ fn exp:zvt | impl zvt_builder::ZvtParser for ChangeHostConfigurationResponse | zvt_parse | mod=feig::sequences props=C15,C02
        //@ end
    }
