// U4 — zvt/src/io.rs: PacketTransport (DESIGN.md §6 C04; feeds C05/C06)
#![allow(unused_imports, unused_variables, dead_code, unused_mut, non_snake_case, unused_parens, unused_braces)]
use vstd::prelude::*;
verus! {

global size_of usize == 8;

pub mod n6 {
    use vstd::prelude::*;
    //@ include ../prelude/n6.rs
    //@ include ../prelude/wire.rs
}
use n6::*;

//@ include pt_prelude.tpl PACKETS=empty.tpl
/// `Err(e.into())` / `?` into anyhow::Error (N10)
pub trait IntoVErr { spec fn as_verr(self) -> VErr; fn into_verr(self) -> (r: VErr) ensures r == self.as_verr(); }
impl IntoVErr for ZVTError { open spec fn as_verr(self) -> VErr { VErr::Zvt(self) } fn into_verr(self) -> (r: VErr) { VErr::Zvt(self) } }

impl<S> PacketTransport<S>
where
    S: VSource,
{
    //@ include pt_methods.tpl MODE=verify GHOST=pt_read_ghost.tpl
}

//@ tag io.header_agreement C04
/// the header the writer emits and the reader's interpretation agree for every body length 0..65535
pub proof fn lemma_header_agreement(class: u8, instr: u8, body: Seq<u8>, rest: Seq<u8>)
    requires body.len() <= 65535,
    ensures
        apdu_total(seq![class, instr] + adpu_ser(body.len()) + body + rest)
            == Some((2 + adpu_ser(body.len()).len() + body.len()) as int),
        (seq![class, instr] + adpu_ser(body.len()) + body + rest).take((2 + adpu_ser(body.len()).len() + body.len()) as int)
            =~= seq![class, instr] + adpu_ser(body.len()) + body,
        adpu_ser(body.len()).len() == (if body.len() < 255 { 1nat } else { 3nat }),
{
    let n = body.len();
    let b = seq![class, instr] + adpu_ser(n) + body + rest;
    if n >= 255 {
        assert(b[2] == 0xff);
        assert(b[3] == (n % 256) as u8);
        assert(b[4] == ((n / 256) % 256) as u8);
        assert(n == (n % 256) + 256 * ((n / 256) % 256));
    } else {
        assert(b[2] == n as u8);
    }
}

/// k packets back to back are read as those k packets, each read consuming exactly one of them
pub open spec fn frames(b: Seq<u8>, k: nat) -> Option<int>
    decreases k
{
    if k == 0 { Some(0int) } else {
        match frames(b, (k - 1) as nat) {
            None => None,
            Some(off) => match apdu_total(b.skip(off)) { None => None, Some(t) => Some(off + t) },
        }
    }
}
pub proof fn lemma_partial_stream_is_error(b: Seq<u8>, cut: int)
    requires apdu_total(b) matches Some(tot) && 0 <= cut < tot,
    ensures apdu_total(b.take(cut)) is None,
{
    let c = b.take(cut);
    if cut >= 3 { assert(c[2] == b[2]); if b[2] == 0xff && cut >= 5 { assert(c[3] == b[3]); assert(c[4] == b[4]); } }
}
//@ untag

//@ tag canary
pub proof fn zx_canary() ensures false {}
//@ untag

} // verus!
fn main() {}
