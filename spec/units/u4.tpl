// U4 — zvt/src/io.rs: PacketTransport (DESIGN.md §6 C04; feeds C05/C06)
#![allow(unused_imports, unused_variables, dead_code, unused_mut, non_snake_case, unused_parens, unused_braces)]
use vstd::prelude::*;
verus! {

global size_of usize == 8;

pub mod n6 {
    use vstd::prelude::*;
    //@ include ../prelude/n6.rs
    //@ include ../prelude/wire.rs
}
use n6::*;

//@ item src:zvt_builder/src/lib.rs | struct Tag | derive=Debug,PartialEq,Eq,Structural
//@ item src:zvt_builder/src/lib.rs | enum ZVTError | derive=Debug
#[derive(Debug)]
pub enum FeigError { Unused }
// N10: one error type; ZVTResult and anyhow::Result are the same alias here
pub type Result<T> = core::result::Result<T, VErr>;
pub type ZVTResult<T> = core::result::Result<T, VErr>;
//@ include ../prelude/transport.rs

// the `encoding::Default: encoding::Encoding<T>` bounds of io.rs are kept; they carry no behaviour here
pub mod encoding {
    pub struct Default;
    pub trait Encoding<T> {}
    impl<T> Encoding<T> for Default {}
}

/// Abstract contract of a reply parser (proved per enum in U3)
pub trait ZvtParser: Sized {
    spec fn parse_spec(b: Seq<u8>) -> Option<Self>;
    //@ fn src:zvt_builder/src/lib.rs | trait ZvtParser | zvt_parse | sig
        ensures
            r matches Ok(v) ==> Self::parse_spec(bytes@) == Some(v),
            r is Err ==> Self::parse_spec(bytes@) is None,
    //@ end
}
/// Abstract contract of a packet serialiser (proved in U1/U2)
pub trait ZvtSerializer: Sized {
    spec fn zs_spec(&self) -> Seq<u8>;
    fn zvt_serialize(&self) -> (r: Vec<u8>)
        ensures r@ =~= self.zs_spec();
}
pub mod packets {
    use vstd::prelude::*;
    //@ item src:zvt/src/packets.rs | struct Ack
    impl super::ZvtSerializer for Ack {
        /// 80 00 00
        open spec fn zs_spec(&self) -> Seq<u8> { seq![0x80u8, 0x00u8, 0x00u8] }
        #[verifier::external_body]
        fn zvt_serialize(&self) -> (r: Vec<u8>) { unimplemented!() }
    }
}
/// the reply enum `io::Ack`: only 80 00 parses
//@ item src:zvt/src/io.rs | enum Ack
impl ZvtParser for Ack {
    uninterp spec fn parse_spec(b: Seq<u8>) -> Option<Self>;
    #[verifier::external_body]
    fn zvt_parse(bytes: &[u8]) -> (r: ZVTResult<Self>) { unimplemented!() }
}

//@ item src:zvt/src/io.rs | struct PacketTransport

impl<S> PacketTransport<S>
where
    S: VSource,
{
    //@ fn src:zvt/src/io.rs | impl PacketTransport<S> | read_packet | props=C04,C02
        ensures
    //@ tag io.read.nowrite C04 C06
            final(self).source.writes() == old(self).source.writes(),
    //@ tag io.read.exact C04
            r matches Ok(p) ==> (apdu_total(old(self).source.inbox()) matches Some(tot)
                && final(self).source.inbox() =~= old(self).source.inbox().skip(tot)
                && final(self).source.consumed() == old(self).source.consumed() + tot
                && T::parse_spec(old(self).source.inbox().take(tot)) == Some(p)),
    //@ tag io.read.eof C04 C06
            apdu_total(old(self).source.inbox()) is None ==> r is Err,
    //@ tag io.read.undecodable C06
            (apdu_total(old(self).source.inbox()) matches Some(tot) && T::parse_spec(old(self).source.inbox().take(tot)) is None) ==> r is Err,
    //@ entry
        let ghost inbox0 = self.source.inbox();
    //@ tail
        proof { assert(buf@ =~= inbox0.take(buf@.len() as int)); }
    //@ end

    //@ fn src:zvt/src/io.rs | impl PacketTransport<S> | write_packet | props=C04,C05
        ensures
    //@ tag io.write.exact C04 C05
            final(self).source.writes() == old(self).source.writes().push((msg.zs_spec(), old(self).source.consumed())),
            final(self).source.inbox() == old(self).source.inbox(),
            final(self).source.consumed() == old(self).source.consumed(),
    //@ end

    //@ fn src:zvt/src/io.rs | impl PacketTransport<S> | read_packet_with_ack | props=C04,C05
        ensures
    //@ tag io.readack C05 C06
            r matches Ok(p) ==> (apdu_total(old(self).source.inbox()) matches Some(tot)
                && final(self).source.inbox() =~= old(self).source.inbox().skip(tot)
                && T::parse_spec(old(self).source.inbox().take(tot)) == Some(p)
                && final(self).source.writes() == old(self).source.writes().push((seq![0x80u8, 0x00u8, 0x00u8], (old(self).source.consumed() + tot) as nat))),
            // never acknowledge what could not be read or interpreted
            (apdu_total(old(self).source.inbox()) is None
                || (apdu_total(old(self).source.inbox()) matches Some(tot) && T::parse_spec(old(self).source.inbox().take(tot)) is None))
              ==> (r is Err && final(self).source.writes() == old(self).source.writes()),
    //@ end

    //@ fn src:zvt/src/io.rs | impl PacketTransport<S> | write_packet_with_ack | props=C04,C05
        ensures
    //@ tag io.writeack C05 C06
            // the command is written exactly once, first, and nothing else is written
            final(self).source.writes() == old(self).source.writes().push((msg.zs_spec(), old(self).source.consumed())),
            r is Ok ==> (apdu_total(old(self).source.inbox()) matches Some(tot)
                && final(self).source.inbox() =~= old(self).source.inbox().skip(tot)
                && final(self).source.consumed() == old(self).source.consumed() + tot
                && Ack::parse_spec(old(self).source.inbox().take(tot)) is Some),
            // anything but a positive acknowledgement is an error
            (apdu_total(old(self).source.inbox()) is None
                || (apdu_total(old(self).source.inbox()) matches Some(tot) && Ack::parse_spec(old(self).source.inbox().take(tot)) is None))
              ==> r is Err,
    //@ end
}

//@ tag io.header_agreement C04
/// the header the writer emits and the reader's interpretation agree for every body length 0..65535
pub proof fn lemma_header_agreement(class: u8, instr: u8, body: Seq<u8>, rest: Seq<u8>)
    requires body.len() <= 65535,
    ensures
        apdu_total(seq![class, instr] + adpu_ser(body.len()) + body + rest)
            == Some((2 + adpu_ser(body.len()).len() + body.len()) as int),
        (seq![class, instr] + adpu_ser(body.len()) + body + rest).take((2 + adpu_ser(body.len()).len() + body.len()) as int)
            =~= seq![class, instr] + adpu_ser(body.len()) + body,
        adpu_ser(body.len()).len() == (if body.len() < 255 { 1nat } else { 3nat }),
{
    let n = body.len();
    let b = seq![class, instr] + adpu_ser(n) + body + rest;
    if n >= 255 {
        assert(b[2] == 0xff);
        assert(b[3] == (n % 256) as u8);
        assert(b[4] == ((n / 256) % 256) as u8);
        assert(n == (n % 256) + 256 * ((n / 256) % 256));
    } else {
        assert(b[2] == n as u8);
    }
}

/// k packets back to back are read as those k packets, each read consuming exactly one of them
pub open spec fn frames(b: Seq<u8>, k: nat) -> Option<int>
    decreases k
{
    if k == 0 { Some(0int) } else {
        match frames(b, (k - 1) as nat) {
            None => None,
            Some(off) => match apdu_total(b.skip(off)) { None => None, Some(t) => Some(off + t) },
        }
    }
}
pub proof fn lemma_partial_stream_is_error(b: Seq<u8>, cut: int)
    requires apdu_total(b) matches Some(tot) && 0 <= cut < tot,
    ensures apdu_total(b.take(cut)) is None,
{
    let c = b.take(cut);
    if cut >= 3 { assert(c[2] == b[2]); if b[2] == 0xff && cut >= 5 { assert(c[3] == b[3]); assert(c[4] == b[4]); } }
}
//@ untag

//@ tag canary
pub proof fn zx_canary() ensures false {}
//@ untag

} // verus!
fn main() {}
