    // control-field constants: rustc's expansion of #[zvt_control_field]. Verus exposes the value of an
    // associated const only inside the module of its impl, hence the impls are placed next to their users.
    //@ item exp:zvt | impl zvt_builder::ZvtCommand for SetTimeAndDate | mod=packets selfty=crate::packets::SetTimeAndDate
    //@ item exp:zvt | impl zvt_builder::ZvtCommand for StatusInformation | mod=packets selfty=crate::packets::StatusInformation
    //@ item exp:zvt | impl zvt_builder::ZvtCommand for IntermediateStatusInformation | mod=packets selfty=crate::packets::IntermediateStatusInformation
    //@ item exp:zvt | impl zvt_builder::ZvtCommand for CompletionData | mod=packets selfty=crate::packets::CompletionData
    //@ item exp:zvt | impl zvt_builder::ZvtCommand for Abort | mod=packets selfty=crate::packets::Abort
    //@ item exp:zvt | impl zvt_builder::ZvtCommand for PartialReversalAbort | mod=packets selfty=crate::packets::PartialReversalAbort
    //@ item exp:zvt | impl zvt_builder::ZvtCommand for PrintLine | mod=packets selfty=crate::packets::PrintLine
    //@ item exp:zvt | impl zvt_builder::ZvtCommand for PrintTextBlock | mod=packets selfty=crate::packets::PrintTextBlock
    //@ item exp:zvt | impl zvt_builder::ZvtCommand for RequestForData | mod=feig::packets selfty=crate::packets::RequestForData
    //@ item exp:zvt | impl zvt_builder::ZvtCommand for CVendFunctionsEnhancedSystemInformationCompletion | mod=feig::packets selfty=crate::packets::CVendFunctionsEnhancedSystemInformationCompletion
