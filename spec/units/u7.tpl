// U7 — zvt/src/feig/sequences.rs: the firmware upload exchange of WriteFile::into_stream (DESIGN.md §6 C11; also C05/C06)
// Two halves, split at the statement `src.write_packet_with_ack(&packet)`: the announcement (manifest) built in front of it
// and the exchange from it on. `convert_dir` (std::path, directory probing) is outside reach: trusted shell.
#![allow(unused_imports, unused_variables, dead_code, unused_mut, non_snake_case, unused_parens, unused_braces)]
use vstd::prelude::*;
verus! {

global size_of usize == 8;

pub mod n6 {
    use vstd::prelude::*;
    //@ include ../prelude/n6.rs
    //@ include ../prelude/wire.rs
}
use n6::*;

pub struct NaiveDateTime { pub opaque: u64 }
//@ include pt_prelude.tpl PACKETS=packets_all.tpl
//@ include ../prelude/sink.rs
pub trait IntoVErr { spec fn as_verr(self) -> VErr; fn into_verr(self) -> (r: VErr) ensures r == self.as_verr(); }
impl IntoVErr for ZVTError { open spec fn as_verr(self) -> VErr { VErr::Zvt(self) } fn into_verr(self) -> (r: VErr) { VErr::Zvt(self) } }

impl<S> PacketTransport<S>
where
    S: VSource,
{
    pub open spec fn stamp(&self) -> (nat, nat) { (self.source.consumed(), self.source.writes().len()) }
    //@ include pt_methods.tpl MODE=ext GHOST=empty.tpl
}
pub open spec fn ACK_BYTES() -> Seq<u8> { seq![0x80u8, 0x00u8, 0x00u8] }

pub mod feig { pub mod packets {
    use vstd::prelude::*;
    //@ item src:zvt/src/feig/packets/mod.rs | struct RequestForData
    //@ item src:zvt/src/feig/packets/mod.rs | struct WriteData
    //@ item src:zvt/src/feig/packets/mod.rs | struct WriteFile
    pub mod tlv {
        use vstd::prelude::*;
        //@ item src:zvt/src/feig/packets/tlv.rs | struct File
        //@ item src:zvt/src/feig/packets/tlv.rs | struct WriteData
        //@ item src:zvt/src/feig/packets/tlv.rs | struct WriteFile
    }
}
pub mod sequences {
    use vstd::prelude::*;
    use crate::packets;
    //@ item src:zvt/src/feig/sequences.rs | enum WriteFileResponse
    //@ include u7_body.tpl
}
}
/// wire form of a data block, as a function of what it carries (that it is the true serialisation is U2's business)
pub uninterp spec fn wd_bytes(file_id: Option<u8>, file_offset: Option<u32>, file_size: Option<u32>, payload: Option<Seq<u8>>) -> Seq<u8>;
pub uninterp spec fn wd_bytes_other(w: feig::packets::WriteData) -> Seq<u8>;
impl ZvtSerializer for feig::packets::WriteData {
    open spec fn zs_spec(&self) -> Seq<u8> {
        match self.tlv {
            Some(t) => match t.file {
                Some(f) => wd_bytes(f.file_id, f.file_offset, f.file_size, match f.payload { Some(p) => Some(p@), None => None }),
                None => wd_bytes_other(*self),
            },
            None => wd_bytes_other(*self),
        }
    }
    #[verifier::external_body]
    fn zvt_serialize(&self) -> (r: Vec<u8>) { unimplemented!() }
}
pub uninterp spec fn wf_bytes(w: feig::packets::WriteFile) -> Seq<u8>;
impl ZvtSerializer for feig::packets::WriteFile {
    open spec fn zs_spec(&self) -> Seq<u8> { wf_bytes(*self) }
    #[verifier::external_body]
    fn zvt_serialize(&self) -> (r: Vec<u8>) { unimplemented!() }
}

// ---- the payload directory as the exchange sees it: id -> path, path -> content (A2: regular files, no short reads) ----
#[verifier::external_body]
#[verifier::accept_recursive_types(K)]
#[verifier::accept_recursive_types(V)]
pub struct HashMap<K, V> { _p: core::marker::PhantomData<(K, V)> }
/// the one instance the upload uses: file id -> path (T5)
pub type VFiles = HashMap<u8, String>;
/// N11 writes `HashMap::new()` as `VMap::new()`
pub type VMap = HashMap<u8, String>;
impl HashMap<u8, String> {
    /// announced files: id -> path text
    pub uninterp spec fn paths(&self) -> Map<u8, Seq<char>>;
    #[verifier::external_body]
    pub fn get(&self, id: &u8) -> (r: Option<&String>)
        ensures
            self.paths().contains_key(*id) ==> (r matches Some(p) && p@ == self.paths()[*id]),
            !self.paths().contains_key(*id) ==> r is None,
    { unimplemented!() }
    /// the order in which `HashMap::iter` happens to deliver the entries (arbitrary)
    pub uninterp spec fn listing(&self) -> Seq<(&u8, &String)>;
    /// `HashMap::iter()`: every entry exactly once, in some order (T5)
    #[verifier::external_body]
    pub fn iter<'a>(&'a self) -> (r: Vec<(&'a u8, &'a String)>)
        ensures
            r@ == self.listing(),
            self.paths().dom().finite(), self.listing().len() == self.paths().dom().len(),
            forall|i: int| 0 <= i < self.listing().len() ==> self.paths().contains_key(*(#[trigger] self.listing()[i]).0) && self.listing()[i].1@ == self.paths()[*self.listing()[i].0],
            forall|i: int, j: int| 0 <= i < j < self.listing().len() ==> *(#[trigger] self.listing()[i]).0 != *(#[trigger] self.listing()[j]).0,
    { unimplemented!() }
    #[verifier::external_body]
    pub fn len(&self) -> (r: usize) ensures self.paths().dom().finite(), r == self.paths().dom().len() { unimplemented!() }
    #[verifier::external_body]
    pub fn new() -> (r: Self) ensures r.paths() == Map::<u8, Seq<char>>::empty() { unimplemented!() }
    #[verifier::external_body]
    pub fn insert(&mut self, k: u8, v: String) -> (r: Option<String>) ensures final(self).paths() == old(self).paths().insert(k, v@) { unimplemented!() }
    #[verifier::external_body]
    pub fn is_empty(&self) -> (r: bool) ensures r <==> self.paths() =~= Map::<u8, Seq<char>>::empty() { unimplemented!() }
}
// ---- std::path as far as convert_dir uses it: a path is its text; the file system answers `exists` (A2: unchanged meanwhile)
pub uninterp spec fn path_join(dir: Seq<char>, rel: Seq<char>) -> Seq<char>;
pub uninterp spec fn fs_exists(path: Seq<char>) -> bool;
/// the path is valid Unicode (`OsString::into_string` succeeds exactly then)
pub uninterp spec fn path_utf8(path: Seq<char>) -> bool;
#[verifier::external_body]
pub struct Path { _p: u8 }
#[verifier::external_body]
#[derive(Debug)]
pub struct OsString { _p: u8 }
impl Path {
    pub uninterp spec fn text(&self) -> Seq<char>;
    #[verifier::external_body]
    pub fn new(s: &str) -> (r: &Path) ensures r.text() == s@, path_utf8(s@) { unimplemented!() }
    /// `Path::join`: joining Unicode paths gives a Unicode path
    #[verifier::external_body]
    pub fn join(&self, rel: &Path) -> (r: PathBuf)
        ensures r.text() == path_join(self.text(), rel.text()), (path_utf8(self.text()) && path_utf8(rel.text())) ==> path_utf8(r.text()),
    { unimplemented!() }
}
impl PathBuf {
    pub uninterp spec fn text(&self) -> Seq<char>;
    #[verifier::external_body]
    pub fn exists(&self) -> (r: bool) ensures r == fs_exists(self.text()) { unimplemented!() }
    #[verifier::external_body]
    pub fn into_os_string(self) -> (r: OsString) ensures r.text() == self.text() { unimplemented!() }
    /// `&PathBuf` -> `&Path` (Deref)
    #[verifier::external_body]
    pub fn as_path(&self) -> (r: &Path) ensures r.text() == self.text() { unimplemented!() }
}
impl OsString {
    pub uninterp spec fn text(&self) -> Seq<char>;
    #[verifier::external_body]
    pub fn into_string(self) -> (r: core::result::Result<String, OsString>)
        ensures path_utf8(self.text()) <==> r is Ok, r matches Ok(s) ==> s@ == self.text(),
    { unimplemented!() }
}
#[verifier::external_body]
pub struct PathBuf { _p: u8 }
/// bytes of the file at a path (the disk is not modified during the upload)
pub uninterp spec fn disk(path: Seq<char>) -> Seq<u8>;
/// prophecy, unconstrained: the file system itself does not fail (an existing file opens, a read returns)
pub uninterp spec fn disk_reliable() -> bool;
pub mod std {
pub mod io {
    use vstd::prelude::*;
    pub enum SeekFrom { Start(u64), End(i64), Current(i64) } pub trait Read {} pub trait Seek {}
    pub enum ErrorKind { InvalidData, NotFound, Other }
    /// std::io::Error as far as it is constructed here
    pub struct Error { pub kind: ErrorKind }
    impl Error {
        pub fn new(kind: ErrorKind, _msg: &str) -> (r: Error) ensures r.kind == kind { Error { kind } }
    }
    impl crate::IntoVErr for Error { open spec fn as_verr(self) -> crate::VErr { crate::VErr::Io } fn into_verr(self) -> (r: crate::VErr) { crate::VErr::Io } }
}
pub mod os { pub mod unix { pub mod fs { pub trait FileExt {} } } }
pub mod fs {
    use vstd::prelude::*;
    use crate::{Result, disk, disk_reliable, fs_exists};
    use crate::std::io::SeekFrom;
    /// an open regular file: which path it was opened on, and its cursor (A2: the disk does not change, no short reads)
    pub struct File { pub path: Ghost<Seq<char>>, pub pos: Ghost<nat> }
    impl File {
        /// `std::fs::File::open(path)?`
        #[verifier::external_body]
        pub fn open(p: &String) -> (r: Result<File>)
            ensures r matches Ok(f) ==> f.path@ == p@ && f.pos@ == 0,
                (disk_reliable() && fs_exists(p@)) ==> r is Ok,
        { unimplemented!() }
        /// `Seek::seek(pos)?`: `End(0)` moves to the end and returns the size; `Start(p)` moves to p and returns p
        #[verifier::external_body]
        pub fn seek(&mut self, pos: SeekFrom) -> (r: Result<u64>)
            ensures
                final(self).path == old(self).path,
                (pos matches SeekFrom::End(d) && d == 0) ==> (r matches Ok(n) ==> n == disk(old(self).path@).len() && final(self).pos@ == n),
                pos matches SeekFrom::Start(p) ==> (r matches Ok(n) ==> n == p && final(self).pos@ == p),
        { unimplemented!() }
        /// `Read::read(&mut buf)?` at the cursor, which advances by what was read
        #[verifier::external_body]
        pub fn read(&mut self, buf: &mut [u8]) -> (r: Result<usize>)
            ensures
                final(self).path == old(self).path,
                final(buf)@.len() == old(buf)@.len(),
                r matches Ok(n) ==> ({
                    let offset = old(self).pos@ as int;
                    let avail = if offset >= disk(old(self).path@).len() { 0int } else { disk(old(self).path@).len() - offset };
                    &&& n as int == (if avail < old(buf)@.len() { avail } else { old(buf)@.len() as int })
                    &&& forall|i: int| 0 <= i < n ==> final(buf)@[i] == disk(old(self).path@)[offset + i]
                    &&& final(self).pos@ == old(self).pos@ + n
                }),
        { unimplemented!() }
        /// `FileExt::read_at(&mut buf, offset)?` — A2: as many bytes as fit and exist, no short reads
        #[verifier::external_body]
        pub fn read_at(&self, buf: &mut [u8], offset: u64) -> (r: Result<usize>)
            ensures
                final(buf)@.len() == old(buf)@.len(),
                r matches Ok(n) ==> ({
                    let avail = if offset as int >= disk(self.path@).len() { 0int } else { disk(self.path@).len() - offset as int };
                    &&& n as int == (if avail < old(buf)@.len() { avail } else { old(buf)@.len() as int })
                    &&& forall|i: int| 0 <= i < n ==> final(buf)@[i] == disk(self.path@)[offset as int + i]
                }),
                disk_reliable() ==> r is Ok,
        { unimplemented!() }
    }
} }
pub mod feig_sequences_holder {}
impl ZvtParser for feig::sequences::WriteFileResponse {
    uninterp spec fn parse_spec(b: Seq<u8>) -> Option<Self>;
    #[verifier::external_body]
    fn zvt_parse(bytes: &[u8]) -> (r: ZVTResult<Self>) { unimplemented!() }
}
/// what the terminal is to receive for a data request (id, offset): that id, that offset, no size, and the file's
/// bytes from the offset up to the block size or the end of the file
pub open spec fn data_block(files: &VFiles, id: u8, off: u32, block: nat) -> Seq<u8> {
    let content = disk(files.paths()[id]);
    let avail = if off as int >= content.len() { 0int } else { content.len() - off as int };
    let n = if avail < block { avail } else { block as int };
    wd_bytes(Some(id), Some(off), None, Some(if n == 0 { Seq::<u8>::empty() } else { content.subrange(off as int, off as int + n) }))
}

//@ tag canary
pub proof fn zx_canary() ensures false {}
//@ untag

} // verus!
fn main() {}
