    // ------------------------------------------------------------------ RegistrationResponse
    //@ item src:zvt/src/sequences.rs | enum RegistrationResponse
    impl zvt_builder::ZvtParser for RegistrationResponse {
        /// a variant is returned only for its own control field, with what its packet type decodes on its own
        open spec fn parse_ok(b: Seq<u8>, v: Self) -> bool {
            match v {
                Self::CompletionData(x) => b.len() >= 2 && b[0] == 6 && b[1] == 15 && zvt_builder::tid_of(x) == 3 /* packets::CompletionData */ && zvt_builder::zd_ok_of(b, x),
                // a variant the frozen reply table does not know can never be a correct result
                #[allow(unreachable_patterns)]
                _ => false,
            }
        }
        /// the command's reply set
        open spec fn ctrl_known(c: u8, i: u8) -> bool { (c == 6 && i == 15) }
        /// a packet of the reply set (an APDU has at least its three header bytes) that its own packet type decodes is accepted
        open spec fn parse_defined(b: Seq<u8>) -> bool { b.len() >= 3 && ((b[0] == 6 && b[1] == 15 && <crate::packets::CompletionData as zvt_builder::ZvtSerializer>::zd_defined(b))) }
        //@ fn exp:zvt | impl zvt_builder::ZvtParser for RegistrationResponse | zvt_parse | mod=sequences props=C15,C02
        //@ end
    }
    // ------------------------------------------------------------------ ReadCardResponse
    //@ item src:zvt/src/sequences.rs | enum ReadCardResponse
    impl zvt_builder::ZvtParser for ReadCardResponse {
        /// a variant is returned only for its own control field, with what its packet type decodes on its own
        open spec fn parse_ok(b: Seq<u8>, v: Self) -> bool {
            match v {
                Self::IntermediateStatusInformation(x) => b.len() >= 2 && b[0] == 4 && b[1] == 255 && zvt_builder::tid_of(x) == 2 /* packets::IntermediateStatusInformation */ && zvt_builder::zd_ok_of(b, x),
                Self::StatusInformation(x) => b.len() >= 2 && b[0] == 4 && b[1] == 15 && zvt_builder::tid_of(x) == 1 /* packets::StatusInformation */ && zvt_builder::zd_ok_of(b, x),
                Self::Abort(x) => b.len() >= 2 && b[0] == 6 && b[1] == 30 && zvt_builder::tid_of(x) == 4 /* packets::Abort */ && zvt_builder::zd_ok_of(b, x),
                // a variant the frozen reply table does not know can never be a correct result
                #[allow(unreachable_patterns)]
                _ => false,
            }
        }
        /// the command's reply set
        open spec fn ctrl_known(c: u8, i: u8) -> bool { (c == 4 && i == 255) || (c == 4 && i == 15) || (c == 6 && i == 30) }
        /// a packet of the reply set (an APDU has at least its three header bytes) that its own packet type decodes is accepted
        open spec fn parse_defined(b: Seq<u8>) -> bool { b.len() >= 3 && ((b[0] == 4 && b[1] == 255 && <crate::packets::IntermediateStatusInformation as zvt_builder::ZvtSerializer>::zd_defined(b)) || (b[0] == 4 && b[1] == 15 && <crate::packets::StatusInformation as zvt_builder::ZvtSerializer>::zd_defined(b)) || (b[0] == 6 && b[1] == 30 && <crate::packets::Abort as zvt_builder::ZvtSerializer>::zd_defined(b))) }
        //@ fn exp:zvt | impl zvt_builder::ZvtParser for ReadCardResponse | zvt_parse | mod=sequences props=C15,C02
        //@ end
    }
    // ------------------------------------------------------------------ InitializationResponse
    //@ item src:zvt/src/sequences.rs | enum InitializationResponse
    impl zvt_builder::ZvtParser for InitializationResponse {
        /// a variant is returned only for its own control field, with what its packet type decodes on its own
        open spec fn parse_ok(b: Seq<u8>, v: Self) -> bool {
            match v {
                Self::IntermediateStatusInformation(x) => b.len() >= 2 && b[0] == 4 && b[1] == 255 && zvt_builder::tid_of(x) == 2 /* packets::IntermediateStatusInformation */ && zvt_builder::zd_ok_of(b, x),
                Self::PrintLine(x) => b.len() >= 2 && b[0] == 6 && b[1] == 209 && zvt_builder::tid_of(x) == 6 /* packets::PrintLine */ && zvt_builder::zd_ok_of(b, x),
                Self::PrintTextBlock(x) => b.len() >= 2 && b[0] == 6 && b[1] == 211 && zvt_builder::tid_of(x) == 7 /* packets::PrintTextBlock */ && zvt_builder::zd_ok_of(b, x),
                Self::CompletionData(x) => b.len() >= 2 && b[0] == 6 && b[1] == 15 && zvt_builder::tid_of(x) == 3 /* packets::CompletionData */ && zvt_builder::zd_ok_of(b, x),
                Self::Abort(x) => b.len() >= 2 && b[0] == 6 && b[1] == 30 && zvt_builder::tid_of(x) == 4 /* packets::Abort */ && zvt_builder::zd_ok_of(b, x),
                // a variant the frozen reply table does not know can never be a correct result
                #[allow(unreachable_patterns)]
                _ => false,
            }
        }
        /// the command's reply set
        open spec fn ctrl_known(c: u8, i: u8) -> bool { (c == 4 && i == 255) || (c == 6 && i == 209) || (c == 6 && i == 211) || (c == 6 && i == 15) || (c == 6 && i == 30) }
        /// a packet of the reply set (an APDU has at least its three header bytes) that its own packet type decodes is accepted
        open spec fn parse_defined(b: Seq<u8>) -> bool { b.len() >= 3 && ((b[0] == 4 && b[1] == 255 && <crate::packets::IntermediateStatusInformation as zvt_builder::ZvtSerializer>::zd_defined(b)) || (b[0] == 6 && b[1] == 209 && <crate::packets::PrintLine as zvt_builder::ZvtSerializer>::zd_defined(b)) || (b[0] == 6 && b[1] == 211 && <crate::packets::PrintTextBlock as zvt_builder::ZvtSerializer>::zd_defined(b)) || (b[0] == 6 && b[1] == 15 && <crate::packets::CompletionData as zvt_builder::ZvtSerializer>::zd_defined(b)) || (b[0] == 6 && b[1] == 30 && <crate::packets::Abort as zvt_builder::ZvtSerializer>::zd_defined(b))) }
        //@ fn exp:zvt | impl zvt_builder::ZvtParser for InitializationResponse | zvt_parse | mod=sequences props=C15,C02
        //@ end
    }
    // ------------------------------------------------------------------ SetTerminalIdResponse
    //@ item src:zvt/src/sequences.rs | enum SetTerminalIdResponse
    impl zvt_builder::ZvtParser for SetTerminalIdResponse {
        /// a variant is returned only for its own control field, with what its packet type decodes on its own
        open spec fn parse_ok(b: Seq<u8>, v: Self) -> bool {
            match v {
                Self::CompletionData(x) => b.len() >= 2 && b[0] == 6 && b[1] == 15 && zvt_builder::tid_of(x) == 3 /* packets::CompletionData */ && zvt_builder::zd_ok_of(b, x),
                Self::Abort(x) => b.len() >= 2 && b[0] == 6 && b[1] == 30 && zvt_builder::tid_of(x) == 4 /* packets::Abort */ && zvt_builder::zd_ok_of(b, x),
                // a variant the frozen reply table does not know can never be a correct result
                #[allow(unreachable_patterns)]
                _ => false,
            }
        }
        /// the command's reply set
        open spec fn ctrl_known(c: u8, i: u8) -> bool { (c == 6 && i == 15) || (c == 6 && i == 30) }
        /// a packet of the reply set (an APDU has at least its three header bytes) that its own packet type decodes is accepted
        open spec fn parse_defined(b: Seq<u8>) -> bool { b.len() >= 3 && ((b[0] == 6 && b[1] == 15 && <crate::packets::CompletionData as zvt_builder::ZvtSerializer>::zd_defined(b)) || (b[0] == 6 && b[1] == 30 && <crate::packets::Abort as zvt_builder::ZvtSerializer>::zd_defined(b))) }
        //@ fn exp:zvt | impl zvt_builder::ZvtParser for SetTerminalIdResponse | zvt_parse | mod=sequences props=C15,C02
        //@ end
    }
    // ------------------------------------------------------------------ ResetTerminalResponse
    //@ item src:zvt/src/sequences.rs | enum ResetTerminalResponse
    impl zvt_builder::ZvtParser for ResetTerminalResponse {
        /// a variant is returned only for its own control field, with what its packet type decodes on its own
        open spec fn parse_ok(b: Seq<u8>, v: Self) -> bool {
            match v {
                Self::CompletionData(x) => b.len() >= 2 && b[0] == 6 && b[1] == 15 && zvt_builder::tid_of(x) == 3 /* packets::CompletionData */ && zvt_builder::zd_ok_of(b, x),
                // a variant the frozen reply table does not know can never be a correct result
                #[allow(unreachable_patterns)]
                _ => false,
            }
        }
        /// the command's reply set
        open spec fn ctrl_known(c: u8, i: u8) -> bool { (c == 6 && i == 15) }
        /// a packet of the reply set (an APDU has at least its three header bytes) that its own packet type decodes is accepted
        open spec fn parse_defined(b: Seq<u8>) -> bool { b.len() >= 3 && ((b[0] == 6 && b[1] == 15 && <crate::packets::CompletionData as zvt_builder::ZvtSerializer>::zd_defined(b))) }
        //@ fn exp:zvt | impl zvt_builder::ZvtParser for ResetTerminalResponse | zvt_parse | mod=sequences props=C15,C02
        //@ end
    }
    // ------------------------------------------------------------------ DiagnosisResponse
    //@ item src:zvt/src/sequences.rs | enum DiagnosisResponse
    impl zvt_builder::ZvtParser for DiagnosisResponse {
        /// a variant is returned only for its own control field, with what its packet type decodes on its own
        open spec fn parse_ok(b: Seq<u8>, v: Self) -> bool {
            match v {
                Self::IntermediateStatusInformation(x) => b.len() >= 2 && b[0] == 4 && b[1] == 255 && zvt_builder::tid_of(x) == 2 /* packets::IntermediateStatusInformation */ && zvt_builder::zd_ok_of(b, x),
                Self::SetTimeAndDate(x) => b.len() >= 2 && b[0] == 4 && b[1] == 1 && zvt_builder::tid_of(x) == 0 /* packets::SetTimeAndDate */ && zvt_builder::zd_ok_of(b, x),
                Self::PrintLine(x) => b.len() >= 2 && b[0] == 6 && b[1] == 209 && zvt_builder::tid_of(x) == 6 /* packets::PrintLine */ && zvt_builder::zd_ok_of(b, x),
                Self::PrintTextBlock(x) => b.len() >= 2 && b[0] == 6 && b[1] == 211 && zvt_builder::tid_of(x) == 7 /* packets::PrintTextBlock */ && zvt_builder::zd_ok_of(b, x),
                Self::CompletionData(x) => b.len() >= 2 && b[0] == 6 && b[1] == 15 && zvt_builder::tid_of(x) == 3 /* packets::CompletionData */ && zvt_builder::zd_ok_of(b, x),
                Self::Abort(x) => b.len() >= 2 && b[0] == 6 && b[1] == 30 && zvt_builder::tid_of(x) == 4 /* packets::Abort */ && zvt_builder::zd_ok_of(b, x),
                // a variant the frozen reply table does not know can never be a correct result
                #[allow(unreachable_patterns)]
                _ => false,
            }
        }
        /// the command's reply set
        open spec fn ctrl_known(c: u8, i: u8) -> bool { (c == 4 && i == 255) || (c == 4 && i == 1) || (c == 6 && i == 209) || (c == 6 && i == 211) || (c == 6 && i == 15) || (c == 6 && i == 30) }
        /// a packet of the reply set (an APDU has at least its three header bytes) that its own packet type decodes is accepted
        open spec fn parse_defined(b: Seq<u8>) -> bool { b.len() >= 3 && ((b[0] == 4 && b[1] == 255 && <crate::packets::IntermediateStatusInformation as zvt_builder::ZvtSerializer>::zd_defined(b)) || (b[0] == 4 && b[1] == 1 && <crate::packets::SetTimeAndDate as zvt_builder::ZvtSerializer>::zd_defined(b)) || (b[0] == 6 && b[1] == 209 && <crate::packets::PrintLine as zvt_builder::ZvtSerializer>::zd_defined(b)) || (b[0] == 6 && b[1] == 211 && <crate::packets::PrintTextBlock as zvt_builder::ZvtSerializer>::zd_defined(b)) || (b[0] == 6 && b[1] == 15 && <crate::packets::CompletionData as zvt_builder::ZvtSerializer>::zd_defined(b)) || (b[0] == 6 && b[1] == 30 && <crate::packets::Abort as zvt_builder::ZvtSerializer>::zd_defined(b))) }
        //@ fn exp:zvt | impl zvt_builder::ZvtParser for DiagnosisResponse | zvt_parse | mod=sequences props=C15,C02
        //@ end
    }
    // ------------------------------------------------------------------ EndOfDayResponse
    //@ item src:zvt/src/sequences.rs | enum EndOfDayResponse
    impl zvt_builder::ZvtParser for EndOfDayResponse {
        /// a variant is returned only for its own control field, with what its packet type decodes on its own
        open spec fn parse_ok(b: Seq<u8>, v: Self) -> bool {
            match v {
                Self::IntermediateStatusInformation(x) => b.len() >= 2 && b[0] == 4 && b[1] == 255 && zvt_builder::tid_of(x) == 2 /* packets::IntermediateStatusInformation */ && zvt_builder::zd_ok_of(b, x),
                Self::StatusInformation(x) => b.len() >= 2 && b[0] == 4 && b[1] == 15 && zvt_builder::tid_of(x) == 1 /* packets::StatusInformation */ && zvt_builder::zd_ok_of(b, x),
                Self::PrintLine(x) => b.len() >= 2 && b[0] == 6 && b[1] == 209 && zvt_builder::tid_of(x) == 6 /* packets::PrintLine */ && zvt_builder::zd_ok_of(b, x),
                Self::PrintTextBlock(x) => b.len() >= 2 && b[0] == 6 && b[1] == 211 && zvt_builder::tid_of(x) == 7 /* packets::PrintTextBlock */ && zvt_builder::zd_ok_of(b, x),
                Self::CompletionData(x) => b.len() >= 2 && b[0] == 6 && b[1] == 15 && zvt_builder::tid_of(x) == 3 /* packets::CompletionData */ && zvt_builder::zd_ok_of(b, x),
                Self::Abort(x) => b.len() >= 2 && b[0] == 6 && b[1] == 30 && zvt_builder::tid_of(x) == 5 /* packets::PartialReversalAbort */ && zvt_builder::zd_ok_of(b, x),
                // a variant the frozen reply table does not know can never be a correct result
                #[allow(unreachable_patterns)]
                _ => false,
            }
        }
        /// the command's reply set
        open spec fn ctrl_known(c: u8, i: u8) -> bool { (c == 4 && i == 255) || (c == 4 && i == 15) || (c == 6 && i == 209) || (c == 6 && i == 211) || (c == 6 && i == 15) || (c == 6 && i == 30) }
        /// a packet of the reply set (an APDU has at least its three header bytes) that its own packet type decodes is accepted
        open spec fn parse_defined(b: Seq<u8>) -> bool { b.len() >= 3 && ((b[0] == 4 && b[1] == 255 && <crate::packets::IntermediateStatusInformation as zvt_builder::ZvtSerializer>::zd_defined(b)) || (b[0] == 4 && b[1] == 15 && <crate::packets::StatusInformation as zvt_builder::ZvtSerializer>::zd_defined(b)) || (b[0] == 6 && b[1] == 209 && <crate::packets::PrintLine as zvt_builder::ZvtSerializer>::zd_defined(b)) || (b[0] == 6 && b[1] == 211 && <crate::packets::PrintTextBlock as zvt_builder::ZvtSerializer>::zd_defined(b)) || (b[0] == 6 && b[1] == 15 && <crate::packets::CompletionData as zvt_builder::ZvtSerializer>::zd_defined(b)) || (b[0] == 6 && b[1] == 30 && <crate::packets::PartialReversalAbort as zvt_builder::ZvtSerializer>::zd_defined(b))) }
        //@ fn exp:zvt | impl zvt_builder::ZvtParser for EndOfDayResponse | zvt_parse | mod=sequences props=C15,C02
        //@ end
    }
    // ------------------------------------------------------------------ AuthorizationResponse
    //@ item src:zvt/src/sequences.rs | enum AuthorizationResponse
    impl zvt_builder::ZvtParser for AuthorizationResponse {
        /// a variant is returned only for its own control field, with what its packet type decodes on its own
        open spec fn parse_ok(b: Seq<u8>, v: Self) -> bool {
            match v {
                Self::IntermediateStatusInformation(x) => b.len() >= 2 && b[0] == 4 && b[1] == 255 && zvt_builder::tid_of(x) == 2 /* packets::IntermediateStatusInformation */ && zvt_builder::zd_ok_of(b, x),
                Self::StatusInformation(x) => b.len() >= 2 && b[0] == 4 && b[1] == 15 && zvt_builder::tid_of(x) == 1 /* packets::StatusInformation */ && zvt_builder::zd_ok_of(b, x),
                Self::PrintLine(x) => b.len() >= 2 && b[0] == 6 && b[1] == 209 && zvt_builder::tid_of(x) == 6 /* packets::PrintLine */ && zvt_builder::zd_ok_of(b, x),
                Self::PrintTextBlock(x) => b.len() >= 2 && b[0] == 6 && b[1] == 211 && zvt_builder::tid_of(x) == 7 /* packets::PrintTextBlock */ && zvt_builder::zd_ok_of(b, x),
                Self::CompletionData(x) => b.len() >= 2 && b[0] == 6 && b[1] == 15 && zvt_builder::tid_of(x) == 3 /* packets::CompletionData */ && zvt_builder::zd_ok_of(b, x),
                Self::Abort(x) => b.len() >= 2 && b[0] == 6 && b[1] == 30 && zvt_builder::tid_of(x) == 4 /* packets::Abort */ && zvt_builder::zd_ok_of(b, x),
                // a variant the frozen reply table does not know can never be a correct result
                #[allow(unreachable_patterns)]
                _ => false,
            }
        }
        /// the command's reply set
        open spec fn ctrl_known(c: u8, i: u8) -> bool { (c == 4 && i == 255) || (c == 4 && i == 15) || (c == 6 && i == 209) || (c == 6 && i == 211) || (c == 6 && i == 15) || (c == 6 && i == 30) }
        /// a packet of the reply set (an APDU has at least its three header bytes) that its own packet type decodes is accepted
        open spec fn parse_defined(b: Seq<u8>) -> bool { b.len() >= 3 && ((b[0] == 4 && b[1] == 255 && <crate::packets::IntermediateStatusInformation as zvt_builder::ZvtSerializer>::zd_defined(b)) || (b[0] == 4 && b[1] == 15 && <crate::packets::StatusInformation as zvt_builder::ZvtSerializer>::zd_defined(b)) || (b[0] == 6 && b[1] == 209 && <crate::packets::PrintLine as zvt_builder::ZvtSerializer>::zd_defined(b)) || (b[0] == 6 && b[1] == 211 && <crate::packets::PrintTextBlock as zvt_builder::ZvtSerializer>::zd_defined(b)) || (b[0] == 6 && b[1] == 15 && <crate::packets::CompletionData as zvt_builder::ZvtSerializer>::zd_defined(b)) || (b[0] == 6 && b[1] == 30 && <crate::packets::Abort as zvt_builder::ZvtSerializer>::zd_defined(b))) }
        //@ fn exp:zvt | impl zvt_builder::ZvtParser for AuthorizationResponse | zvt_parse | mod=sequences props=C15,C02
        //@ end
    }
    // ------------------------------------------------------------------ PartialReversalResponse
    //@ item src:zvt/src/sequences.rs | enum PartialReversalResponse
    impl zvt_builder::ZvtParser for PartialReversalResponse {
        /// a variant is returned only for its own control field, with what its packet type decodes on its own
        open spec fn parse_ok(b: Seq<u8>, v: Self) -> bool {
            match v {
                Self::IntermediateStatusInformation(x) => b.len() >= 2 && b[0] == 4 && b[1] == 255 && zvt_builder::tid_of(x) == 2 /* packets::IntermediateStatusInformation */ && zvt_builder::zd_ok_of(b, x),
                Self::StatusInformation(x) => b.len() >= 2 && b[0] == 4 && b[1] == 15 && zvt_builder::tid_of(x) == 1 /* packets::StatusInformation */ && zvt_builder::zd_ok_of(b, x),
                Self::PrintLine(x) => b.len() >= 2 && b[0] == 6 && b[1] == 209 && zvt_builder::tid_of(x) == 6 /* packets::PrintLine */ && zvt_builder::zd_ok_of(b, x),
                Self::PrintTextBlock(x) => b.len() >= 2 && b[0] == 6 && b[1] == 211 && zvt_builder::tid_of(x) == 7 /* packets::PrintTextBlock */ && zvt_builder::zd_ok_of(b, x),
                Self::CompletionData(x) => b.len() >= 2 && b[0] == 6 && b[1] == 15 && zvt_builder::tid_of(x) == 3 /* packets::CompletionData */ && zvt_builder::zd_ok_of(b, x),
                Self::PartialReversalAbort(x) => b.len() >= 2 && b[0] == 6 && b[1] == 30 && zvt_builder::tid_of(x) == 5 /* packets::PartialReversalAbort */ && zvt_builder::zd_ok_of(b, x),
                // a variant the frozen reply table does not know can never be a correct result
                #[allow(unreachable_patterns)]
                _ => false,
            }
        }
        /// the command's reply set
        open spec fn ctrl_known(c: u8, i: u8) -> bool { (c == 4 && i == 255) || (c == 4 && i == 15) || (c == 6 && i == 209) || (c == 6 && i == 211) || (c == 6 && i == 15) || (c == 6 && i == 30) }
        /// a packet of the reply set (an APDU has at least its three header bytes) that its own packet type decodes is accepted
        open spec fn parse_defined(b: Seq<u8>) -> bool { b.len() >= 3 && ((b[0] == 4 && b[1] == 255 && <crate::packets::IntermediateStatusInformation as zvt_builder::ZvtSerializer>::zd_defined(b)) || (b[0] == 4 && b[1] == 15 && <crate::packets::StatusInformation as zvt_builder::ZvtSerializer>::zd_defined(b)) || (b[0] == 6 && b[1] == 209 && <crate::packets::PrintLine as zvt_builder::ZvtSerializer>::zd_defined(b)) || (b[0] == 6 && b[1] == 211 && <crate::packets::PrintTextBlock as zvt_builder::ZvtSerializer>::zd_defined(b)) || (b[0] == 6 && b[1] == 15 && <crate::packets::CompletionData as zvt_builder::ZvtSerializer>::zd_defined(b)) || (b[0] == 6 && b[1] == 30 && <crate::packets::PartialReversalAbort as zvt_builder::ZvtSerializer>::zd_defined(b))) }
        //@ fn exp:zvt | impl zvt_builder::ZvtParser for PartialReversalResponse | zvt_parse | mod=sequences props=C15,C02
        //@ end
    }
    // ------------------------------------------------------------------ PrintSystemConfigurationResponse
    //@ item src:zvt/src/sequences.rs | enum PrintSystemConfigurationResponse
    impl zvt_builder::ZvtParser for PrintSystemConfigurationResponse {
        /// a variant is returned only for its own control field, with what its packet type decodes on its own
        open spec fn parse_ok(b: Seq<u8>, v: Self) -> bool {
            match v {
                Self::PrintLine(x) => b.len() >= 2 && b[0] == 6 && b[1] == 209 && zvt_builder::tid_of(x) == 6 /* packets::PrintLine */ && zvt_builder::zd_ok_of(b, x),
                Self::PrintTextBlock(x) => b.len() >= 2 && b[0] == 6 && b[1] == 211 && zvt_builder::tid_of(x) == 7 /* packets::PrintTextBlock */ && zvt_builder::zd_ok_of(b, x),
                Self::CompletionData(x) => b.len() >= 2 && b[0] == 6 && b[1] == 15 && zvt_builder::tid_of(x) == 3 /* packets::CompletionData */ && zvt_builder::zd_ok_of(b, x),
                // a variant the frozen reply table does not know can never be a correct result
                #[allow(unreachable_patterns)]
                _ => false,
            }
        }
        /// the command's reply set
        open spec fn ctrl_known(c: u8, i: u8) -> bool { (c == 6 && i == 209) || (c == 6 && i == 211) || (c == 6 && i == 15) }
        /// a packet of the reply set (an APDU has at least its three header bytes) that its own packet type decodes is accepted
        open spec fn parse_defined(b: Seq<u8>) -> bool { b.len() >= 3 && ((b[0] == 6 && b[1] == 209 && <crate::packets::PrintLine as zvt_builder::ZvtSerializer>::zd_defined(b)) || (b[0] == 6 && b[1] == 211 && <crate::packets::PrintTextBlock as zvt_builder::ZvtSerializer>::zd_defined(b)) || (b[0] == 6 && b[1] == 15 && <crate::packets::CompletionData as zvt_builder::ZvtSerializer>::zd_defined(b))) }
        //@ fn exp:zvt | impl zvt_builder::ZvtParser for PrintSystemConfigurationResponse | zvt_parse | mod=sequences props=C15,C02
        //@ end
    }
    // ------------------------------------------------------------------ SelectLanguageResponse
    //@ item src:zvt/src/sequences.rs | enum SelectLanguageResponse
    impl zvt_builder::ZvtParser for SelectLanguageResponse {
        /// a variant is returned only for its own control field, with what its packet type decodes on its own
        open spec fn parse_ok(b: Seq<u8>, v: Self) -> bool {
            match v {
                Self::CompletionData(x) => b.len() >= 2 && b[0] == 6 && b[1] == 15 && zvt_builder::tid_of(x) == 3 /* packets::CompletionData */ && zvt_builder::zd_ok_of(b, x),
                // a variant the frozen reply table does not know can never be a correct result
                #[allow(unreachable_patterns)]
                _ => false,
            }
        }
        /// the command's reply set
        open spec fn ctrl_known(c: u8, i: u8) -> bool { (c == 6 && i == 15) }
        /// a packet of the reply set (an APDU has at least its three header bytes) that its own packet type decodes is accepted
        open spec fn parse_defined(b: Seq<u8>) -> bool { b.len() >= 3 && ((b[0] == 6 && b[1] == 15 && <crate::packets::CompletionData as zvt_builder::ZvtSerializer>::zd_defined(b))) }
        //@ fn exp:zvt | impl zvt_builder::ZvtParser for SelectLanguageResponse | zvt_parse | mod=sequences props=C15,C02
        //@ end
    }
    // ------------------------------------------------------------------ StatusEnquiryResponse
    //@ item src:zvt/src/sequences.rs | enum StatusEnquiryResponse
    impl zvt_builder::ZvtParser for StatusEnquiryResponse {
        /// a variant is returned only for its own control field, with what its packet type decodes on its own
        open spec fn parse_ok(b: Seq<u8>, v: Self) -> bool {
            match v {
                Self::IntermediateStatusInformation(x) => b.len() >= 2 && b[0] == 4 && b[1] == 255 && zvt_builder::tid_of(x) == 2 /* packets::IntermediateStatusInformation */ && zvt_builder::zd_ok_of(b, x),
                Self::PrintLine(x) => b.len() >= 2 && b[0] == 6 && b[1] == 209 && zvt_builder::tid_of(x) == 6 /* packets::PrintLine */ && zvt_builder::zd_ok_of(b, x),
                Self::PrintTextBlock(x) => b.len() >= 2 && b[0] == 6 && b[1] == 211 && zvt_builder::tid_of(x) == 7 /* packets::PrintTextBlock */ && zvt_builder::zd_ok_of(b, x),
                Self::CompletionData(x) => b.len() >= 2 && b[0] == 6 && b[1] == 15 && zvt_builder::tid_of(x) == 3 /* packets::CompletionData */ && zvt_builder::zd_ok_of(b, x),
                // a variant the frozen reply table does not know can never be a correct result
                #[allow(unreachable_patterns)]
                _ => false,
            }
        }
        /// the command's reply set
        open spec fn ctrl_known(c: u8, i: u8) -> bool { (c == 4 && i == 255) || (c == 6 && i == 209) || (c == 6 && i == 211) || (c == 6 && i == 15) }
        /// a packet of the reply set (an APDU has at least its three header bytes) that its own packet type decodes is accepted
        open spec fn parse_defined(b: Seq<u8>) -> bool { b.len() >= 3 && ((b[0] == 4 && b[1] == 255 && <crate::packets::IntermediateStatusInformation as zvt_builder::ZvtSerializer>::zd_defined(b)) || (b[0] == 6 && b[1] == 209 && <crate::packets::PrintLine as zvt_builder::ZvtSerializer>::zd_defined(b)) || (b[0] == 6 && b[1] == 211 && <crate::packets::PrintTextBlock as zvt_builder::ZvtSerializer>::zd_defined(b)) || (b[0] == 6 && b[1] == 15 && <crate::packets::CompletionData as zvt_builder::ZvtSerializer>::zd_defined(b))) }
        //@ fn exp:zvt | impl zvt_builder::ZvtParser for StatusEnquiryResponse | zvt_parse | mod=sequences props=C15,C02
        //@ end
    }
