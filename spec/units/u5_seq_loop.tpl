// ------------------------------------------------------------------ $NAME
/// final packets of this command (table spec/tables/terminal.json)
pub open spec fn terminal_$NAME(p: $REPLY) -> bool { $TERM }

#[verifier::exec_allows_no_decreases_clause]
pub fn into_stream_$NAME<Source: VSource, I: ZvtSerializer + Sync + Send>(input: &I, src: &mut PacketTransport<Source>, __sink: &mut VSink<$REPLY>) -> (r: Result<()>)
    ensures
//@ tag seq.$NAME.ok C05
        // normal end: command once, ack awaited, then k>=1 packets each acknowledged once before being
        // yielded and before the next is read; the last one is final, the others are not; nothing read beyond it
        r is Ok ==> ({
            let j = (final(__sink).items().len() - old(__sink).items().len()) as nat;
            let b = old(src).source.inbox().skip(apdu_total(old(src).source.inbox()).unwrap());
            &&& j >= 1
            &&& seq_state::<$REPLY, Source>(final(src), final(__sink), input.zs_spec(), old(src).source.inbox(), old(src).source.consumed(), old(src).source.writes(), old(__sink).items(), old(__sink).stamps(), j)
            &&& terminal_$NAME(pkt::<$REPLY>(b, (j - 1) as nat).unwrap())
            &&& forall|i: nat| i + 1 < j ==> !terminal_$NAME((#[trigger] pkt::<$REPLY>(b, i)).unwrap())
        }),
//@ tag seq.$NAME.err C06
        // failure: one error (the return value), no further item; whatever was written is the command plus
        // acknowledgements of packets that were read and decoded — never more than one beyond the yielded ones
        r is Err ==> ({
            let j = (final(__sink).items().len() - old(__sink).items().len()) as nat;
            let w0 = old(src).source.writes();
            let c0 = old(src).source.consumed();
            let cmd = input.zs_spec();
            ||| (j == 0 && final(src).source.writes() =~= w0.push((cmd, c0)) && final(__sink).items() =~= old(__sink).items())
            ||| ({
                let t0 = apdu_total(old(src).source.inbox()).unwrap();
                let b = old(src).source.inbox().skip(t0);
                let cb = (c0 + t0) as nat;
                &&& apdu_total(old(src).source.inbox()) is Some
                &&& final(__sink).items() =~= old(__sink).items() + pkts::<$REPLY>(b, j)
                &&& (final(src).source.writes() =~= w0.push((cmd, c0)) + acks(b, cb, j)
                     || (final(src).source.writes() =~= w0.push((cmd, c0)) + acks(b, cb, j + 1) && pkt::<$REPLY>(b, j) is Some))
                &&& forall|i: nat| i < j ==> (#[trigger] pkt::<$REPLY>(b, i)) is Some
            })
        }),
//@ tag seq.$NAME.fails_only_for_cause C05
        final(src).source.reliable() == old(src).source.reliable(),
        (r is Err && old(src).source.reliable()) ==> fails_for_cause::<$REPLY>(old(src).source.inbox(), (final(__sink).items().len() - old(__sink).items().len()) as nat),
//@ untag
//@ fn $FILE | impl Sequence for $NAME | into_stream | bodyonly macro=try_stream yieldctx=src all-loops props=C05,~C06
//@ loop 0
        invariant_except_break
            forall|i: nat| i < (__sink.items().len() - items0.len()) ==> !terminal_$NAME((#[trigger] pkt::<$REPLY>(inbox0.skip(apdu_total(inbox0).unwrap()), i)).unwrap()),
        invariant
            inbox0 == old(src).source.inbox(), c0 == old(src).source.consumed(), w0 == old(src).source.writes(),
            items0 == old(__sink).items(), stamps0 == old(__sink).stamps(),
            seq_state::<$REPLY, Source>(src, __sink, input.zs_spec(), inbox0, c0, w0, items0, stamps0, (__sink.items().len() - items0.len()) as nat),
            __sink.items().len() >= items0.len(),
            src.source.reliable() == old(src).source.reliable(),
            apdu_total(inbox0) matches Some(t0) && Ack::parse_spec(inbox0.take(t0)) is Some,
//@ tag seq.$NAME.loop_left_only_behind_final_packet C05 C06 C09
        // the reply loop is left normally only behind a final packet: any other way out would end the stream without the
        // final packet AND without an error item (and the reconnecting client abandons a connection only on an error item
        // or a timeout, so a fault swallowed here leaves the faulted connection in use: C09)
        ensures
            __sink.items().len() >= items0.len() + 1,
            terminal_$NAME(pkt::<$REPLY>(inbox0.skip(apdu_total(inbox0).unwrap()), (__sink.items().len() - items0.len() - 1) as nat).unwrap()),
            forall|i: nat| i + 1 < (__sink.items().len() - items0.len()) ==> !terminal_$NAME((#[trigger] pkt::<$REPLY>(inbox0.skip(apdu_total(inbox0).unwrap()), i)).unwrap()),
//@ entry
    let ghost inbox0 = src.source.inbox();
    let ghost c0 = src.source.consumed();
    let ghost w0 = src.source.writes();
    let ghost items0 = __sink.items();
    let ghost stamps0 = __sink.stamps();
//@ end
