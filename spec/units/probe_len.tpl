use vstd::prelude::*;
verus! {

//@ include ../prelude/n6.rs
//@ item src:zvt_builder/src/lib.rs | enum ZVTError
//@ item src:zvt_builder/src/lib.rs | type ZVTResult
//@ item src:zvt_builder/src/lib.rs | struct Tag

pub trait Length {
    spec fn wf() -> bool;
    spec fn ser_ok(len: usize) -> bool;
    spec fn spec_ser(len: usize) -> Seq<u8>;
    spec fn spec_deser(b: Seq<u8>) -> Option<(usize, int)>;
    //@ fn src:zvt_builder/src/length.rs | trait Length | serialize | sig
        requires Self::wf(), Self::ser_ok(len),
        ensures r@ =~= Self::spec_ser(len),
    //@ end
    //@ fn src:zvt_builder/src/length.rs | trait Length | deserialize | sig
        requires Self::wf(),
        ensures
            match Self::spec_deser(bytes@) {
                Some((n, k)) => r matches Ok((n2, rest)) && n2 == n && 0 <= k <= bytes@.len() && rest@ == bytes@.skip(k),
                None => r is Err,
            },
    //@ end
}

//@ item src:zvt_builder/src/length.rs | struct Tlv
impl Length for Tlv {
    open spec fn wf() -> bool { true }
    open spec fn ser_ok(len: usize) -> bool { len <= 65535 }
    open spec fn spec_ser(len: usize) -> Seq<u8> {
        if len < 128 { seq![len as u8] }
        else if len < 256 { seq![0x81u8, len as u8] }
        else { seq![0x82u8] + be_seq2(len as nat) }
    }
    open spec fn spec_deser(b: Seq<u8>) -> Option<(usize, int)> {
        if b.len() == 0 { None }
        else if b[0] <= 127 { Some((b[0] as usize, 1)) }
        else if b[0] == 0x81 { if b.len() >= 2 { Some((b[1] as usize, 2)) } else { None } }
        else if b[0] == 0x82 { if b.len() >= 3 { Some((be_val2(b.subrange(1, 3)) as usize, 3)) } else { None } }
        else { None }
    }
    //@ fn src:zvt_builder/src/length.rs | impl Length for Tlv | serialize
    //@ end
    //@ fn src:zvt_builder/src/length.rs | impl Length for Tlv | deserialize
    //@ end
}

} // verus!
fn main() {}
