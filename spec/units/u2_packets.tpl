    // ------------------------------------------------------------------ packets::SetTimeAndDate
    //@ item src:zvt/src/packets.rs | struct SetTimeAndDate
    impl zvt_builder::encoding::Encoding<SetTimeAndDate> for zvt_builder::encoding::Default {
        open spec fn enc_ok(v: &SetTimeAndDate) -> bool { <usize as zvt_builder::ZvtSerializerImpl<length::Fixed<3>, encoding::Bcd, zvt_builder::encoding::Default>>::ser_pre(&v.date, Some(zvt_builder::Tag(170u16))) && <usize as zvt_builder::ZvtSerializerImpl<length::Fixed<3>, encoding::Bcd, zvt_builder::encoding::Default>>::ser_pre(&v.time, Some(zvt_builder::Tag(12u16))) }
        open spec fn canon(v: &SetTimeAndDate) -> bool { false }
        /// layout table (spec/tables/layout.json): the fields in order, each under its tag / length style / encoding
        open spec fn spec_enc(v: &SetTimeAndDate) -> Seq<u8> { <usize as zvt_builder::ZvtSerializerImpl<length::Fixed<3>, encoding::Bcd, zvt_builder::encoding::Default>>::spec_ser_tagged(&v.date, Some(zvt_builder::Tag(170u16))) + <usize as zvt_builder::ZvtSerializerImpl<length::Fixed<3>, encoding::Bcd, zvt_builder::encoding::Default>>::spec_ser_tagged(&v.time, Some(zvt_builder::Tag(12u16))) }
        uninterp spec fn spec_dec(b: Seq<u8>) -> Option<(SetTimeAndDate, int)>;
        open spec fn progresses() -> bool { false }
        open spec fn self_delimiting() -> bool { false }
        open spec fn dec_rel(b: Seq<u8>, v: &SetTimeAndDate, k: int) -> bool { true }
        open spec fn dec_total(b: Seq<u8>) -> bool { false }
        /// the tag loop stops only at the end of the input, in front of something that is no tag, or in front of a tag that
        /// is not one of this struct's non-repeatable fields
        open spec fn dec_stop(rest: Seq<u8>) -> bool { rest.len() == 0 || (match <zvt_builder::encoding::Default as zvt_builder::encoding::Encoding<zvt_builder::Tag>>::spec_dec(rest) { None => true, Some((t, _)) => t.0 != 170u16 && t.0 != 12u16 }) }
        /// the tag loop is specified by totality and frame clauses only
        open spec fn functional() -> bool { false }
        //@ fn exp:zvt | impl zvt_builder::encoding::Encoding<SetTimeAndDate> for zvt_builder::encoding::Default | encode | mod=packets props=C03,~C01
        //@ end
        //@ fn exp:zvt | impl zvt_builder::encoding::Encoding<SetTimeAndDate> for zvt_builder::encoding::Default | decode | mod=packets all-loops props=C02,C14
        //@ loop 0
                invariant
                    crate::is_tail(bytes@, bytes0), crate::frame::tail_base(bytes0), bytes@.len() <= bytes0.len(),
                    curr_len <= usize::MAX,
        //@ tag tags.bookkeeping C13
                    actual_tags@ =~= seen,
                    required_tags@ =~= set![170u16, 12u16].difference(seen),
        //@ tag tags.stop C13
                    curr_len == bytes@.len() ==> <zvt_builder::encoding::Default as zvt_builder::encoding::Encoding<SetTimeAndDate>>::dec_stop(bytes@),
                ensures
                    <zvt_builder::encoding::Default as zvt_builder::encoding::Encoding<SetTimeAndDate>>::dec_stop(bytes@),
        //@ tag tags.loop.decreases C02
                decreases bytes@.len() + (if curr_len != bytes@.len() { 1nat } else { 0nat }),
        //@ entry
            let ghost bytes0 = bytes@;
            let ghost mut seen: Set<u16> = Set::<u16>::empty();
            proof { lemma_slice_len_le_isize_max(bytes); crate::frame::lemma_tail_base(bytes0); }
        //@ before (date,bytes)=<
        //@ tag tags.no_second_dispatch.date C13
            proof { assert(!seen.contains(170u16)); seen = seen.insert(170u16) ; }
        //@ before returnErr(zvt_builder::ZVTError::DuplicateTag(
        //@ tag tags.duplicate_error_is_true.date C13
            proof { assert(seen.contains(170u16)) ; }
        //@ before (time,bytes)=<
        //@ tag tags.no_second_dispatch.time C13
            proof { assert(!seen.contains(12u16)); seen = seen.insert(12u16) ; }
        //@ before returnErr(zvt_builder::ZVTError::DuplicateTag(
        //@ tag tags.duplicate_error_is_true.time C13
            proof { assert(seen.contains(12u16)) ; }
        //@ before letmutas_vec
            let ghost req_left = required_tags@;
        //@ before returnErr(zvt_builder::ZVTError::MissingRequiredTags
        //@ tag tags.missing_names_all C13
            proof {
                assert(req_left =~= set![170u16, 12u16].difference(seen));
                assert forall|i: int| 0 <= i < as_vec@.len() implies set![170u16, 12u16].contains((#[trigger] as_vec@[i]).0) && !seen.contains(as_vec@[i].0) by {
                    assert(req_left.contains(as_vec@[i].0));
                }
                assert forall|t: u16| set![170u16, 12u16].contains(t) && !seen.contains(t) implies exists|i: int| 0 <= i < as_vec@.len() && (#[trigger] as_vec@[i]).0 == t by {
                    assert(req_left.contains(t));
                }
            }
        //@ tail
        //@ tag tags.ok_only_if_all_mandatory C13
            proof { assert(!set![170u16, 12u16].difference(seen).contains(170u16)); assert(!set![170u16, 12u16].difference(seen).contains(12u16)); assert(set![170u16, 12u16].subset_of(seen)); }
        //@ end
        proof fn law_dec_bounds(b: Seq<u8>) {}
        proof fn law_dec_frame(b: Seq<u8>, s: Seq<u8>) {}
        proof fn law_inverse(v: &SetTimeAndDate) {}
    }

    //@ item exp:zvt | impl zvt_builder::ZvtCommand for SetTimeAndDate | mod=packets
    //@ tag layout.control_field.SetTimeAndDate C03
    /// CLASS/INSTR of the APDU (layout table)
    pub proof fn lemma_ctrl_SetTimeAndDate()
        ensures <SetTimeAndDate as zvt_builder::ZvtCommand>::CLASS == 4, <SetTimeAndDate as zvt_builder::ZvtCommand>::INSTR == 1,
    {}
    //@ untag
    // ------------------------------------------------------------------ packets::NumAndTotal
    //@ item src:zvt/src/packets.rs | struct NumAndTotal
    impl zvt_builder::encoding::Encoding<NumAndTotal> for zvt_builder::encoding::Default {
        open spec fn enc_ok(v: &NumAndTotal) -> bool { <u8 as zvt_builder::ZvtSerializerImpl<length::Empty, encoding::Default, zvt_builder::encoding::Default>>::ser_pre(&v.num, None) && <usize as zvt_builder::ZvtSerializerImpl<length::Fixed<6>, encoding::Bcd, zvt_builder::encoding::Default>>::ser_pre(&v.total, None) }
        open spec fn canon(v: &NumAndTotal) -> bool { false }
        /// layout table (spec/tables/layout.json): the fields in order, each under its tag / length style / encoding
        open spec fn spec_enc(v: &NumAndTotal) -> Seq<u8> { <u8 as zvt_builder::ZvtSerializerImpl<length::Empty, encoding::Default, zvt_builder::encoding::Default>>::spec_ser_tagged(&v.num, None) + <usize as zvt_builder::ZvtSerializerImpl<length::Fixed<6>, encoding::Bcd, zvt_builder::encoding::Default>>::spec_ser_tagged(&v.total, None) }
        uninterp spec fn spec_dec(b: Seq<u8>) -> Option<(NumAndTotal, int)>;
        open spec fn progresses() -> bool { false }
        open spec fn self_delimiting() -> bool { false }
        open spec fn dec_rel(b: Seq<u8>, v: &NumAndTotal, k: int) -> bool { true }
        open spec fn dec_total(b: Seq<u8>) -> bool { false }
        /// the tag loop stops only at the end of the input, in front of something that is no tag, or in front of a tag that
        /// is not one of this struct's non-repeatable fields
        open spec fn dec_stop(rest: Seq<u8>) -> bool { rest.len() == 0 || (match <zvt_builder::encoding::Default as zvt_builder::encoding::Encoding<zvt_builder::Tag>>::spec_dec(rest) { None => true, Some((t, _)) => true }) }
        /// the tag loop is specified by totality and frame clauses only
        open spec fn functional() -> bool { false }
        //@ fn exp:zvt | impl zvt_builder::encoding::Encoding<NumAndTotal> for zvt_builder::encoding::Default | encode | mod=packets props=C03,~C01
        //@ end
        //@ fn exp:zvt | impl zvt_builder::encoding::Encoding<NumAndTotal> for zvt_builder::encoding::Default | decode | mod=packets all-loops props=C02,C14
        //@ loop 0
                invariant
                    crate::is_tail(bytes@, bytes0), crate::frame::tail_base(bytes0), bytes@.len() <= bytes0.len(),
                    curr_len <= usize::MAX,
        //@ tag tags.bookkeeping C13
                    actual_tags@ =~= seen,
                    required_tags@ =~= Set::<u16>::empty().difference(seen),
        //@ tag tags.stop C13
                    curr_len == bytes@.len() ==> <zvt_builder::encoding::Default as zvt_builder::encoding::Encoding<NumAndTotal>>::dec_stop(bytes@),
                ensures
                    <zvt_builder::encoding::Default as zvt_builder::encoding::Encoding<NumAndTotal>>::dec_stop(bytes@),
        //@ tag tags.loop.decreases C02
                decreases bytes@.len() + (if curr_len != bytes@.len() { 1nat } else { 0nat }),
        //@ entry
            let ghost bytes0 = bytes@;
            let ghost mut seen: Set<u16> = Set::<u16>::empty();
            proof { lemma_slice_len_le_isize_max(bytes); crate::frame::lemma_tail_base(bytes0); }
        //@ before letmutas_vec
            let ghost req_left = required_tags@;
        //@ before returnErr(zvt_builder::ZVTError::MissingRequiredTags
        //@ tag tags.missing_names_all C13
            proof {
                assert(req_left =~= Set::<u16>::empty().difference(seen));
                assert forall|i: int| 0 <= i < as_vec@.len() implies Set::<u16>::empty().contains((#[trigger] as_vec@[i]).0) && !seen.contains(as_vec@[i].0) by {
                    assert(req_left.contains(as_vec@[i].0));
                }
                assert forall|t: u16| Set::<u16>::empty().contains(t) && !seen.contains(t) implies exists|i: int| 0 <= i < as_vec@.len() && (#[trigger] as_vec@[i]).0 == t by {
                    assert(req_left.contains(t));
                }
            }
        //@ tail
        //@ tag tags.ok_only_if_all_mandatory C13
            proof { assert(Set::<u16>::empty().subset_of(seen)); }
        //@ end
        proof fn law_dec_bounds(b: Seq<u8>) {}
        proof fn law_dec_frame(b: Seq<u8>, s: Seq<u8>) {}
        proof fn law_inverse(v: &NumAndTotal) {}
    }

    // ------------------------------------------------------------------ packets::SingleAmounts
    //@ item src:zvt/src/packets.rs | struct SingleAmounts
    impl zvt_builder::encoding::Encoding<SingleAmounts> for zvt_builder::encoding::Default {
        open spec fn enc_ok(v: &SingleAmounts) -> bool { <usize as zvt_builder::ZvtSerializerImpl<length::Fixed<2>, encoding::Bcd, zvt_builder::encoding::Default>>::ser_pre(&v.receipt_no_start, None) && <usize as zvt_builder::ZvtSerializerImpl<length::Fixed<2>, encoding::Bcd, zvt_builder::encoding::Default>>::ser_pre(&v.receipt_no_end, None) && <NumAndTotal as zvt_builder::ZvtSerializerImpl<length::Empty, encoding::Default, zvt_builder::encoding::Default>>::ser_pre(&v.girocard, None) && <NumAndTotal as zvt_builder::ZvtSerializerImpl<length::Empty, encoding::Default, zvt_builder::encoding::Default>>::ser_pre(&v.jcb, None) && <NumAndTotal as zvt_builder::ZvtSerializerImpl<length::Empty, encoding::Default, zvt_builder::encoding::Default>>::ser_pre(&v.eurocard, None) && <NumAndTotal as zvt_builder::ZvtSerializerImpl<length::Empty, encoding::Default, zvt_builder::encoding::Default>>::ser_pre(&v.amex, None) && <NumAndTotal as zvt_builder::ZvtSerializerImpl<length::Empty, encoding::Default, zvt_builder::encoding::Default>>::ser_pre(&v.visa, None) && <NumAndTotal as zvt_builder::ZvtSerializerImpl<length::Empty, encoding::Default, zvt_builder::encoding::Default>>::ser_pre(&v.diners, None) && <NumAndTotal as zvt_builder::ZvtSerializerImpl<length::Empty, encoding::Default, zvt_builder::encoding::Default>>::ser_pre(&v.others, None) }
        open spec fn canon(v: &SingleAmounts) -> bool { false }
        /// layout table (spec/tables/layout.json): the fields in order, each under its tag / length style / encoding
        open spec fn spec_enc(v: &SingleAmounts) -> Seq<u8> { <usize as zvt_builder::ZvtSerializerImpl<length::Fixed<2>, encoding::Bcd, zvt_builder::encoding::Default>>::spec_ser_tagged(&v.receipt_no_start, None) + <usize as zvt_builder::ZvtSerializerImpl<length::Fixed<2>, encoding::Bcd, zvt_builder::encoding::Default>>::spec_ser_tagged(&v.receipt_no_end, None) + <NumAndTotal as zvt_builder::ZvtSerializerImpl<length::Empty, encoding::Default, zvt_builder::encoding::Default>>::spec_ser_tagged(&v.girocard, None) + <NumAndTotal as zvt_builder::ZvtSerializerImpl<length::Empty, encoding::Default, zvt_builder::encoding::Default>>::spec_ser_tagged(&v.jcb, None) + <NumAndTotal as zvt_builder::ZvtSerializerImpl<length::Empty, encoding::Default, zvt_builder::encoding::Default>>::spec_ser_tagged(&v.eurocard, None) + <NumAndTotal as zvt_builder::ZvtSerializerImpl<length::Empty, encoding::Default, zvt_builder::encoding::Default>>::spec_ser_tagged(&v.amex, None) + <NumAndTotal as zvt_builder::ZvtSerializerImpl<length::Empty, encoding::Default, zvt_builder::encoding::Default>>::spec_ser_tagged(&v.visa, None) + <NumAndTotal as zvt_builder::ZvtSerializerImpl<length::Empty, encoding::Default, zvt_builder::encoding::Default>>::spec_ser_tagged(&v.diners, None) + <NumAndTotal as zvt_builder::ZvtSerializerImpl<length::Empty, encoding::Default, zvt_builder::encoding::Default>>::spec_ser_tagged(&v.others, None) }
        uninterp spec fn spec_dec(b: Seq<u8>) -> Option<(SingleAmounts, int)>;
        open spec fn progresses() -> bool { false }
        open spec fn self_delimiting() -> bool { false }
        open spec fn dec_rel(b: Seq<u8>, v: &SingleAmounts, k: int) -> bool { true }
        open spec fn dec_total(b: Seq<u8>) -> bool { false }
        /// the tag loop stops only at the end of the input, in front of something that is no tag, or in front of a tag that
        /// is not one of this struct's non-repeatable fields
        open spec fn dec_stop(rest: Seq<u8>) -> bool { rest.len() == 0 || (match <zvt_builder::encoding::Default as zvt_builder::encoding::Encoding<zvt_builder::Tag>>::spec_dec(rest) { None => true, Some((t, _)) => true }) }
        /// the tag loop is specified by totality and frame clauses only
        open spec fn functional() -> bool { false }
        //@ fn exp:zvt | impl zvt_builder::encoding::Encoding<SingleAmounts> for zvt_builder::encoding::Default | encode | mod=packets props=C03,~C01
        //@ end
        //@ fn exp:zvt | impl zvt_builder::encoding::Encoding<SingleAmounts> for zvt_builder::encoding::Default | decode | mod=packets all-loops props=C02,C14
        //@ loop 0
                invariant
                    crate::is_tail(bytes@, bytes0), crate::frame::tail_base(bytes0), bytes@.len() <= bytes0.len(),
                    curr_len <= usize::MAX,
        //@ tag tags.bookkeeping C13
                    actual_tags@ =~= seen,
                    required_tags@ =~= Set::<u16>::empty().difference(seen),
        //@ tag tags.stop C13
                    curr_len == bytes@.len() ==> <zvt_builder::encoding::Default as zvt_builder::encoding::Encoding<SingleAmounts>>::dec_stop(bytes@),
                ensures
                    <zvt_builder::encoding::Default as zvt_builder::encoding::Encoding<SingleAmounts>>::dec_stop(bytes@),
        //@ tag tags.loop.decreases C02
                decreases bytes@.len() + (if curr_len != bytes@.len() { 1nat } else { 0nat }),
        //@ entry
            let ghost bytes0 = bytes@;
            let ghost mut seen: Set<u16> = Set::<u16>::empty();
            proof { lemma_slice_len_le_isize_max(bytes); crate::frame::lemma_tail_base(bytes0); }
        //@ before letmutas_vec
            let ghost req_left = required_tags@;
        //@ before returnErr(zvt_builder::ZVTError::MissingRequiredTags
        //@ tag tags.missing_names_all C13
            proof {
                assert(req_left =~= Set::<u16>::empty().difference(seen));
                assert forall|i: int| 0 <= i < as_vec@.len() implies Set::<u16>::empty().contains((#[trigger] as_vec@[i]).0) && !seen.contains(as_vec@[i].0) by {
                    assert(req_left.contains(as_vec@[i].0));
                }
                assert forall|t: u16| Set::<u16>::empty().contains(t) && !seen.contains(t) implies exists|i: int| 0 <= i < as_vec@.len() && (#[trigger] as_vec@[i]).0 == t by {
                    assert(req_left.contains(t));
                }
            }
        //@ tail
        //@ tag tags.ok_only_if_all_mandatory C13
            proof { assert(Set::<u16>::empty().subset_of(seen)); }
        //@ end
        proof fn law_dec_bounds(b: Seq<u8>) {}
        proof fn law_dec_frame(b: Seq<u8>, s: Seq<u8>) {}
        proof fn law_inverse(v: &SingleAmounts) {}
    }

    // ------------------------------------------------------------------ packets::StatusInformation
    //@ item src:zvt/src/packets.rs | struct StatusInformation
    impl zvt_builder::encoding::Encoding<StatusInformation> for zvt_builder::encoding::Default {
        open spec fn enc_ok(v: &StatusInformation) -> bool { <Option<usize> as zvt_builder::ZvtSerializerImpl<length::Fixed<6>, encoding::Bcd, zvt_builder::encoding::Default>>::ser_pre(&v.amount, Some(zvt_builder::Tag(4u16))) && <Option<usize> as zvt_builder::ZvtSerializerImpl<length::Fixed<3>, encoding::Bcd, zvt_builder::encoding::Default>>::ser_pre(&v.trace_number, Some(zvt_builder::Tag(11u16))) && <Option<usize> as zvt_builder::ZvtSerializerImpl<length::Fixed<3>, encoding::Bcd, zvt_builder::encoding::Default>>::ser_pre(&v.time, Some(zvt_builder::Tag(12u16))) && <Option<usize> as zvt_builder::ZvtSerializerImpl<length::Fixed<2>, encoding::Bcd, zvt_builder::encoding::Default>>::ser_pre(&v.date, Some(zvt_builder::Tag(13u16))) && <Option<usize> as zvt_builder::ZvtSerializerImpl<length::Fixed<2>, encoding::Bcd, zvt_builder::encoding::Default>>::ser_pre(&v.expiry_date, Some(zvt_builder::Tag(14u16))) && <Option<usize> as zvt_builder::ZvtSerializerImpl<length::Fixed<2>, encoding::Bcd, zvt_builder::encoding::Default>>::ser_pre(&v.card_sequence_number, Some(zvt_builder::Tag(23u16))) && <Option<u8> as zvt_builder::ZvtSerializerImpl<length::Empty, encoding::Default, zvt_builder::encoding::Default>>::ser_pre(&v.card_type, Some(zvt_builder::Tag(25u16))) && <Option<usize> as zvt_builder::ZvtSerializerImpl<length::Llv, encoding::Bcd, zvt_builder::encoding::Default>>::ser_pre(&v.card_number, Some(zvt_builder::Tag(34u16))) && <Option<String> as zvt_builder::ZvtSerializerImpl<length::Llv, encoding::Hex, zvt_builder::encoding::Default>>::ser_pre(&v.track_2_data, Some(zvt_builder::Tag(35u16))) && <Option<u8> as zvt_builder::ZvtSerializerImpl<length::Fixed<1>, encoding::Default, zvt_builder::encoding::Default>>::ser_pre(&v.result_code, Some(zvt_builder::Tag(39u16))) && <Option<usize> as zvt_builder::ZvtSerializerImpl<length::Fixed<4>, encoding::Bcd, zvt_builder::encoding::Default>>::ser_pre(&v.terminal_id, Some(zvt_builder::Tag(41u16))) && <Option<String> as zvt_builder::ZvtSerializerImpl<length::Fixed<15>, encoding::Default, zvt_builder::encoding::Default>>::ser_pre(&v.vu_number, Some(zvt_builder::Tag(42u16))) && <Option<String> as zvt_builder::ZvtSerializerImpl<length::Fixed<8>, encoding::Default, zvt_builder::encoding::Default>>::ser_pre(&v.aid_authorization_attribute, Some(zvt_builder::Tag(59u16))) && <Option<String> as zvt_builder::ZvtSerializerImpl<length::Lllv, encoding::Default, zvt_builder::encoding::Default>>::ser_pre(&v.additional_text, Some(zvt_builder::Tag(60u16))) && <Option<SingleAmounts> as zvt_builder::ZvtSerializerImpl<length::Lllv, encoding::Default, zvt_builder::encoding::Default>>::ser_pre(&v.single_amounts, Some(zvt_builder::Tag(96u16))) && <Option<usize> as zvt_builder::ZvtSerializerImpl<length::Fixed<2>, encoding::Bcd, zvt_builder::encoding::Default>>::ser_pre(&v.receipt_no, Some(zvt_builder::Tag(135u16))) && <Option<usize> as zvt_builder::ZvtSerializerImpl<length::Fixed<2>, encoding::Bcd, zvt_builder::encoding::Default>>::ser_pre(&v.currency, Some(zvt_builder::Tag(73u16))) && <Option<u8> as zvt_builder::ZvtSerializerImpl<length::Empty, encoding::Default, zvt_builder::encoding::Default>>::ser_pre(&v.zvt_card_type, Some(zvt_builder::Tag(138u16))) && <Option<String> as zvt_builder::ZvtSerializerImpl<length::Llv, encoding::Default, zvt_builder::encoding::Default>>::ser_pre(&v.card_name, Some(zvt_builder::Tag(139u16))) && <Option<u8> as zvt_builder::ZvtSerializerImpl<length::Empty, encoding::Default, zvt_builder::encoding::Default>>::ser_pre(&v.zvt_card_type_id, Some(zvt_builder::Tag(140u16))) && <Option<tlv::StatusInformation> as zvt_builder::ZvtSerializerImpl<length::Tlv, encoding::Default, zvt_builder::encoding::Default>>::ser_pre(&v.tlv, Some(zvt_builder::Tag(6u16))) }
        open spec fn canon(v: &StatusInformation) -> bool { false }
        /// layout table (spec/tables/layout.json): the fields in order, each under its tag / length style / encoding
        open spec fn spec_enc(v: &StatusInformation) -> Seq<u8> { <Option<usize> as zvt_builder::ZvtSerializerImpl<length::Fixed<6>, encoding::Bcd, zvt_builder::encoding::Default>>::spec_ser_tagged(&v.amount, Some(zvt_builder::Tag(4u16))) + <Option<usize> as zvt_builder::ZvtSerializerImpl<length::Fixed<3>, encoding::Bcd, zvt_builder::encoding::Default>>::spec_ser_tagged(&v.trace_number, Some(zvt_builder::Tag(11u16))) + <Option<usize> as zvt_builder::ZvtSerializerImpl<length::Fixed<3>, encoding::Bcd, zvt_builder::encoding::Default>>::spec_ser_tagged(&v.time, Some(zvt_builder::Tag(12u16))) + <Option<usize> as zvt_builder::ZvtSerializerImpl<length::Fixed<2>, encoding::Bcd, zvt_builder::encoding::Default>>::spec_ser_tagged(&v.date, Some(zvt_builder::Tag(13u16))) + <Option<usize> as zvt_builder::ZvtSerializerImpl<length::Fixed<2>, encoding::Bcd, zvt_builder::encoding::Default>>::spec_ser_tagged(&v.expiry_date, Some(zvt_builder::Tag(14u16))) + <Option<usize> as zvt_builder::ZvtSerializerImpl<length::Fixed<2>, encoding::Bcd, zvt_builder::encoding::Default>>::spec_ser_tagged(&v.card_sequence_number, Some(zvt_builder::Tag(23u16))) + <Option<u8> as zvt_builder::ZvtSerializerImpl<length::Empty, encoding::Default, zvt_builder::encoding::Default>>::spec_ser_tagged(&v.card_type, Some(zvt_builder::Tag(25u16))) + <Option<usize> as zvt_builder::ZvtSerializerImpl<length::Llv, encoding::Bcd, zvt_builder::encoding::Default>>::spec_ser_tagged(&v.card_number, Some(zvt_builder::Tag(34u16))) + <Option<String> as zvt_builder::ZvtSerializerImpl<length::Llv, encoding::Hex, zvt_builder::encoding::Default>>::spec_ser_tagged(&v.track_2_data, Some(zvt_builder::Tag(35u16))) + <Option<u8> as zvt_builder::ZvtSerializerImpl<length::Fixed<1>, encoding::Default, zvt_builder::encoding::Default>>::spec_ser_tagged(&v.result_code, Some(zvt_builder::Tag(39u16))) + <Option<usize> as zvt_builder::ZvtSerializerImpl<length::Fixed<4>, encoding::Bcd, zvt_builder::encoding::Default>>::spec_ser_tagged(&v.terminal_id, Some(zvt_builder::Tag(41u16))) + <Option<String> as zvt_builder::ZvtSerializerImpl<length::Fixed<15>, encoding::Default, zvt_builder::encoding::Default>>::spec_ser_tagged(&v.vu_number, Some(zvt_builder::Tag(42u16))) + <Option<String> as zvt_builder::ZvtSerializerImpl<length::Fixed<8>, encoding::Default, zvt_builder::encoding::Default>>::spec_ser_tagged(&v.aid_authorization_attribute, Some(zvt_builder::Tag(59u16))) + <Option<String> as zvt_builder::ZvtSerializerImpl<length::Lllv, encoding::Default, zvt_builder::encoding::Default>>::spec_ser_tagged(&v.additional_text, Some(zvt_builder::Tag(60u16))) + <Option<SingleAmounts> as zvt_builder::ZvtSerializerImpl<length::Lllv, encoding::Default, zvt_builder::encoding::Default>>::spec_ser_tagged(&v.single_amounts, Some(zvt_builder::Tag(96u16))) + <Option<usize> as zvt_builder::ZvtSerializerImpl<length::Fixed<2>, encoding::Bcd, zvt_builder::encoding::Default>>::spec_ser_tagged(&v.receipt_no, Some(zvt_builder::Tag(135u16))) + <Option<usize> as zvt_builder::ZvtSerializerImpl<length::Fixed<2>, encoding::Bcd, zvt_builder::encoding::Default>>::spec_ser_tagged(&v.currency, Some(zvt_builder::Tag(73u16))) + <Option<u8> as zvt_builder::ZvtSerializerImpl<length::Empty, encoding::Default, zvt_builder::encoding::Default>>::spec_ser_tagged(&v.zvt_card_type, Some(zvt_builder::Tag(138u16))) + <Option<String> as zvt_builder::ZvtSerializerImpl<length::Llv, encoding::Default, zvt_builder::encoding::Default>>::spec_ser_tagged(&v.card_name, Some(zvt_builder::Tag(139u16))) + <Option<u8> as zvt_builder::ZvtSerializerImpl<length::Empty, encoding::Default, zvt_builder::encoding::Default>>::spec_ser_tagged(&v.zvt_card_type_id, Some(zvt_builder::Tag(140u16))) + <Option<tlv::StatusInformation> as zvt_builder::ZvtSerializerImpl<length::Tlv, encoding::Default, zvt_builder::encoding::Default>>::spec_ser_tagged(&v.tlv, Some(zvt_builder::Tag(6u16))) }
        uninterp spec fn spec_dec(b: Seq<u8>) -> Option<(StatusInformation, int)>;
        open spec fn progresses() -> bool { false }
        open spec fn self_delimiting() -> bool { false }
        open spec fn dec_rel(b: Seq<u8>, v: &StatusInformation, k: int) -> bool { true }
        open spec fn dec_total(b: Seq<u8>) -> bool { false }
        /// the tag loop stops only at the end of the input, in front of something that is no tag, or in front of a tag that
        /// is not one of this struct's non-repeatable fields
        open spec fn dec_stop(rest: Seq<u8>) -> bool { rest.len() == 0 || (match <zvt_builder::encoding::Default as zvt_builder::encoding::Encoding<zvt_builder::Tag>>::spec_dec(rest) { None => true, Some((t, _)) => t.0 != 4u16 && t.0 != 11u16 && t.0 != 12u16 && t.0 != 13u16 && t.0 != 14u16 && t.0 != 23u16 && t.0 != 25u16 && t.0 != 34u16 && t.0 != 35u16 && t.0 != 39u16 && t.0 != 41u16 && t.0 != 42u16 && t.0 != 59u16 && t.0 != 60u16 && t.0 != 96u16 && t.0 != 135u16 && t.0 != 73u16 && t.0 != 138u16 && t.0 != 139u16 && t.0 != 140u16 && t.0 != 6u16 }) }
        /// the tag loop is specified by totality and frame clauses only
        open spec fn functional() -> bool { false }
        //@ fn exp:zvt | impl zvt_builder::encoding::Encoding<StatusInformation> for zvt_builder::encoding::Default | encode | mod=packets props=C03,~C01
        //@ end
        //@ fn exp:zvt | impl zvt_builder::encoding::Encoding<StatusInformation> for zvt_builder::encoding::Default | decode | mod=packets all-loops props=C02,C14
        //@ loop 0
                invariant
                    crate::is_tail(bytes@, bytes0), crate::frame::tail_base(bytes0), bytes@.len() <= bytes0.len(),
                    curr_len <= usize::MAX,
        //@ tag tags.bookkeeping C13
                    actual_tags@ =~= seen,
                    required_tags@ =~= Set::<u16>::empty().difference(seen),
        //@ tag tags.stop C13
                    curr_len == bytes@.len() ==> <zvt_builder::encoding::Default as zvt_builder::encoding::Encoding<StatusInformation>>::dec_stop(bytes@),
                ensures
                    <zvt_builder::encoding::Default as zvt_builder::encoding::Encoding<StatusInformation>>::dec_stop(bytes@),
        //@ tag tags.loop.decreases C02
                decreases bytes@.len() + (if curr_len != bytes@.len() { 1nat } else { 0nat }),
        //@ entry
            let ghost bytes0 = bytes@;
            let ghost mut seen: Set<u16> = Set::<u16>::empty();
            proof { lemma_slice_len_le_isize_max(bytes); crate::frame::lemma_tail_base(bytes0); }
        //@ before (amount,bytes)=<
        //@ tag tags.no_second_dispatch.amount C13
            proof { assert(!seen.contains(4u16)); seen = seen.insert(4u16) ; }
        //@ before returnErr(zvt_builder::ZVTError::DuplicateTag(
        //@ tag tags.duplicate_error_is_true.amount C13
            proof { assert(seen.contains(4u16)) ; }
        //@ before (trace_number,bytes)=<
        //@ tag tags.no_second_dispatch.trace_number C13
            proof { assert(!seen.contains(11u16)); seen = seen.insert(11u16) ; }
        //@ before returnErr(zvt_builder::ZVTError::DuplicateTag(
        //@ tag tags.duplicate_error_is_true.trace_number C13
            proof { assert(seen.contains(11u16)) ; }
        //@ before (time,bytes)=<
        //@ tag tags.no_second_dispatch.time C13
            proof { assert(!seen.contains(12u16)); seen = seen.insert(12u16) ; }
        //@ before returnErr(zvt_builder::ZVTError::DuplicateTag(
        //@ tag tags.duplicate_error_is_true.time C13
            proof { assert(seen.contains(12u16)) ; }
        //@ before (date,bytes)=<
        //@ tag tags.no_second_dispatch.date C13
            proof { assert(!seen.contains(13u16)); seen = seen.insert(13u16) ; }
        //@ before returnErr(zvt_builder::ZVTError::DuplicateTag(
        //@ tag tags.duplicate_error_is_true.date C13
            proof { assert(seen.contains(13u16)) ; }
        //@ before (expiry_date,bytes)=<
        //@ tag tags.no_second_dispatch.expiry_date C13
            proof { assert(!seen.contains(14u16)); seen = seen.insert(14u16) ; }
        //@ before returnErr(zvt_builder::ZVTError::DuplicateTag(
        //@ tag tags.duplicate_error_is_true.expiry_date C13
            proof { assert(seen.contains(14u16)) ; }
        //@ before (card_sequence_number,bytes)=<
        //@ tag tags.no_second_dispatch.card_sequence_number C13
            proof { assert(!seen.contains(23u16)); seen = seen.insert(23u16) ; }
        //@ before returnErr(zvt_builder::ZVTError::DuplicateTag(
        //@ tag tags.duplicate_error_is_true.card_sequence_number C13
            proof { assert(seen.contains(23u16)) ; }
        //@ before (card_type,bytes)=<
        //@ tag tags.no_second_dispatch.card_type C13
            proof { assert(!seen.contains(25u16)); seen = seen.insert(25u16) ; }
        //@ before returnErr(zvt_builder::ZVTError::DuplicateTag(
        //@ tag tags.duplicate_error_is_true.card_type C13
            proof { assert(seen.contains(25u16)) ; }
        //@ before (card_number,bytes)=<
        //@ tag tags.no_second_dispatch.card_number C13
            proof { assert(!seen.contains(34u16)); seen = seen.insert(34u16) ; }
        //@ before returnErr(zvt_builder::ZVTError::DuplicateTag(
        //@ tag tags.duplicate_error_is_true.card_number C13
            proof { assert(seen.contains(34u16)) ; }
        //@ before (track_2_data,bytes)=<
        //@ tag tags.no_second_dispatch.track_2_data C13
            proof { assert(!seen.contains(35u16)); seen = seen.insert(35u16) ; }
        //@ before returnErr(zvt_builder::ZVTError::DuplicateTag(
        //@ tag tags.duplicate_error_is_true.track_2_data C13
            proof { assert(seen.contains(35u16)) ; }
        //@ before (result_code,bytes)=<
        //@ tag tags.no_second_dispatch.result_code C13
            proof { assert(!seen.contains(39u16)); seen = seen.insert(39u16) ; }
        //@ before returnErr(zvt_builder::ZVTError::DuplicateTag(
        //@ tag tags.duplicate_error_is_true.result_code C13
            proof { assert(seen.contains(39u16)) ; }
        //@ before (terminal_id,bytes)=<
        //@ tag tags.no_second_dispatch.terminal_id C13
            proof { assert(!seen.contains(41u16)); seen = seen.insert(41u16) ; }
        //@ before returnErr(zvt_builder::ZVTError::DuplicateTag(
        //@ tag tags.duplicate_error_is_true.terminal_id C13
            proof { assert(seen.contains(41u16)) ; }
        //@ before (vu_number,bytes)=<
        //@ tag tags.no_second_dispatch.vu_number C13
            proof { assert(!seen.contains(42u16)); seen = seen.insert(42u16) ; }
        //@ before returnErr(zvt_builder::ZVTError::DuplicateTag(
        //@ tag tags.duplicate_error_is_true.vu_number C13
            proof { assert(seen.contains(42u16)) ; }
        //@ before (aid_authorization_attribute,bytes)=<
        //@ tag tags.no_second_dispatch.aid_authorization_attribute C13
            proof { assert(!seen.contains(59u16)); seen = seen.insert(59u16) ; }
        //@ before returnErr(zvt_builder::ZVTError::DuplicateTag(
        //@ tag tags.duplicate_error_is_true.aid_authorization_attribute C13
            proof { assert(seen.contains(59u16)) ; }
        //@ before (additional_text,bytes)=<
        //@ tag tags.no_second_dispatch.additional_text C13
            proof { assert(!seen.contains(60u16)); seen = seen.insert(60u16) ; }
        //@ before returnErr(zvt_builder::ZVTError::DuplicateTag(
        //@ tag tags.duplicate_error_is_true.additional_text C13
            proof { assert(seen.contains(60u16)) ; }
        //@ before (single_amounts,bytes)=<
        //@ tag tags.no_second_dispatch.single_amounts C13
            proof { assert(!seen.contains(96u16)); seen = seen.insert(96u16) ; }
        //@ before returnErr(zvt_builder::ZVTError::DuplicateTag(
        //@ tag tags.duplicate_error_is_true.single_amounts C13
            proof { assert(seen.contains(96u16)) ; }
        //@ before (receipt_no,bytes)=<
        //@ tag tags.no_second_dispatch.receipt_no C13
            proof { assert(!seen.contains(135u16)); seen = seen.insert(135u16) ; }
        //@ before returnErr(zvt_builder::ZVTError::DuplicateTag(
        //@ tag tags.duplicate_error_is_true.receipt_no C13
            proof { assert(seen.contains(135u16)) ; }
        //@ before (currency,bytes)=<
        //@ tag tags.no_second_dispatch.currency C13
            proof { assert(!seen.contains(73u16)); seen = seen.insert(73u16) ; }
        //@ before returnErr(zvt_builder::ZVTError::DuplicateTag(
        //@ tag tags.duplicate_error_is_true.currency C13
            proof { assert(seen.contains(73u16)) ; }
        //@ before (zvt_card_type,bytes)=<
        //@ tag tags.no_second_dispatch.zvt_card_type C13
            proof { assert(!seen.contains(138u16)); seen = seen.insert(138u16) ; }
        //@ before returnErr(zvt_builder::ZVTError::DuplicateTag(
        //@ tag tags.duplicate_error_is_true.zvt_card_type C13
            proof { assert(seen.contains(138u16)) ; }
        //@ before (card_name,bytes)=<
        //@ tag tags.no_second_dispatch.card_name C13
            proof { assert(!seen.contains(139u16)); seen = seen.insert(139u16) ; }
        //@ before returnErr(zvt_builder::ZVTError::DuplicateTag(
        //@ tag tags.duplicate_error_is_true.card_name C13
            proof { assert(seen.contains(139u16)) ; }
        //@ before (zvt_card_type_id,bytes)=<
        //@ tag tags.no_second_dispatch.zvt_card_type_id C13
            proof { assert(!seen.contains(140u16)); seen = seen.insert(140u16) ; }
        //@ before returnErr(zvt_builder::ZVTError::DuplicateTag(
        //@ tag tags.duplicate_error_is_true.zvt_card_type_id C13
            proof { assert(seen.contains(140u16)) ; }
        //@ before (tlv,bytes)=<
        //@ tag tags.no_second_dispatch.tlv C13
            proof { assert(!seen.contains(6u16)); seen = seen.insert(6u16) ; }
        //@ before returnErr(zvt_builder::ZVTError::DuplicateTag(
        //@ tag tags.duplicate_error_is_true.tlv C13
            proof { assert(seen.contains(6u16)) ; }
        //@ before letmutas_vec
            let ghost req_left = required_tags@;
        //@ before returnErr(zvt_builder::ZVTError::MissingRequiredTags
        //@ tag tags.missing_names_all C13
            proof {
                assert(req_left =~= Set::<u16>::empty().difference(seen));
                assert forall|i: int| 0 <= i < as_vec@.len() implies Set::<u16>::empty().contains((#[trigger] as_vec@[i]).0) && !seen.contains(as_vec@[i].0) by {
                    assert(req_left.contains(as_vec@[i].0));
                }
                assert forall|t: u16| Set::<u16>::empty().contains(t) && !seen.contains(t) implies exists|i: int| 0 <= i < as_vec@.len() && (#[trigger] as_vec@[i]).0 == t by {
                    assert(req_left.contains(t));
                }
            }
        //@ tail
        //@ tag tags.ok_only_if_all_mandatory C13
            proof { assert(Set::<u16>::empty().subset_of(seen)); }
        //@ end
        proof fn law_dec_bounds(b: Seq<u8>) {}
        proof fn law_dec_frame(b: Seq<u8>, s: Seq<u8>) {}
        proof fn law_inverse(v: &StatusInformation) {}
    }

    //@ item exp:zvt | impl zvt_builder::ZvtCommand for StatusInformation | mod=packets
    //@ tag layout.control_field.StatusInformation C03
    /// CLASS/INSTR of the APDU (layout table)
    pub proof fn lemma_ctrl_StatusInformation()
        ensures <StatusInformation as zvt_builder::ZvtCommand>::CLASS == 4, <StatusInformation as zvt_builder::ZvtCommand>::INSTR == 15,
    {}
    //@ untag
    // ------------------------------------------------------------------ packets::IntermediateStatusInformation
    //@ item src:zvt/src/packets.rs | struct IntermediateStatusInformation
    impl zvt_builder::encoding::Encoding<IntermediateStatusInformation> for zvt_builder::encoding::Default {
        open spec fn enc_ok(v: &IntermediateStatusInformation) -> bool { <u8 as zvt_builder::ZvtSerializerImpl<length::Empty, encoding::Default, zvt_builder::encoding::Default>>::ser_pre(&v.status, None) && <Option<u8> as zvt_builder::ZvtSerializerImpl<length::Empty, encoding::Bcd, zvt_builder::encoding::Default>>::ser_pre(&v.timeout, None) }
        open spec fn canon(v: &IntermediateStatusInformation) -> bool { false }
        /// layout table (spec/tables/layout.json): the fields in order, each under its tag / length style / encoding
        open spec fn spec_enc(v: &IntermediateStatusInformation) -> Seq<u8> { <u8 as zvt_builder::ZvtSerializerImpl<length::Empty, encoding::Default, zvt_builder::encoding::Default>>::spec_ser_tagged(&v.status, None) + <Option<u8> as zvt_builder::ZvtSerializerImpl<length::Empty, encoding::Bcd, zvt_builder::encoding::Default>>::spec_ser_tagged(&v.timeout, None) }
        uninterp spec fn spec_dec(b: Seq<u8>) -> Option<(IntermediateStatusInformation, int)>;
        open spec fn progresses() -> bool { false }
        open spec fn self_delimiting() -> bool { false }
        open spec fn dec_rel(b: Seq<u8>, v: &IntermediateStatusInformation, k: int) -> bool { true }
        open spec fn dec_total(b: Seq<u8>) -> bool { false }
        /// the tag loop stops only at the end of the input, in front of something that is no tag, or in front of a tag that
        /// is not one of this struct's non-repeatable fields
        open spec fn dec_stop(rest: Seq<u8>) -> bool { rest.len() == 0 || (match <zvt_builder::encoding::Default as zvt_builder::encoding::Encoding<zvt_builder::Tag>>::spec_dec(rest) { None => true, Some((t, _)) => true }) }
        /// the tag loop is specified by totality and frame clauses only
        open spec fn functional() -> bool { false }
        //@ fn exp:zvt | impl zvt_builder::encoding::Encoding<IntermediateStatusInformation> for zvt_builder::encoding::Default | encode | mod=packets props=C03,~C01
        //@ end
        //@ fn exp:zvt | impl zvt_builder::encoding::Encoding<IntermediateStatusInformation> for zvt_builder::encoding::Default | decode | mod=packets all-loops props=C02,C14
        //@ loop 0
                invariant
                    crate::is_tail(bytes@, bytes0), crate::frame::tail_base(bytes0), bytes@.len() <= bytes0.len(),
                    curr_len <= usize::MAX,
        //@ tag tags.bookkeeping C13
                    actual_tags@ =~= seen,
                    required_tags@ =~= Set::<u16>::empty().difference(seen),
        //@ tag tags.stop C13
                    curr_len == bytes@.len() ==> <zvt_builder::encoding::Default as zvt_builder::encoding::Encoding<IntermediateStatusInformation>>::dec_stop(bytes@),
                ensures
                    <zvt_builder::encoding::Default as zvt_builder::encoding::Encoding<IntermediateStatusInformation>>::dec_stop(bytes@),
        //@ tag tags.loop.decreases C02
                decreases bytes@.len() + (if curr_len != bytes@.len() { 1nat } else { 0nat }),
        //@ entry
            let ghost bytes0 = bytes@;
            let ghost mut seen: Set<u16> = Set::<u16>::empty();
            proof { lemma_slice_len_le_isize_max(bytes); crate::frame::lemma_tail_base(bytes0); }
        //@ before letmutas_vec
            let ghost req_left = required_tags@;
        //@ before returnErr(zvt_builder::ZVTError::MissingRequiredTags
        //@ tag tags.missing_names_all C13
            proof {
                assert(req_left =~= Set::<u16>::empty().difference(seen));
                assert forall|i: int| 0 <= i < as_vec@.len() implies Set::<u16>::empty().contains((#[trigger] as_vec@[i]).0) && !seen.contains(as_vec@[i].0) by {
                    assert(req_left.contains(as_vec@[i].0));
                }
                assert forall|t: u16| Set::<u16>::empty().contains(t) && !seen.contains(t) implies exists|i: int| 0 <= i < as_vec@.len() && (#[trigger] as_vec@[i]).0 == t by {
                    assert(req_left.contains(t));
                }
            }
        //@ tail
        //@ tag tags.ok_only_if_all_mandatory C13
            proof { assert(Set::<u16>::empty().subset_of(seen)); }
        //@ end
        proof fn law_dec_bounds(b: Seq<u8>) {}
        proof fn law_dec_frame(b: Seq<u8>, s: Seq<u8>) {}
        proof fn law_inverse(v: &IntermediateStatusInformation) {}
    }

    //@ item exp:zvt | impl zvt_builder::ZvtCommand for IntermediateStatusInformation | mod=packets
    //@ tag layout.control_field.IntermediateStatusInformation C03
    /// CLASS/INSTR of the APDU (layout table)
    pub proof fn lemma_ctrl_IntermediateStatusInformation()
        ensures <IntermediateStatusInformation as zvt_builder::ZvtCommand>::CLASS == 4, <IntermediateStatusInformation as zvt_builder::ZvtCommand>::INSTR == 255,
    {}
    //@ untag
    // ------------------------------------------------------------------ packets::StatusEnquiry
    //@ item src:zvt/src/packets.rs | struct StatusEnquiry
    impl zvt_builder::encoding::Encoding<StatusEnquiry> for zvt_builder::encoding::Default {
        open spec fn enc_ok(v: &StatusEnquiry) -> bool { <Option<usize> as zvt_builder::ZvtSerializerImpl<length::Fixed<3>, encoding::Bcd, zvt_builder::encoding::Default>>::ser_pre(&v.password, None) && <Option<u8> as zvt_builder::ZvtSerializerImpl<length::Empty, encoding::Default, zvt_builder::encoding::Default>>::ser_pre(&v.service_byte, Some(zvt_builder::Tag(3u16))) && <Option<tlv::StatusEnquiry> as zvt_builder::ZvtSerializerImpl<length::Tlv, encoding::Default, zvt_builder::encoding::Default>>::ser_pre(&v.tlv, Some(zvt_builder::Tag(6u16))) }
        open spec fn canon(v: &StatusEnquiry) -> bool { false }
        /// layout table (spec/tables/layout.json): the fields in order, each under its tag / length style / encoding
        open spec fn spec_enc(v: &StatusEnquiry) -> Seq<u8> { <Option<usize> as zvt_builder::ZvtSerializerImpl<length::Fixed<3>, encoding::Bcd, zvt_builder::encoding::Default>>::spec_ser_tagged(&v.password, None) + <Option<u8> as zvt_builder::ZvtSerializerImpl<length::Empty, encoding::Default, zvt_builder::encoding::Default>>::spec_ser_tagged(&v.service_byte, Some(zvt_builder::Tag(3u16))) + <Option<tlv::StatusEnquiry> as zvt_builder::ZvtSerializerImpl<length::Tlv, encoding::Default, zvt_builder::encoding::Default>>::spec_ser_tagged(&v.tlv, Some(zvt_builder::Tag(6u16))) }
        uninterp spec fn spec_dec(b: Seq<u8>) -> Option<(StatusEnquiry, int)>;
        open spec fn progresses() -> bool { false }
        open spec fn self_delimiting() -> bool { false }
        open spec fn dec_rel(b: Seq<u8>, v: &StatusEnquiry, k: int) -> bool { true }
        open spec fn dec_total(b: Seq<u8>) -> bool { false }
        /// the tag loop stops only at the end of the input, in front of something that is no tag, or in front of a tag that
        /// is not one of this struct's non-repeatable fields
        open spec fn dec_stop(rest: Seq<u8>) -> bool { rest.len() == 0 || (match <zvt_builder::encoding::Default as zvt_builder::encoding::Encoding<zvt_builder::Tag>>::spec_dec(rest) { None => true, Some((t, _)) => t.0 != 3u16 && t.0 != 6u16 }) }
        /// the tag loop is specified by totality and frame clauses only
        open spec fn functional() -> bool { false }
        //@ fn exp:zvt | impl zvt_builder::encoding::Encoding<StatusEnquiry> for zvt_builder::encoding::Default | encode | mod=packets props=C03,~C01
        //@ end
        //@ fn exp:zvt | impl zvt_builder::encoding::Encoding<StatusEnquiry> for zvt_builder::encoding::Default | decode | mod=packets all-loops props=C02,C14
        //@ loop 0
                invariant
                    crate::is_tail(bytes@, bytes0), crate::frame::tail_base(bytes0), bytes@.len() <= bytes0.len(),
                    curr_len <= usize::MAX,
        //@ tag tags.bookkeeping C13
                    actual_tags@ =~= seen,
                    required_tags@ =~= Set::<u16>::empty().difference(seen),
        //@ tag tags.stop C13
                    curr_len == bytes@.len() ==> <zvt_builder::encoding::Default as zvt_builder::encoding::Encoding<StatusEnquiry>>::dec_stop(bytes@),
                ensures
                    <zvt_builder::encoding::Default as zvt_builder::encoding::Encoding<StatusEnquiry>>::dec_stop(bytes@),
        //@ tag tags.loop.decreases C02
                decreases bytes@.len() + (if curr_len != bytes@.len() { 1nat } else { 0nat }),
        //@ entry
            let ghost bytes0 = bytes@;
            let ghost mut seen: Set<u16> = Set::<u16>::empty();
            proof { lemma_slice_len_le_isize_max(bytes); crate::frame::lemma_tail_base(bytes0); }
        //@ before (service_byte,bytes)=<
        //@ tag tags.no_second_dispatch.service_byte C13
            proof { assert(!seen.contains(3u16)); seen = seen.insert(3u16) ; }
        //@ before returnErr(zvt_builder::ZVTError::DuplicateTag(
        //@ tag tags.duplicate_error_is_true.service_byte C13
            proof { assert(seen.contains(3u16)) ; }
        //@ before (tlv,bytes)=<
        //@ tag tags.no_second_dispatch.tlv C13
            proof { assert(!seen.contains(6u16)); seen = seen.insert(6u16) ; }
        //@ before returnErr(zvt_builder::ZVTError::DuplicateTag(
        //@ tag tags.duplicate_error_is_true.tlv C13
            proof { assert(seen.contains(6u16)) ; }
        //@ before letmutas_vec
            let ghost req_left = required_tags@;
        //@ before returnErr(zvt_builder::ZVTError::MissingRequiredTags
        //@ tag tags.missing_names_all C13
            proof {
                assert(req_left =~= Set::<u16>::empty().difference(seen));
                assert forall|i: int| 0 <= i < as_vec@.len() implies Set::<u16>::empty().contains((#[trigger] as_vec@[i]).0) && !seen.contains(as_vec@[i].0) by {
                    assert(req_left.contains(as_vec@[i].0));
                }
                assert forall|t: u16| Set::<u16>::empty().contains(t) && !seen.contains(t) implies exists|i: int| 0 <= i < as_vec@.len() && (#[trigger] as_vec@[i]).0 == t by {
                    assert(req_left.contains(t));
                }
            }
        //@ tail
        //@ tag tags.ok_only_if_all_mandatory C13
            proof { assert(Set::<u16>::empty().subset_of(seen)); }
        //@ end
        proof fn law_dec_bounds(b: Seq<u8>) {}
        proof fn law_dec_frame(b: Seq<u8>, s: Seq<u8>) {}
        proof fn law_inverse(v: &StatusEnquiry) {}
    }

    //@ item exp:zvt | impl zvt_builder::ZvtCommand for StatusEnquiry | mod=packets
    //@ tag layout.control_field.StatusEnquiry C03
    /// CLASS/INSTR of the APDU (layout table)
    pub proof fn lemma_ctrl_StatusEnquiry()
        ensures <StatusEnquiry as zvt_builder::ZvtCommand>::CLASS == 5, <StatusEnquiry as zvt_builder::ZvtCommand>::INSTR == 1,
    {}
    //@ untag
    // ------------------------------------------------------------------ packets::Registration
    //@ item src:zvt/src/packets.rs | struct Registration
    impl zvt_builder::encoding::Encoding<Registration> for zvt_builder::encoding::Default {
        open spec fn enc_ok(v: &Registration) -> bool { <usize as zvt_builder::ZvtSerializerImpl<length::Fixed<3>, encoding::Bcd, zvt_builder::encoding::Default>>::ser_pre(&v.password, None) && <u8 as zvt_builder::ZvtSerializerImpl<length::Empty, encoding::Default, zvt_builder::encoding::Default>>::ser_pre(&v.config_byte, None) && <Option<usize> as zvt_builder::ZvtSerializerImpl<length::Fixed<2>, encoding::Bcd, zvt_builder::encoding::Default>>::ser_pre(&v.currency, None) && <Option<tlv::Registration> as zvt_builder::ZvtSerializerImpl<length::Tlv, encoding::Default, zvt_builder::encoding::Default>>::ser_pre(&v.tlv, Some(zvt_builder::Tag(6u16))) }
        open spec fn canon(v: &Registration) -> bool { false }
        /// layout table (spec/tables/layout.json): the fields in order, each under its tag / length style / encoding
        open spec fn spec_enc(v: &Registration) -> Seq<u8> { <usize as zvt_builder::ZvtSerializerImpl<length::Fixed<3>, encoding::Bcd, zvt_builder::encoding::Default>>::spec_ser_tagged(&v.password, None) + <u8 as zvt_builder::ZvtSerializerImpl<length::Empty, encoding::Default, zvt_builder::encoding::Default>>::spec_ser_tagged(&v.config_byte, None) + <Option<usize> as zvt_builder::ZvtSerializerImpl<length::Fixed<2>, encoding::Bcd, zvt_builder::encoding::Default>>::spec_ser_tagged(&v.currency, None) + <Option<tlv::Registration> as zvt_builder::ZvtSerializerImpl<length::Tlv, encoding::Default, zvt_builder::encoding::Default>>::spec_ser_tagged(&v.tlv, Some(zvt_builder::Tag(6u16))) }
        uninterp spec fn spec_dec(b: Seq<u8>) -> Option<(Registration, int)>;
        open spec fn progresses() -> bool { false }
        open spec fn self_delimiting() -> bool { false }
        open spec fn dec_rel(b: Seq<u8>, v: &Registration, k: int) -> bool { true }
        open spec fn dec_total(b: Seq<u8>) -> bool { false }
        /// the tag loop stops only at the end of the input, in front of something that is no tag, or in front of a tag that
        /// is not one of this struct's non-repeatable fields
        open spec fn dec_stop(rest: Seq<u8>) -> bool { rest.len() == 0 || (match <zvt_builder::encoding::Default as zvt_builder::encoding::Encoding<zvt_builder::Tag>>::spec_dec(rest) { None => true, Some((t, _)) => t.0 != 6u16 }) }
        /// the tag loop is specified by totality and frame clauses only
        open spec fn functional() -> bool { false }
        //@ fn exp:zvt | impl zvt_builder::encoding::Encoding<Registration> for zvt_builder::encoding::Default | encode | mod=packets props=C03,~C01
        //@ end
        //@ fn exp:zvt | impl zvt_builder::encoding::Encoding<Registration> for zvt_builder::encoding::Default | decode | mod=packets all-loops props=C02,C14
        //@ loop 0
                invariant
                    crate::is_tail(bytes@, bytes0), crate::frame::tail_base(bytes0), bytes@.len() <= bytes0.len(),
                    curr_len <= usize::MAX,
        //@ tag tags.bookkeeping C13
                    actual_tags@ =~= seen,
                    required_tags@ =~= Set::<u16>::empty().difference(seen),
        //@ tag tags.stop C13
                    curr_len == bytes@.len() ==> <zvt_builder::encoding::Default as zvt_builder::encoding::Encoding<Registration>>::dec_stop(bytes@),
                ensures
                    <zvt_builder::encoding::Default as zvt_builder::encoding::Encoding<Registration>>::dec_stop(bytes@),
        //@ tag tags.loop.decreases C02
                decreases bytes@.len() + (if curr_len != bytes@.len() { 1nat } else { 0nat }),
        //@ entry
            let ghost bytes0 = bytes@;
            let ghost mut seen: Set<u16> = Set::<u16>::empty();
            proof { lemma_slice_len_le_isize_max(bytes); crate::frame::lemma_tail_base(bytes0); }
        //@ before (tlv,bytes)=<
        //@ tag tags.no_second_dispatch.tlv C13
            proof { assert(!seen.contains(6u16)); seen = seen.insert(6u16) ; }
        //@ before returnErr(zvt_builder::ZVTError::DuplicateTag(
        //@ tag tags.duplicate_error_is_true.tlv C13
            proof { assert(seen.contains(6u16)) ; }
        //@ before letmutas_vec
            let ghost req_left = required_tags@;
        //@ before returnErr(zvt_builder::ZVTError::MissingRequiredTags
        //@ tag tags.missing_names_all C13
            proof {
                assert(req_left =~= Set::<u16>::empty().difference(seen));
                assert forall|i: int| 0 <= i < as_vec@.len() implies Set::<u16>::empty().contains((#[trigger] as_vec@[i]).0) && !seen.contains(as_vec@[i].0) by {
                    assert(req_left.contains(as_vec@[i].0));
                }
                assert forall|t: u16| Set::<u16>::empty().contains(t) && !seen.contains(t) implies exists|i: int| 0 <= i < as_vec@.len() && (#[trigger] as_vec@[i]).0 == t by {
                    assert(req_left.contains(t));
                }
            }
        //@ tail
        //@ tag tags.ok_only_if_all_mandatory C13
            proof { assert(Set::<u16>::empty().subset_of(seen)); }
        //@ end
        proof fn law_dec_bounds(b: Seq<u8>) {}
        proof fn law_dec_frame(b: Seq<u8>, s: Seq<u8>) {}
        proof fn law_inverse(v: &Registration) {}
    }

    //@ item exp:zvt | impl zvt_builder::ZvtCommand for Registration | mod=packets
    //@ tag layout.control_field.Registration C03
    /// CLASS/INSTR of the APDU (layout table)
    pub proof fn lemma_ctrl_Registration()
        ensures <Registration as zvt_builder::ZvtCommand>::CLASS == 6, <Registration as zvt_builder::ZvtCommand>::INSTR == 0,
    {}
    //@ untag
    // ------------------------------------------------------------------ packets::CompletionData
    //@ item src:zvt/src/packets.rs | struct CompletionData
    impl zvt_builder::encoding::Encoding<CompletionData> for zvt_builder::encoding::Default {
        open spec fn enc_ok(v: &CompletionData) -> bool { <Option<u8> as zvt_builder::ZvtSerializerImpl<length::Empty, encoding::Default, zvt_builder::encoding::Default>>::ser_pre(&v.result_code, Some(zvt_builder::Tag(39u16))) && <Option<u8> as zvt_builder::ZvtSerializerImpl<length::Empty, encoding::Default, zvt_builder::encoding::Default>>::ser_pre(&v.status_byte, Some(zvt_builder::Tag(25u16))) && <Option<usize> as zvt_builder::ZvtSerializerImpl<length::Fixed<4>, encoding::Bcd, zvt_builder::encoding::Default>>::ser_pre(&v.terminal_id, Some(zvt_builder::Tag(41u16))) && <Option<usize> as zvt_builder::ZvtSerializerImpl<length::Fixed<2>, encoding::Bcd, zvt_builder::encoding::Default>>::ser_pre(&v.currency, Some(zvt_builder::Tag(73u16))) }
        open spec fn canon(v: &CompletionData) -> bool { false }
        /// layout table (spec/tables/layout.json): the fields in order, each under its tag / length style / encoding
        open spec fn spec_enc(v: &CompletionData) -> Seq<u8> { <Option<u8> as zvt_builder::ZvtSerializerImpl<length::Empty, encoding::Default, zvt_builder::encoding::Default>>::spec_ser_tagged(&v.result_code, Some(zvt_builder::Tag(39u16))) + <Option<u8> as zvt_builder::ZvtSerializerImpl<length::Empty, encoding::Default, zvt_builder::encoding::Default>>::spec_ser_tagged(&v.status_byte, Some(zvt_builder::Tag(25u16))) + <Option<usize> as zvt_builder::ZvtSerializerImpl<length::Fixed<4>, encoding::Bcd, zvt_builder::encoding::Default>>::spec_ser_tagged(&v.terminal_id, Some(zvt_builder::Tag(41u16))) + <Option<usize> as zvt_builder::ZvtSerializerImpl<length::Fixed<2>, encoding::Bcd, zvt_builder::encoding::Default>>::spec_ser_tagged(&v.currency, Some(zvt_builder::Tag(73u16))) }
        uninterp spec fn spec_dec(b: Seq<u8>) -> Option<(CompletionData, int)>;
        open spec fn progresses() -> bool { false }
        open spec fn self_delimiting() -> bool { false }
        open spec fn dec_rel(b: Seq<u8>, v: &CompletionData, k: int) -> bool { true }
        open spec fn dec_total(b: Seq<u8>) -> bool { false }
        /// the tag loop stops only at the end of the input, in front of something that is no tag, or in front of a tag that
        /// is not one of this struct's non-repeatable fields
        open spec fn dec_stop(rest: Seq<u8>) -> bool { rest.len() == 0 || (match <zvt_builder::encoding::Default as zvt_builder::encoding::Encoding<zvt_builder::Tag>>::spec_dec(rest) { None => true, Some((t, _)) => t.0 != 39u16 && t.0 != 25u16 && t.0 != 41u16 && t.0 != 73u16 }) }
        /// the tag loop is specified by totality and frame clauses only
        open spec fn functional() -> bool { false }
        //@ fn exp:zvt | impl zvt_builder::encoding::Encoding<CompletionData> for zvt_builder::encoding::Default | encode | mod=packets props=C03,~C01
        //@ end
        //@ fn exp:zvt | impl zvt_builder::encoding::Encoding<CompletionData> for zvt_builder::encoding::Default | decode | mod=packets all-loops props=C02,C14
        //@ loop 0
                invariant
                    crate::is_tail(bytes@, bytes0), crate::frame::tail_base(bytes0), bytes@.len() <= bytes0.len(),
                    curr_len <= usize::MAX,
        //@ tag tags.bookkeeping C13
                    actual_tags@ =~= seen,
                    required_tags@ =~= Set::<u16>::empty().difference(seen),
        //@ tag tags.stop C13
                    curr_len == bytes@.len() ==> <zvt_builder::encoding::Default as zvt_builder::encoding::Encoding<CompletionData>>::dec_stop(bytes@),
                ensures
                    <zvt_builder::encoding::Default as zvt_builder::encoding::Encoding<CompletionData>>::dec_stop(bytes@),
        //@ tag tags.loop.decreases C02
                decreases bytes@.len() + (if curr_len != bytes@.len() { 1nat } else { 0nat }),
        //@ entry
            let ghost bytes0 = bytes@;
            let ghost mut seen: Set<u16> = Set::<u16>::empty();
            proof { lemma_slice_len_le_isize_max(bytes); crate::frame::lemma_tail_base(bytes0); }
        //@ before (result_code,bytes)=<
        //@ tag tags.no_second_dispatch.result_code C13
            proof { assert(!seen.contains(39u16)); seen = seen.insert(39u16) ; }
        //@ before returnErr(zvt_builder::ZVTError::DuplicateTag(
        //@ tag tags.duplicate_error_is_true.result_code C13
            proof { assert(seen.contains(39u16)) ; }
        //@ before (status_byte,bytes)=<
        //@ tag tags.no_second_dispatch.status_byte C13
            proof { assert(!seen.contains(25u16)); seen = seen.insert(25u16) ; }
        //@ before returnErr(zvt_builder::ZVTError::DuplicateTag(
        //@ tag tags.duplicate_error_is_true.status_byte C13
            proof { assert(seen.contains(25u16)) ; }
        //@ before (terminal_id,bytes)=<
        //@ tag tags.no_second_dispatch.terminal_id C13
            proof { assert(!seen.contains(41u16)); seen = seen.insert(41u16) ; }
        //@ before returnErr(zvt_builder::ZVTError::DuplicateTag(
        //@ tag tags.duplicate_error_is_true.terminal_id C13
            proof { assert(seen.contains(41u16)) ; }
        //@ before (currency,bytes)=<
        //@ tag tags.no_second_dispatch.currency C13
            proof { assert(!seen.contains(73u16)); seen = seen.insert(73u16) ; }
        //@ before returnErr(zvt_builder::ZVTError::DuplicateTag(
        //@ tag tags.duplicate_error_is_true.currency C13
            proof { assert(seen.contains(73u16)) ; }
        //@ before letmutas_vec
            let ghost req_left = required_tags@;
        //@ before returnErr(zvt_builder::ZVTError::MissingRequiredTags
        //@ tag tags.missing_names_all C13
            proof {
                assert(req_left =~= Set::<u16>::empty().difference(seen));
                assert forall|i: int| 0 <= i < as_vec@.len() implies Set::<u16>::empty().contains((#[trigger] as_vec@[i]).0) && !seen.contains(as_vec@[i].0) by {
                    assert(req_left.contains(as_vec@[i].0));
                }
                assert forall|t: u16| Set::<u16>::empty().contains(t) && !seen.contains(t) implies exists|i: int| 0 <= i < as_vec@.len() && (#[trigger] as_vec@[i]).0 == t by {
                    assert(req_left.contains(t));
                }
            }
        //@ tail
        //@ tag tags.ok_only_if_all_mandatory C13
            proof { assert(Set::<u16>::empty().subset_of(seen)); }
        //@ end
        proof fn law_dec_bounds(b: Seq<u8>) {}
        proof fn law_dec_frame(b: Seq<u8>, s: Seq<u8>) {}
        proof fn law_inverse(v: &CompletionData) {}
    }

    //@ item exp:zvt | impl zvt_builder::ZvtCommand for CompletionData | mod=packets
    //@ tag layout.control_field.CompletionData C03
    /// CLASS/INSTR of the APDU (layout table)
    pub proof fn lemma_ctrl_CompletionData()
        ensures <CompletionData as zvt_builder::ZvtCommand>::CLASS == 6, <CompletionData as zvt_builder::ZvtCommand>::INSTR == 15,
    {}
    //@ untag
    // ------------------------------------------------------------------ packets::ReceiptPrintoutCompletion
    //@ item src:zvt/src/packets.rs | struct ReceiptPrintoutCompletion
    impl zvt_builder::encoding::Encoding<ReceiptPrintoutCompletion> for zvt_builder::encoding::Default {
        open spec fn enc_ok(v: &ReceiptPrintoutCompletion) -> bool { <String as zvt_builder::ZvtSerializerImpl<length::Lllv, encoding::Utf8, zvt_builder::encoding::Default>>::ser_pre(&v.sw_version, None) && <u8 as zvt_builder::ZvtSerializerImpl<length::Empty, encoding::Default, zvt_builder::encoding::Default>>::ser_pre(&v.terminal_status_code, None) && <Option<tlv::ReceiptPrintoutCompletion> as zvt_builder::ZvtSerializerImpl<length::Tlv, encoding::Default, zvt_builder::encoding::Default>>::ser_pre(&v.tlv, Some(zvt_builder::Tag(6u16))) }
        open spec fn canon(v: &ReceiptPrintoutCompletion) -> bool { false }
        /// layout table (spec/tables/layout.json): the fields in order, each under its tag / length style / encoding
        open spec fn spec_enc(v: &ReceiptPrintoutCompletion) -> Seq<u8> { <String as zvt_builder::ZvtSerializerImpl<length::Lllv, encoding::Utf8, zvt_builder::encoding::Default>>::spec_ser_tagged(&v.sw_version, None) + <u8 as zvt_builder::ZvtSerializerImpl<length::Empty, encoding::Default, zvt_builder::encoding::Default>>::spec_ser_tagged(&v.terminal_status_code, None) + <Option<tlv::ReceiptPrintoutCompletion> as zvt_builder::ZvtSerializerImpl<length::Tlv, encoding::Default, zvt_builder::encoding::Default>>::spec_ser_tagged(&v.tlv, Some(zvt_builder::Tag(6u16))) }
        uninterp spec fn spec_dec(b: Seq<u8>) -> Option<(ReceiptPrintoutCompletion, int)>;
        open spec fn progresses() -> bool { false }
        open spec fn self_delimiting() -> bool { false }
        open spec fn dec_rel(b: Seq<u8>, v: &ReceiptPrintoutCompletion, k: int) -> bool { true }
        open spec fn dec_total(b: Seq<u8>) -> bool { false }
        /// the tag loop stops only at the end of the input, in front of something that is no tag, or in front of a tag that
        /// is not one of this struct's non-repeatable fields
        open spec fn dec_stop(rest: Seq<u8>) -> bool { rest.len() == 0 || (match <zvt_builder::encoding::Default as zvt_builder::encoding::Encoding<zvt_builder::Tag>>::spec_dec(rest) { None => true, Some((t, _)) => t.0 != 6u16 }) }
        /// the tag loop is specified by totality and frame clauses only
        open spec fn functional() -> bool { false }
        //@ fn exp:zvt | impl zvt_builder::encoding::Encoding<ReceiptPrintoutCompletion> for zvt_builder::encoding::Default | encode | mod=packets props=C03,~C01
        //@ end
        //@ fn exp:zvt | impl zvt_builder::encoding::Encoding<ReceiptPrintoutCompletion> for zvt_builder::encoding::Default | decode | mod=packets all-loops props=C02,C14
        //@ loop 0
                invariant
                    crate::is_tail(bytes@, bytes0), crate::frame::tail_base(bytes0), bytes@.len() <= bytes0.len(),
                    curr_len <= usize::MAX,
        //@ tag tags.bookkeeping C13
                    actual_tags@ =~= seen,
                    required_tags@ =~= Set::<u16>::empty().difference(seen),
        //@ tag tags.stop C13
                    curr_len == bytes@.len() ==> <zvt_builder::encoding::Default as zvt_builder::encoding::Encoding<ReceiptPrintoutCompletion>>::dec_stop(bytes@),
                ensures
                    <zvt_builder::encoding::Default as zvt_builder::encoding::Encoding<ReceiptPrintoutCompletion>>::dec_stop(bytes@),
        //@ tag tags.loop.decreases C02
                decreases bytes@.len() + (if curr_len != bytes@.len() { 1nat } else { 0nat }),
        //@ entry
            let ghost bytes0 = bytes@;
            let ghost mut seen: Set<u16> = Set::<u16>::empty();
            proof { lemma_slice_len_le_isize_max(bytes); crate::frame::lemma_tail_base(bytes0); }
        //@ before (tlv,bytes)=<
        //@ tag tags.no_second_dispatch.tlv C13
            proof { assert(!seen.contains(6u16)); seen = seen.insert(6u16) ; }
        //@ before returnErr(zvt_builder::ZVTError::DuplicateTag(
        //@ tag tags.duplicate_error_is_true.tlv C13
            proof { assert(seen.contains(6u16)) ; }
        //@ before letmutas_vec
            let ghost req_left = required_tags@;
        //@ before returnErr(zvt_builder::ZVTError::MissingRequiredTags
        //@ tag tags.missing_names_all C13
            proof {
                assert(req_left =~= Set::<u16>::empty().difference(seen));
                assert forall|i: int| 0 <= i < as_vec@.len() implies Set::<u16>::empty().contains((#[trigger] as_vec@[i]).0) && !seen.contains(as_vec@[i].0) by {
                    assert(req_left.contains(as_vec@[i].0));
                }
                assert forall|t: u16| Set::<u16>::empty().contains(t) && !seen.contains(t) implies exists|i: int| 0 <= i < as_vec@.len() && (#[trigger] as_vec@[i]).0 == t by {
                    assert(req_left.contains(t));
                }
            }
        //@ tail
        //@ tag tags.ok_only_if_all_mandatory C13
            proof { assert(Set::<u16>::empty().subset_of(seen)); }
        //@ end
        proof fn law_dec_bounds(b: Seq<u8>) {}
        proof fn law_dec_frame(b: Seq<u8>, s: Seq<u8>) {}
        proof fn law_inverse(v: &ReceiptPrintoutCompletion) {}
    }

    //@ item exp:zvt | impl zvt_builder::ZvtCommand for ReceiptPrintoutCompletion | mod=packets
    //@ tag layout.control_field.ReceiptPrintoutCompletion C03
    /// CLASS/INSTR of the APDU (layout table)
    pub proof fn lemma_ctrl_ReceiptPrintoutCompletion()
        ensures <ReceiptPrintoutCompletion as zvt_builder::ZvtCommand>::CLASS == 6, <ReceiptPrintoutCompletion as zvt_builder::ZvtCommand>::INSTR == 15,
    {}
    //@ untag
    // ------------------------------------------------------------------ packets::ResetTerminal
    //@ item src:zvt/src/packets.rs | struct ResetTerminal
    impl zvt_builder::encoding::Encoding<ResetTerminal> for zvt_builder::encoding::Default {
        open spec fn enc_ok(v: &ResetTerminal) -> bool { true }
        open spec fn canon(v: &ResetTerminal) -> bool { false }
        /// layout table (spec/tables/layout.json): the fields in order, each under its tag / length style / encoding
        open spec fn spec_enc(v: &ResetTerminal) -> Seq<u8> { Seq::<u8>::empty() }
        uninterp spec fn spec_dec(b: Seq<u8>) -> Option<(ResetTerminal, int)>;
        open spec fn progresses() -> bool { false }
        open spec fn self_delimiting() -> bool { false }
        open spec fn dec_rel(b: Seq<u8>, v: &ResetTerminal, k: int) -> bool { true }
        open spec fn dec_total(b: Seq<u8>) -> bool { false }
        /// the tag loop stops only at the end of the input, in front of something that is no tag, or in front of a tag that
        /// is not one of this struct's non-repeatable fields
        open spec fn dec_stop(rest: Seq<u8>) -> bool { rest.len() == 0 || (match <zvt_builder::encoding::Default as zvt_builder::encoding::Encoding<zvt_builder::Tag>>::spec_dec(rest) { None => true, Some((t, _)) => true }) }
        /// the tag loop is specified by totality and frame clauses only
        open spec fn functional() -> bool { false }
        //@ fn exp:zvt | impl zvt_builder::encoding::Encoding<ResetTerminal> for zvt_builder::encoding::Default | encode | mod=packets props=C03,~C01
        //@ end
        //@ fn exp:zvt | impl zvt_builder::encoding::Encoding<ResetTerminal> for zvt_builder::encoding::Default | decode | mod=packets all-loops props=C02,C14
        //@ loop 0
                invariant
                    crate::is_tail(bytes@, bytes0), crate::frame::tail_base(bytes0), bytes@.len() <= bytes0.len(),
                    curr_len <= usize::MAX,
        //@ tag tags.bookkeeping C13
                    actual_tags@ =~= seen,
                    required_tags@ =~= Set::<u16>::empty().difference(seen),
        //@ tag tags.stop C13
                    curr_len == bytes@.len() ==> <zvt_builder::encoding::Default as zvt_builder::encoding::Encoding<ResetTerminal>>::dec_stop(bytes@),
                ensures
                    <zvt_builder::encoding::Default as zvt_builder::encoding::Encoding<ResetTerminal>>::dec_stop(bytes@),
        //@ tag tags.loop.decreases C02
                decreases bytes@.len() + (if curr_len != bytes@.len() { 1nat } else { 0nat }),
        //@ entry
            let ghost bytes0 = bytes@;
            let ghost mut seen: Set<u16> = Set::<u16>::empty();
            proof { lemma_slice_len_le_isize_max(bytes); crate::frame::lemma_tail_base(bytes0); }
        //@ before letmutas_vec
            let ghost req_left = required_tags@;
        //@ before returnErr(zvt_builder::ZVTError::MissingRequiredTags
        //@ tag tags.missing_names_all C13
            proof {
                assert(req_left =~= Set::<u16>::empty().difference(seen));
                assert forall|i: int| 0 <= i < as_vec@.len() implies Set::<u16>::empty().contains((#[trigger] as_vec@[i]).0) && !seen.contains(as_vec@[i].0) by {
                    assert(req_left.contains(as_vec@[i].0));
                }
                assert forall|t: u16| Set::<u16>::empty().contains(t) && !seen.contains(t) implies exists|i: int| 0 <= i < as_vec@.len() && (#[trigger] as_vec@[i]).0 == t by {
                    assert(req_left.contains(t));
                }
            }
        //@ tail
        //@ tag tags.ok_only_if_all_mandatory C13
            proof { assert(Set::<u16>::empty().subset_of(seen)); }
        //@ end
        proof fn law_dec_bounds(b: Seq<u8>) {}
        proof fn law_dec_frame(b: Seq<u8>, s: Seq<u8>) {}
        proof fn law_inverse(v: &ResetTerminal) {}
    }

    //@ item exp:zvt | impl zvt_builder::ZvtCommand for ResetTerminal | mod=packets
    //@ tag layout.control_field.ResetTerminal C03
    /// CLASS/INSTR of the APDU (layout table)
    pub proof fn lemma_ctrl_ResetTerminal()
        ensures <ResetTerminal as zvt_builder::ZvtCommand>::CLASS == 6, <ResetTerminal as zvt_builder::ZvtCommand>::INSTR == 24,
    {}
    //@ untag
    // ------------------------------------------------------------------ packets::PrintSystemConfiguration
    //@ item src:zvt/src/packets.rs | struct PrintSystemConfiguration
    impl zvt_builder::encoding::Encoding<PrintSystemConfiguration> for zvt_builder::encoding::Default {
        open spec fn enc_ok(v: &PrintSystemConfiguration) -> bool { true }
        open spec fn canon(v: &PrintSystemConfiguration) -> bool { false }
        /// layout table (spec/tables/layout.json): the fields in order, each under its tag / length style / encoding
        open spec fn spec_enc(v: &PrintSystemConfiguration) -> Seq<u8> { Seq::<u8>::empty() }
        uninterp spec fn spec_dec(b: Seq<u8>) -> Option<(PrintSystemConfiguration, int)>;
        open spec fn progresses() -> bool { false }
        open spec fn self_delimiting() -> bool { false }
        open spec fn dec_rel(b: Seq<u8>, v: &PrintSystemConfiguration, k: int) -> bool { true }
        open spec fn dec_total(b: Seq<u8>) -> bool { false }
        /// the tag loop stops only at the end of the input, in front of something that is no tag, or in front of a tag that
        /// is not one of this struct's non-repeatable fields
        open spec fn dec_stop(rest: Seq<u8>) -> bool { rest.len() == 0 || (match <zvt_builder::encoding::Default as zvt_builder::encoding::Encoding<zvt_builder::Tag>>::spec_dec(rest) { None => true, Some((t, _)) => true }) }
        /// the tag loop is specified by totality and frame clauses only
        open spec fn functional() -> bool { false }
        //@ fn exp:zvt | impl zvt_builder::encoding::Encoding<PrintSystemConfiguration> for zvt_builder::encoding::Default | encode | mod=packets props=C03,~C01
        //@ end
        //@ fn exp:zvt | impl zvt_builder::encoding::Encoding<PrintSystemConfiguration> for zvt_builder::encoding::Default | decode | mod=packets all-loops props=C02,C14
        //@ loop 0
                invariant
                    crate::is_tail(bytes@, bytes0), crate::frame::tail_base(bytes0), bytes@.len() <= bytes0.len(),
                    curr_len <= usize::MAX,
        //@ tag tags.bookkeeping C13
                    actual_tags@ =~= seen,
                    required_tags@ =~= Set::<u16>::empty().difference(seen),
        //@ tag tags.stop C13
                    curr_len == bytes@.len() ==> <zvt_builder::encoding::Default as zvt_builder::encoding::Encoding<PrintSystemConfiguration>>::dec_stop(bytes@),
                ensures
                    <zvt_builder::encoding::Default as zvt_builder::encoding::Encoding<PrintSystemConfiguration>>::dec_stop(bytes@),
        //@ tag tags.loop.decreases C02
                decreases bytes@.len() + (if curr_len != bytes@.len() { 1nat } else { 0nat }),
        //@ entry
            let ghost bytes0 = bytes@;
            let ghost mut seen: Set<u16> = Set::<u16>::empty();
            proof { lemma_slice_len_le_isize_max(bytes); crate::frame::lemma_tail_base(bytes0); }
        //@ before letmutas_vec
            let ghost req_left = required_tags@;
        //@ before returnErr(zvt_builder::ZVTError::MissingRequiredTags
        //@ tag tags.missing_names_all C13
            proof {
                assert(req_left =~= Set::<u16>::empty().difference(seen));
                assert forall|i: int| 0 <= i < as_vec@.len() implies Set::<u16>::empty().contains((#[trigger] as_vec@[i]).0) && !seen.contains(as_vec@[i].0) by {
                    assert(req_left.contains(as_vec@[i].0));
                }
                assert forall|t: u16| Set::<u16>::empty().contains(t) && !seen.contains(t) implies exists|i: int| 0 <= i < as_vec@.len() && (#[trigger] as_vec@[i]).0 == t by {
                    assert(req_left.contains(t));
                }
            }
        //@ tail
        //@ tag tags.ok_only_if_all_mandatory C13
            proof { assert(Set::<u16>::empty().subset_of(seen)); }
        //@ end
        proof fn law_dec_bounds(b: Seq<u8>) {}
        proof fn law_dec_frame(b: Seq<u8>, s: Seq<u8>) {}
        proof fn law_inverse(v: &PrintSystemConfiguration) {}
    }

    //@ item exp:zvt | impl zvt_builder::ZvtCommand for PrintSystemConfiguration | mod=packets
    //@ tag layout.control_field.PrintSystemConfiguration C03
    /// CLASS/INSTR of the APDU (layout table)
    pub proof fn lemma_ctrl_PrintSystemConfiguration()
        ensures <PrintSystemConfiguration as zvt_builder::ZvtCommand>::CLASS == 6, <PrintSystemConfiguration as zvt_builder::ZvtCommand>::INSTR == 26,
    {}
    //@ untag
    // ------------------------------------------------------------------ packets::SetTerminalId
    //@ item src:zvt/src/packets.rs | struct SetTerminalId
    impl zvt_builder::encoding::Encoding<SetTerminalId> for zvt_builder::encoding::Default {
        open spec fn enc_ok(v: &SetTerminalId) -> bool { <usize as zvt_builder::ZvtSerializerImpl<length::Fixed<3>, encoding::Bcd, zvt_builder::encoding::Default>>::ser_pre(&v.password, None) && <Option<usize> as zvt_builder::ZvtSerializerImpl<length::Fixed<4>, encoding::Bcd, zvt_builder::encoding::Default>>::ser_pre(&v.terminal_id, Some(zvt_builder::Tag(41u16))) }
        open spec fn canon(v: &SetTerminalId) -> bool { false }
        /// layout table (spec/tables/layout.json): the fields in order, each under its tag / length style / encoding
        open spec fn spec_enc(v: &SetTerminalId) -> Seq<u8> { <usize as zvt_builder::ZvtSerializerImpl<length::Fixed<3>, encoding::Bcd, zvt_builder::encoding::Default>>::spec_ser_tagged(&v.password, None) + <Option<usize> as zvt_builder::ZvtSerializerImpl<length::Fixed<4>, encoding::Bcd, zvt_builder::encoding::Default>>::spec_ser_tagged(&v.terminal_id, Some(zvt_builder::Tag(41u16))) }
        uninterp spec fn spec_dec(b: Seq<u8>) -> Option<(SetTerminalId, int)>;
        open spec fn progresses() -> bool { false }
        open spec fn self_delimiting() -> bool { false }
        open spec fn dec_rel(b: Seq<u8>, v: &SetTerminalId, k: int) -> bool { true }
        open spec fn dec_total(b: Seq<u8>) -> bool { false }
        /// the tag loop stops only at the end of the input, in front of something that is no tag, or in front of a tag that
        /// is not one of this struct's non-repeatable fields
        open spec fn dec_stop(rest: Seq<u8>) -> bool { rest.len() == 0 || (match <zvt_builder::encoding::Default as zvt_builder::encoding::Encoding<zvt_builder::Tag>>::spec_dec(rest) { None => true, Some((t, _)) => t.0 != 41u16 }) }
        /// the tag loop is specified by totality and frame clauses only
        open spec fn functional() -> bool { false }
        //@ fn exp:zvt | impl zvt_builder::encoding::Encoding<SetTerminalId> for zvt_builder::encoding::Default | encode | mod=packets props=C03,~C01
        //@ end
        //@ fn exp:zvt | impl zvt_builder::encoding::Encoding<SetTerminalId> for zvt_builder::encoding::Default | decode | mod=packets all-loops props=C02,C14
        //@ loop 0
                invariant
                    crate::is_tail(bytes@, bytes0), crate::frame::tail_base(bytes0), bytes@.len() <= bytes0.len(),
                    curr_len <= usize::MAX,
        //@ tag tags.bookkeeping C13
                    actual_tags@ =~= seen,
                    required_tags@ =~= Set::<u16>::empty().difference(seen),
        //@ tag tags.stop C13
                    curr_len == bytes@.len() ==> <zvt_builder::encoding::Default as zvt_builder::encoding::Encoding<SetTerminalId>>::dec_stop(bytes@),
                ensures
                    <zvt_builder::encoding::Default as zvt_builder::encoding::Encoding<SetTerminalId>>::dec_stop(bytes@),
        //@ tag tags.loop.decreases C02
                decreases bytes@.len() + (if curr_len != bytes@.len() { 1nat } else { 0nat }),
        //@ entry
            let ghost bytes0 = bytes@;
            let ghost mut seen: Set<u16> = Set::<u16>::empty();
            proof { lemma_slice_len_le_isize_max(bytes); crate::frame::lemma_tail_base(bytes0); }
        //@ before (terminal_id,bytes)=<
        //@ tag tags.no_second_dispatch.terminal_id C13
            proof { assert(!seen.contains(41u16)); seen = seen.insert(41u16) ; }
        //@ before returnErr(zvt_builder::ZVTError::DuplicateTag(
        //@ tag tags.duplicate_error_is_true.terminal_id C13
            proof { assert(seen.contains(41u16)) ; }
        //@ before letmutas_vec
            let ghost req_left = required_tags@;
        //@ before returnErr(zvt_builder::ZVTError::MissingRequiredTags
        //@ tag tags.missing_names_all C13
            proof {
                assert(req_left =~= Set::<u16>::empty().difference(seen));
                assert forall|i: int| 0 <= i < as_vec@.len() implies Set::<u16>::empty().contains((#[trigger] as_vec@[i]).0) && !seen.contains(as_vec@[i].0) by {
                    assert(req_left.contains(as_vec@[i].0));
                }
                assert forall|t: u16| Set::<u16>::empty().contains(t) && !seen.contains(t) implies exists|i: int| 0 <= i < as_vec@.len() && (#[trigger] as_vec@[i]).0 == t by {
                    assert(req_left.contains(t));
                }
            }
        //@ tail
        //@ tag tags.ok_only_if_all_mandatory C13
            proof { assert(Set::<u16>::empty().subset_of(seen)); }
        //@ end
        proof fn law_dec_bounds(b: Seq<u8>) {}
        proof fn law_dec_frame(b: Seq<u8>, s: Seq<u8>) {}
        proof fn law_inverse(v: &SetTerminalId) {}
    }

    //@ item exp:zvt | impl zvt_builder::ZvtCommand for SetTerminalId | mod=packets
    //@ tag layout.control_field.SetTerminalId C03
    /// CLASS/INSTR of the APDU (layout table)
    pub proof fn lemma_ctrl_SetTerminalId()
        ensures <SetTerminalId as zvt_builder::ZvtCommand>::CLASS == 6, <SetTerminalId as zvt_builder::ZvtCommand>::INSTR == 27,
    {}
    //@ untag
    // ------------------------------------------------------------------ packets::Abort
    //@ item src:zvt/src/packets.rs | struct Abort
    impl zvt_builder::encoding::Encoding<Abort> for zvt_builder::encoding::Default {
        open spec fn enc_ok(v: &Abort) -> bool { <u8 as zvt_builder::ZvtSerializerImpl<length::Empty, encoding::Default, zvt_builder::encoding::Default>>::ser_pre(&v.error, None) }
        open spec fn canon(v: &Abort) -> bool { false }
        /// layout table (spec/tables/layout.json): the fields in order, each under its tag / length style / encoding
        open spec fn spec_enc(v: &Abort) -> Seq<u8> { <u8 as zvt_builder::ZvtSerializerImpl<length::Empty, encoding::Default, zvt_builder::encoding::Default>>::spec_ser_tagged(&v.error, None) }
        uninterp spec fn spec_dec(b: Seq<u8>) -> Option<(Abort, int)>;
        open spec fn progresses() -> bool { false }
        open spec fn self_delimiting() -> bool { false }
        open spec fn dec_rel(b: Seq<u8>, v: &Abort, k: int) -> bool { true }
        open spec fn dec_total(b: Seq<u8>) -> bool { false }
        /// the tag loop stops only at the end of the input, in front of something that is no tag, or in front of a tag that
        /// is not one of this struct's non-repeatable fields
        open spec fn dec_stop(rest: Seq<u8>) -> bool { rest.len() == 0 || (match <zvt_builder::encoding::Default as zvt_builder::encoding::Encoding<zvt_builder::Tag>>::spec_dec(rest) { None => true, Some((t, _)) => true }) }
        /// the tag loop is specified by totality and frame clauses only
        open spec fn functional() -> bool { false }
        //@ fn exp:zvt | impl zvt_builder::encoding::Encoding<Abort> for zvt_builder::encoding::Default | encode | mod=packets props=C03,~C01
        //@ end
        //@ fn exp:zvt | impl zvt_builder::encoding::Encoding<Abort> for zvt_builder::encoding::Default | decode | mod=packets all-loops props=C02,C14
        //@ loop 0
                invariant
                    crate::is_tail(bytes@, bytes0), crate::frame::tail_base(bytes0), bytes@.len() <= bytes0.len(),
                    curr_len <= usize::MAX,
        //@ tag tags.bookkeeping C13
                    actual_tags@ =~= seen,
                    required_tags@ =~= Set::<u16>::empty().difference(seen),
        //@ tag tags.stop C13
                    curr_len == bytes@.len() ==> <zvt_builder::encoding::Default as zvt_builder::encoding::Encoding<Abort>>::dec_stop(bytes@),
                ensures
                    <zvt_builder::encoding::Default as zvt_builder::encoding::Encoding<Abort>>::dec_stop(bytes@),
        //@ tag tags.loop.decreases C02
                decreases bytes@.len() + (if curr_len != bytes@.len() { 1nat } else { 0nat }),
        //@ entry
            let ghost bytes0 = bytes@;
            let ghost mut seen: Set<u16> = Set::<u16>::empty();
            proof { lemma_slice_len_le_isize_max(bytes); crate::frame::lemma_tail_base(bytes0); }
        //@ before letmutas_vec
            let ghost req_left = required_tags@;
        //@ before returnErr(zvt_builder::ZVTError::MissingRequiredTags
        //@ tag tags.missing_names_all C13
            proof {
                assert(req_left =~= Set::<u16>::empty().difference(seen));
                assert forall|i: int| 0 <= i < as_vec@.len() implies Set::<u16>::empty().contains((#[trigger] as_vec@[i]).0) && !seen.contains(as_vec@[i].0) by {
                    assert(req_left.contains(as_vec@[i].0));
                }
                assert forall|t: u16| Set::<u16>::empty().contains(t) && !seen.contains(t) implies exists|i: int| 0 <= i < as_vec@.len() && (#[trigger] as_vec@[i]).0 == t by {
                    assert(req_left.contains(t));
                }
            }
        //@ tail
        //@ tag tags.ok_only_if_all_mandatory C13
            proof { assert(Set::<u16>::empty().subset_of(seen)); }
        //@ end
        proof fn law_dec_bounds(b: Seq<u8>) {}
        proof fn law_dec_frame(b: Seq<u8>, s: Seq<u8>) {}
        proof fn law_inverse(v: &Abort) {}
    }

    //@ item exp:zvt | impl zvt_builder::ZvtCommand for Abort | mod=packets
    //@ tag layout.control_field.Abort C03
    /// CLASS/INSTR of the APDU (layout table)
    pub proof fn lemma_ctrl_Abort()
        ensures <Abort as zvt_builder::ZvtCommand>::CLASS == 6, <Abort as zvt_builder::ZvtCommand>::INSTR == 30,
    {}
    //@ untag
    // ------------------------------------------------------------------ packets::ReservationAbort
    //@ item src:zvt/src/packets.rs | struct ReservationAbort
    impl zvt_builder::encoding::Encoding<ReservationAbort> for zvt_builder::encoding::Default {
        open spec fn enc_ok(v: &ReservationAbort) -> bool { <u8 as zvt_builder::ZvtSerializerImpl<length::Empty, encoding::Default, zvt_builder::encoding::Default>>::ser_pre(&v.error, None) && <Option<usize> as zvt_builder::ZvtSerializerImpl<length::Fixed<2>, encoding::Bcd, zvt_builder::encoding::Default>>::ser_pre(&v.currency, None) && <Option<tlv::ReservationAbort> as zvt_builder::ZvtSerializerImpl<length::Tlv, encoding::Default, zvt_builder::encoding::Default>>::ser_pre(&v.tlv, Some(zvt_builder::Tag(6u16))) }
        open spec fn canon(v: &ReservationAbort) -> bool { false }
        /// layout table (spec/tables/layout.json): the fields in order, each under its tag / length style / encoding
        open spec fn spec_enc(v: &ReservationAbort) -> Seq<u8> { <u8 as zvt_builder::ZvtSerializerImpl<length::Empty, encoding::Default, zvt_builder::encoding::Default>>::spec_ser_tagged(&v.error, None) + <Option<usize> as zvt_builder::ZvtSerializerImpl<length::Fixed<2>, encoding::Bcd, zvt_builder::encoding::Default>>::spec_ser_tagged(&v.currency, None) + <Option<tlv::ReservationAbort> as zvt_builder::ZvtSerializerImpl<length::Tlv, encoding::Default, zvt_builder::encoding::Default>>::spec_ser_tagged(&v.tlv, Some(zvt_builder::Tag(6u16))) }
        uninterp spec fn spec_dec(b: Seq<u8>) -> Option<(ReservationAbort, int)>;
        open spec fn progresses() -> bool { false }
        open spec fn self_delimiting() -> bool { false }
        open spec fn dec_rel(b: Seq<u8>, v: &ReservationAbort, k: int) -> bool { true }
        open spec fn dec_total(b: Seq<u8>) -> bool { false }
        /// the tag loop stops only at the end of the input, in front of something that is no tag, or in front of a tag that
        /// is not one of this struct's non-repeatable fields
        open spec fn dec_stop(rest: Seq<u8>) -> bool { rest.len() == 0 || (match <zvt_builder::encoding::Default as zvt_builder::encoding::Encoding<zvt_builder::Tag>>::spec_dec(rest) { None => true, Some((t, _)) => t.0 != 6u16 }) }
        /// the tag loop is specified by totality and frame clauses only
        open spec fn functional() -> bool { false }
        //@ fn exp:zvt | impl zvt_builder::encoding::Encoding<ReservationAbort> for zvt_builder::encoding::Default | encode | mod=packets props=C03,~C01
        //@ end
        //@ fn exp:zvt | impl zvt_builder::encoding::Encoding<ReservationAbort> for zvt_builder::encoding::Default | decode | mod=packets all-loops props=C02,C14
        //@ loop 0
                invariant
                    crate::is_tail(bytes@, bytes0), crate::frame::tail_base(bytes0), bytes@.len() <= bytes0.len(),
                    curr_len <= usize::MAX,
        //@ tag tags.bookkeeping C13
                    actual_tags@ =~= seen,
                    required_tags@ =~= Set::<u16>::empty().difference(seen),
        //@ tag tags.stop C13
                    curr_len == bytes@.len() ==> <zvt_builder::encoding::Default as zvt_builder::encoding::Encoding<ReservationAbort>>::dec_stop(bytes@),
                ensures
                    <zvt_builder::encoding::Default as zvt_builder::encoding::Encoding<ReservationAbort>>::dec_stop(bytes@),
        //@ tag tags.loop.decreases C02
                decreases bytes@.len() + (if curr_len != bytes@.len() { 1nat } else { 0nat }),
        //@ entry
            let ghost bytes0 = bytes@;
            let ghost mut seen: Set<u16> = Set::<u16>::empty();
            proof { lemma_slice_len_le_isize_max(bytes); crate::frame::lemma_tail_base(bytes0); }
        //@ before (tlv,bytes)=<
        //@ tag tags.no_second_dispatch.tlv C13
            proof { assert(!seen.contains(6u16)); seen = seen.insert(6u16) ; }
        //@ before returnErr(zvt_builder::ZVTError::DuplicateTag(
        //@ tag tags.duplicate_error_is_true.tlv C13
            proof { assert(seen.contains(6u16)) ; }
        //@ before letmutas_vec
            let ghost req_left = required_tags@;
        //@ before returnErr(zvt_builder::ZVTError::MissingRequiredTags
        //@ tag tags.missing_names_all C13
            proof {
                assert(req_left =~= Set::<u16>::empty().difference(seen));
                assert forall|i: int| 0 <= i < as_vec@.len() implies Set::<u16>::empty().contains((#[trigger] as_vec@[i]).0) && !seen.contains(as_vec@[i].0) by {
                    assert(req_left.contains(as_vec@[i].0));
                }
                assert forall|t: u16| Set::<u16>::empty().contains(t) && !seen.contains(t) implies exists|i: int| 0 <= i < as_vec@.len() && (#[trigger] as_vec@[i]).0 == t by {
                    assert(req_left.contains(t));
                }
            }
        //@ tail
        //@ tag tags.ok_only_if_all_mandatory C13
            proof { assert(Set::<u16>::empty().subset_of(seen)); }
        //@ end
        proof fn law_dec_bounds(b: Seq<u8>) {}
        proof fn law_dec_frame(b: Seq<u8>, s: Seq<u8>) {}
        proof fn law_inverse(v: &ReservationAbort) {}
    }

    //@ item exp:zvt | impl zvt_builder::ZvtCommand for ReservationAbort | mod=packets
    //@ tag layout.control_field.ReservationAbort C03
    /// CLASS/INSTR of the APDU (layout table)
    pub proof fn lemma_ctrl_ReservationAbort()
        ensures <ReservationAbort as zvt_builder::ZvtCommand>::CLASS == 6, <ReservationAbort as zvt_builder::ZvtCommand>::INSTR == 30,
    {}
    //@ untag
    // ------------------------------------------------------------------ packets::PartialReversalAbort
    //@ item src:zvt/src/packets.rs | struct PartialReversalAbort
    impl zvt_builder::encoding::Encoding<PartialReversalAbort> for zvt_builder::encoding::Default {
        open spec fn enc_ok(v: &PartialReversalAbort) -> bool { <u8 as zvt_builder::ZvtSerializerImpl<length::Empty, encoding::Default, zvt_builder::encoding::Default>>::ser_pre(&v.error, None) && <Option<usize> as zvt_builder::ZvtSerializerImpl<length::Fixed<2>, PartialReversalReceiptNo, zvt_builder::encoding::Default>>::ser_pre(&v.receipt_no, Some(zvt_builder::Tag(135u16))) }
        open spec fn canon(v: &PartialReversalAbort) -> bool { false }
        /// layout table (spec/tables/layout.json): the fields in order, each under its tag / length style / encoding
        open spec fn spec_enc(v: &PartialReversalAbort) -> Seq<u8> { <u8 as zvt_builder::ZvtSerializerImpl<length::Empty, encoding::Default, zvt_builder::encoding::Default>>::spec_ser_tagged(&v.error, None) + <Option<usize> as zvt_builder::ZvtSerializerImpl<length::Fixed<2>, PartialReversalReceiptNo, zvt_builder::encoding::Default>>::spec_ser_tagged(&v.receipt_no, Some(zvt_builder::Tag(135u16))) }
        uninterp spec fn spec_dec(b: Seq<u8>) -> Option<(PartialReversalAbort, int)>;
        open spec fn progresses() -> bool { false }
        open spec fn self_delimiting() -> bool { false }
        open spec fn dec_rel(b: Seq<u8>, v: &PartialReversalAbort, k: int) -> bool { true }
        open spec fn dec_total(b: Seq<u8>) -> bool { false }
        /// the tag loop stops only at the end of the input, in front of something that is no tag, or in front of a tag that
        /// is not one of this struct's non-repeatable fields
        open spec fn dec_stop(rest: Seq<u8>) -> bool { rest.len() == 0 || (match <zvt_builder::encoding::Default as zvt_builder::encoding::Encoding<zvt_builder::Tag>>::spec_dec(rest) { None => true, Some((t, _)) => t.0 != 135u16 }) }
        /// the tag loop is specified by totality and frame clauses only
        open spec fn functional() -> bool { false }
        //@ fn exp:zvt | impl zvt_builder::encoding::Encoding<PartialReversalAbort> for zvt_builder::encoding::Default | encode | mod=packets props=C03,~C01
        //@ end
        //@ fn exp:zvt | impl zvt_builder::encoding::Encoding<PartialReversalAbort> for zvt_builder::encoding::Default | decode | mod=packets all-loops props=C02,C14
        //@ loop 0
                invariant
                    crate::is_tail(bytes@, bytes0), crate::frame::tail_base(bytes0), bytes@.len() <= bytes0.len(),
                    curr_len <= usize::MAX,
        //@ tag tags.bookkeeping C13
                    actual_tags@ =~= seen,
                    required_tags@ =~= Set::<u16>::empty().difference(seen),
        //@ tag tags.stop C13
                    curr_len == bytes@.len() ==> <zvt_builder::encoding::Default as zvt_builder::encoding::Encoding<PartialReversalAbort>>::dec_stop(bytes@),
                ensures
                    <zvt_builder::encoding::Default as zvt_builder::encoding::Encoding<PartialReversalAbort>>::dec_stop(bytes@),
        //@ tag tags.loop.decreases C02
                decreases bytes@.len() + (if curr_len != bytes@.len() { 1nat } else { 0nat }),
        //@ entry
            let ghost bytes0 = bytes@;
            let ghost mut seen: Set<u16> = Set::<u16>::empty();
            proof { lemma_slice_len_le_isize_max(bytes); crate::frame::lemma_tail_base(bytes0); }
        //@ before (receipt_no,bytes)=<
        //@ tag tags.no_second_dispatch.receipt_no C13
            proof { assert(!seen.contains(135u16)); seen = seen.insert(135u16) ; }
        //@ before returnErr(zvt_builder::ZVTError::DuplicateTag(
        //@ tag tags.duplicate_error_is_true.receipt_no C13
            proof { assert(seen.contains(135u16)) ; }
        //@ before letmutas_vec
            let ghost req_left = required_tags@;
        //@ before returnErr(zvt_builder::ZVTError::MissingRequiredTags
        //@ tag tags.missing_names_all C13
            proof {
                assert(req_left =~= Set::<u16>::empty().difference(seen));
                assert forall|i: int| 0 <= i < as_vec@.len() implies Set::<u16>::empty().contains((#[trigger] as_vec@[i]).0) && !seen.contains(as_vec@[i].0) by {
                    assert(req_left.contains(as_vec@[i].0));
                }
                assert forall|t: u16| Set::<u16>::empty().contains(t) && !seen.contains(t) implies exists|i: int| 0 <= i < as_vec@.len() && (#[trigger] as_vec@[i]).0 == t by {
                    assert(req_left.contains(t));
                }
            }
        //@ tail
        //@ tag tags.ok_only_if_all_mandatory C13
            proof { assert(Set::<u16>::empty().subset_of(seen)); }
        //@ end
        proof fn law_dec_bounds(b: Seq<u8>) {}
        proof fn law_dec_frame(b: Seq<u8>, s: Seq<u8>) {}
        proof fn law_inverse(v: &PartialReversalAbort) {}
    }

    //@ item exp:zvt | impl zvt_builder::ZvtCommand for PartialReversalAbort | mod=packets
    //@ tag layout.control_field.PartialReversalAbort C03
    /// CLASS/INSTR of the APDU (layout table)
    pub proof fn lemma_ctrl_PartialReversalAbort()
        ensures <PartialReversalAbort as zvt_builder::ZvtCommand>::CLASS == 6, <PartialReversalAbort as zvt_builder::ZvtCommand>::INSTR == 30,
    {}
    //@ untag
    // ------------------------------------------------------------------ packets::Authorization
    //@ item src:zvt/src/packets.rs | struct Authorization
    impl zvt_builder::encoding::Encoding<Authorization> for zvt_builder::encoding::Default {
        open spec fn enc_ok(v: &Authorization) -> bool { <Option<usize> as zvt_builder::ZvtSerializerImpl<length::Fixed<6>, encoding::Bcd, zvt_builder::encoding::Default>>::ser_pre(&v.amount, Some(zvt_builder::Tag(4u16))) && <Option<usize> as zvt_builder::ZvtSerializerImpl<length::Fixed<2>, encoding::Bcd, zvt_builder::encoding::Default>>::ser_pre(&v.currency, Some(zvt_builder::Tag(73u16))) && <Option<u8> as zvt_builder::ZvtSerializerImpl<length::Empty, encoding::Default, zvt_builder::encoding::Default>>::ser_pre(&v.payment_type, Some(zvt_builder::Tag(25u16))) && <Option<usize> as zvt_builder::ZvtSerializerImpl<length::Fixed<2>, encoding::Bcd, zvt_builder::encoding::Default>>::ser_pre(&v.expiry_date, Some(zvt_builder::Tag(14u16))) && <Option<usize> as zvt_builder::ZvtSerializerImpl<length::Llv, encoding::Bcd, zvt_builder::encoding::Default>>::ser_pre(&v.card_number, Some(zvt_builder::Tag(34u16))) && <Option<String> as zvt_builder::ZvtSerializerImpl<length::Llv, encoding::Hex, zvt_builder::encoding::Default>>::ser_pre(&v.track_2_data, Some(zvt_builder::Tag(35u16))) && <Option<u8> as zvt_builder::ZvtSerializerImpl<length::Empty, encoding::Default, zvt_builder::encoding::Default>>::ser_pre(&v.timeout, Some(zvt_builder::Tag(1u16))) && <Option<u8> as zvt_builder::ZvtSerializerImpl<length::Empty, encoding::Default, zvt_builder::encoding::Default>>::ser_pre(&v.maximum_no_of_status_info, Some(zvt_builder::Tag(2u16))) && <Option<u8> as zvt_builder::ZvtSerializerImpl<length::Empty, encoding::Default, zvt_builder::encoding::Default>>::ser_pre(&v.pump_no, Some(zvt_builder::Tag(5u16))) && <Option<String> as zvt_builder::ZvtSerializerImpl<length::Lllv, encoding::Default, zvt_builder::encoding::Default>>::ser_pre(&v.additional_text, Some(zvt_builder::Tag(60u16))) && <Option<u8> as zvt_builder::ZvtSerializerImpl<length::Empty, encoding::Default, zvt_builder::encoding::Default>>::ser_pre(&v.zvt_card_type, Some(zvt_builder::Tag(138u16))) && <Option<tlv::AuthData> as zvt_builder::ZvtSerializerImpl<length::Tlv, encoding::Default, zvt_builder::encoding::Default>>::ser_pre(&v.tlv, Some(zvt_builder::Tag(6u16))) }
        open spec fn canon(v: &Authorization) -> bool { false }
        /// layout table (spec/tables/layout.json): the fields in order, each under its tag / length style / encoding
        open spec fn spec_enc(v: &Authorization) -> Seq<u8> { <Option<usize> as zvt_builder::ZvtSerializerImpl<length::Fixed<6>, encoding::Bcd, zvt_builder::encoding::Default>>::spec_ser_tagged(&v.amount, Some(zvt_builder::Tag(4u16))) + <Option<usize> as zvt_builder::ZvtSerializerImpl<length::Fixed<2>, encoding::Bcd, zvt_builder::encoding::Default>>::spec_ser_tagged(&v.currency, Some(zvt_builder::Tag(73u16))) + <Option<u8> as zvt_builder::ZvtSerializerImpl<length::Empty, encoding::Default, zvt_builder::encoding::Default>>::spec_ser_tagged(&v.payment_type, Some(zvt_builder::Tag(25u16))) + <Option<usize> as zvt_builder::ZvtSerializerImpl<length::Fixed<2>, encoding::Bcd, zvt_builder::encoding::Default>>::spec_ser_tagged(&v.expiry_date, Some(zvt_builder::Tag(14u16))) + <Option<usize> as zvt_builder::ZvtSerializerImpl<length::Llv, encoding::Bcd, zvt_builder::encoding::Default>>::spec_ser_tagged(&v.card_number, Some(zvt_builder::Tag(34u16))) + <Option<String> as zvt_builder::ZvtSerializerImpl<length::Llv, encoding::Hex, zvt_builder::encoding::Default>>::spec_ser_tagged(&v.track_2_data, Some(zvt_builder::Tag(35u16))) + <Option<u8> as zvt_builder::ZvtSerializerImpl<length::Empty, encoding::Default, zvt_builder::encoding::Default>>::spec_ser_tagged(&v.timeout, Some(zvt_builder::Tag(1u16))) + <Option<u8> as zvt_builder::ZvtSerializerImpl<length::Empty, encoding::Default, zvt_builder::encoding::Default>>::spec_ser_tagged(&v.maximum_no_of_status_info, Some(zvt_builder::Tag(2u16))) + <Option<u8> as zvt_builder::ZvtSerializerImpl<length::Empty, encoding::Default, zvt_builder::encoding::Default>>::spec_ser_tagged(&v.pump_no, Some(zvt_builder::Tag(5u16))) + <Option<String> as zvt_builder::ZvtSerializerImpl<length::Lllv, encoding::Default, zvt_builder::encoding::Default>>::spec_ser_tagged(&v.additional_text, Some(zvt_builder::Tag(60u16))) + <Option<u8> as zvt_builder::ZvtSerializerImpl<length::Empty, encoding::Default, zvt_builder::encoding::Default>>::spec_ser_tagged(&v.zvt_card_type, Some(zvt_builder::Tag(138u16))) + <Option<tlv::AuthData> as zvt_builder::ZvtSerializerImpl<length::Tlv, encoding::Default, zvt_builder::encoding::Default>>::spec_ser_tagged(&v.tlv, Some(zvt_builder::Tag(6u16))) }
        uninterp spec fn spec_dec(b: Seq<u8>) -> Option<(Authorization, int)>;
        open spec fn progresses() -> bool { false }
        open spec fn self_delimiting() -> bool { false }
        open spec fn dec_rel(b: Seq<u8>, v: &Authorization, k: int) -> bool { true }
        open spec fn dec_total(b: Seq<u8>) -> bool { false }
        /// the tag loop stops only at the end of the input, in front of something that is no tag, or in front of a tag that
        /// is not one of this struct's non-repeatable fields
        open spec fn dec_stop(rest: Seq<u8>) -> bool { rest.len() == 0 || (match <zvt_builder::encoding::Default as zvt_builder::encoding::Encoding<zvt_builder::Tag>>::spec_dec(rest) { None => true, Some((t, _)) => t.0 != 4u16 && t.0 != 73u16 && t.0 != 25u16 && t.0 != 14u16 && t.0 != 34u16 && t.0 != 35u16 && t.0 != 1u16 && t.0 != 2u16 && t.0 != 5u16 && t.0 != 60u16 && t.0 != 138u16 && t.0 != 6u16 }) }
        /// the tag loop is specified by totality and frame clauses only
        open spec fn functional() -> bool { false }
        //@ fn exp:zvt | impl zvt_builder::encoding::Encoding<Authorization> for zvt_builder::encoding::Default | encode | mod=packets props=C03,~C01
        //@ end
        //@ fn exp:zvt | impl zvt_builder::encoding::Encoding<Authorization> for zvt_builder::encoding::Default | decode | mod=packets all-loops props=C02,C14
        //@ loop 0
                invariant
                    crate::is_tail(bytes@, bytes0), crate::frame::tail_base(bytes0), bytes@.len() <= bytes0.len(),
                    curr_len <= usize::MAX,
        //@ tag tags.bookkeeping C13
                    actual_tags@ =~= seen,
                    required_tags@ =~= Set::<u16>::empty().difference(seen),
        //@ tag tags.stop C13
                    curr_len == bytes@.len() ==> <zvt_builder::encoding::Default as zvt_builder::encoding::Encoding<Authorization>>::dec_stop(bytes@),
                ensures
                    <zvt_builder::encoding::Default as zvt_builder::encoding::Encoding<Authorization>>::dec_stop(bytes@),
        //@ tag tags.loop.decreases C02
                decreases bytes@.len() + (if curr_len != bytes@.len() { 1nat } else { 0nat }),
        //@ entry
            let ghost bytes0 = bytes@;
            let ghost mut seen: Set<u16> = Set::<u16>::empty();
            proof { lemma_slice_len_le_isize_max(bytes); crate::frame::lemma_tail_base(bytes0); }
        //@ before (amount,bytes)=<
        //@ tag tags.no_second_dispatch.amount C13
            proof { assert(!seen.contains(4u16)); seen = seen.insert(4u16) ; }
        //@ before returnErr(zvt_builder::ZVTError::DuplicateTag(
        //@ tag tags.duplicate_error_is_true.amount C13
            proof { assert(seen.contains(4u16)) ; }
        //@ before (currency,bytes)=<
        //@ tag tags.no_second_dispatch.currency C13
            proof { assert(!seen.contains(73u16)); seen = seen.insert(73u16) ; }
        //@ before returnErr(zvt_builder::ZVTError::DuplicateTag(
        //@ tag tags.duplicate_error_is_true.currency C13
            proof { assert(seen.contains(73u16)) ; }
        //@ before (payment_type,bytes)=<
        //@ tag tags.no_second_dispatch.payment_type C13
            proof { assert(!seen.contains(25u16)); seen = seen.insert(25u16) ; }
        //@ before returnErr(zvt_builder::ZVTError::DuplicateTag(
        //@ tag tags.duplicate_error_is_true.payment_type C13
            proof { assert(seen.contains(25u16)) ; }
        //@ before (expiry_date,bytes)=<
        //@ tag tags.no_second_dispatch.expiry_date C13
            proof { assert(!seen.contains(14u16)); seen = seen.insert(14u16) ; }
        //@ before returnErr(zvt_builder::ZVTError::DuplicateTag(
        //@ tag tags.duplicate_error_is_true.expiry_date C13
            proof { assert(seen.contains(14u16)) ; }
        //@ before (card_number,bytes)=<
        //@ tag tags.no_second_dispatch.card_number C13
            proof { assert(!seen.contains(34u16)); seen = seen.insert(34u16) ; }
        //@ before returnErr(zvt_builder::ZVTError::DuplicateTag(
        //@ tag tags.duplicate_error_is_true.card_number C13
            proof { assert(seen.contains(34u16)) ; }
        //@ before (track_2_data,bytes)=<
        //@ tag tags.no_second_dispatch.track_2_data C13
            proof { assert(!seen.contains(35u16)); seen = seen.insert(35u16) ; }
        //@ before returnErr(zvt_builder::ZVTError::DuplicateTag(
        //@ tag tags.duplicate_error_is_true.track_2_data C13
            proof { assert(seen.contains(35u16)) ; }
        //@ before (timeout,bytes)=<
        //@ tag tags.no_second_dispatch.timeout C13
            proof { assert(!seen.contains(1u16)); seen = seen.insert(1u16) ; }
        //@ before returnErr(zvt_builder::ZVTError::DuplicateTag(
        //@ tag tags.duplicate_error_is_true.timeout C13
            proof { assert(seen.contains(1u16)) ; }
        //@ before (maximum_no_of_status_info,bytes)=<
        //@ tag tags.no_second_dispatch.maximum_no_of_status_info C13
            proof { assert(!seen.contains(2u16)); seen = seen.insert(2u16) ; }
        //@ before returnErr(zvt_builder::ZVTError::DuplicateTag(
        //@ tag tags.duplicate_error_is_true.maximum_no_of_status_info C13
            proof { assert(seen.contains(2u16)) ; }
        //@ before (pump_no,bytes)=<
        //@ tag tags.no_second_dispatch.pump_no C13
            proof { assert(!seen.contains(5u16)); seen = seen.insert(5u16) ; }
        //@ before returnErr(zvt_builder::ZVTError::DuplicateTag(
        //@ tag tags.duplicate_error_is_true.pump_no C13
            proof { assert(seen.contains(5u16)) ; }
        //@ before (additional_text,bytes)=<
        //@ tag tags.no_second_dispatch.additional_text C13
            proof { assert(!seen.contains(60u16)); seen = seen.insert(60u16) ; }
        //@ before returnErr(zvt_builder::ZVTError::DuplicateTag(
        //@ tag tags.duplicate_error_is_true.additional_text C13
            proof { assert(seen.contains(60u16)) ; }
        //@ before (zvt_card_type,bytes)=<
        //@ tag tags.no_second_dispatch.zvt_card_type C13
            proof { assert(!seen.contains(138u16)); seen = seen.insert(138u16) ; }
        //@ before returnErr(zvt_builder::ZVTError::DuplicateTag(
        //@ tag tags.duplicate_error_is_true.zvt_card_type C13
            proof { assert(seen.contains(138u16)) ; }
        //@ before (tlv,bytes)=<
        //@ tag tags.no_second_dispatch.tlv C13
            proof { assert(!seen.contains(6u16)); seen = seen.insert(6u16) ; }
        //@ before returnErr(zvt_builder::ZVTError::DuplicateTag(
        //@ tag tags.duplicate_error_is_true.tlv C13
            proof { assert(seen.contains(6u16)) ; }
        //@ before letmutas_vec
            let ghost req_left = required_tags@;
        //@ before returnErr(zvt_builder::ZVTError::MissingRequiredTags
        //@ tag tags.missing_names_all C13
            proof {
                assert(req_left =~= Set::<u16>::empty().difference(seen));
                assert forall|i: int| 0 <= i < as_vec@.len() implies Set::<u16>::empty().contains((#[trigger] as_vec@[i]).0) && !seen.contains(as_vec@[i].0) by {
                    assert(req_left.contains(as_vec@[i].0));
                }
                assert forall|t: u16| Set::<u16>::empty().contains(t) && !seen.contains(t) implies exists|i: int| 0 <= i < as_vec@.len() && (#[trigger] as_vec@[i]).0 == t by {
                    assert(req_left.contains(t));
                }
            }
        //@ tail
        //@ tag tags.ok_only_if_all_mandatory C13
            proof { assert(Set::<u16>::empty().subset_of(seen)); }
        //@ end
        proof fn law_dec_bounds(b: Seq<u8>) {}
        proof fn law_dec_frame(b: Seq<u8>, s: Seq<u8>) {}
        proof fn law_inverse(v: &Authorization) {}
    }

    //@ item exp:zvt | impl zvt_builder::ZvtCommand for Authorization | mod=packets
    //@ tag layout.control_field.Authorization C03
    /// CLASS/INSTR of the APDU (layout table)
    pub proof fn lemma_ctrl_Authorization()
        ensures <Authorization as zvt_builder::ZvtCommand>::CLASS == 6, <Authorization as zvt_builder::ZvtCommand>::INSTR == 1,
    {}
    //@ untag
    // ------------------------------------------------------------------ packets::Reservation
    //@ item src:zvt/src/packets.rs | struct Reservation
    impl zvt_builder::encoding::Encoding<Reservation> for zvt_builder::encoding::Default {
        open spec fn enc_ok(v: &Reservation) -> bool { <Option<usize> as zvt_builder::ZvtSerializerImpl<length::Fixed<6>, encoding::Bcd, zvt_builder::encoding::Default>>::ser_pre(&v.amount, Some(zvt_builder::Tag(4u16))) && <Option<usize> as zvt_builder::ZvtSerializerImpl<length::Fixed<2>, encoding::Bcd, zvt_builder::encoding::Default>>::ser_pre(&v.currency, Some(zvt_builder::Tag(73u16))) && <Option<u8> as zvt_builder::ZvtSerializerImpl<length::Empty, encoding::Default, zvt_builder::encoding::Default>>::ser_pre(&v.payment_type, Some(zvt_builder::Tag(25u16))) && <Option<usize> as zvt_builder::ZvtSerializerImpl<length::Fixed<2>, encoding::Bcd, zvt_builder::encoding::Default>>::ser_pre(&v.expiry_date, Some(zvt_builder::Tag(14u16))) && <Option<usize> as zvt_builder::ZvtSerializerImpl<length::Llv, encoding::Bcd, zvt_builder::encoding::Default>>::ser_pre(&v.card_number, Some(zvt_builder::Tag(34u16))) && <Option<String> as zvt_builder::ZvtSerializerImpl<length::Llv, encoding::Hex, zvt_builder::encoding::Default>>::ser_pre(&v.track_2_data, Some(zvt_builder::Tag(35u16))) && <Option<u8> as zvt_builder::ZvtSerializerImpl<length::Empty, encoding::Default, zvt_builder::encoding::Default>>::ser_pre(&v.timeout, Some(zvt_builder::Tag(1u16))) && <Option<u8> as zvt_builder::ZvtSerializerImpl<length::Empty, encoding::Default, zvt_builder::encoding::Default>>::ser_pre(&v.maximum_no_of_status_info, Some(zvt_builder::Tag(2u16))) && <Option<u8> as zvt_builder::ZvtSerializerImpl<length::Empty, encoding::Default, zvt_builder::encoding::Default>>::ser_pre(&v.pump_no, Some(zvt_builder::Tag(5u16))) && <Option<usize> as zvt_builder::ZvtSerializerImpl<length::Fixed<3>, encoding::Bcd, zvt_builder::encoding::Default>>::ser_pre(&v.trace_number, Some(zvt_builder::Tag(11u16))) && <Option<String> as zvt_builder::ZvtSerializerImpl<length::Fixed<8>, encoding::Default, zvt_builder::encoding::Default>>::ser_pre(&v.aid_authorization_attribute, Some(zvt_builder::Tag(59u16))) && <Option<String> as zvt_builder::ZvtSerializerImpl<length::Lllv, encoding::Default, zvt_builder::encoding::Default>>::ser_pre(&v.additional_text, Some(zvt_builder::Tag(60u16))) && <Option<u8> as zvt_builder::ZvtSerializerImpl<length::Empty, encoding::Default, zvt_builder::encoding::Default>>::ser_pre(&v.zvt_card_type, Some(zvt_builder::Tag(138u16))) && <Option<tlv::PreAuthData> as zvt_builder::ZvtSerializerImpl<length::Tlv, encoding::Default, zvt_builder::encoding::Default>>::ser_pre(&v.tlv, Some(zvt_builder::Tag(6u16))) }
        open spec fn canon(v: &Reservation) -> bool { false }
        /// layout table (spec/tables/layout.json): the fields in order, each under its tag / length style / encoding
        open spec fn spec_enc(v: &Reservation) -> Seq<u8> { <Option<usize> as zvt_builder::ZvtSerializerImpl<length::Fixed<6>, encoding::Bcd, zvt_builder::encoding::Default>>::spec_ser_tagged(&v.amount, Some(zvt_builder::Tag(4u16))) + <Option<usize> as zvt_builder::ZvtSerializerImpl<length::Fixed<2>, encoding::Bcd, zvt_builder::encoding::Default>>::spec_ser_tagged(&v.currency, Some(zvt_builder::Tag(73u16))) + <Option<u8> as zvt_builder::ZvtSerializerImpl<length::Empty, encoding::Default, zvt_builder::encoding::Default>>::spec_ser_tagged(&v.payment_type, Some(zvt_builder::Tag(25u16))) + <Option<usize> as zvt_builder::ZvtSerializerImpl<length::Fixed<2>, encoding::Bcd, zvt_builder::encoding::Default>>::spec_ser_tagged(&v.expiry_date, Some(zvt_builder::Tag(14u16))) + <Option<usize> as zvt_builder::ZvtSerializerImpl<length::Llv, encoding::Bcd, zvt_builder::encoding::Default>>::spec_ser_tagged(&v.card_number, Some(zvt_builder::Tag(34u16))) + <Option<String> as zvt_builder::ZvtSerializerImpl<length::Llv, encoding::Hex, zvt_builder::encoding::Default>>::spec_ser_tagged(&v.track_2_data, Some(zvt_builder::Tag(35u16))) + <Option<u8> as zvt_builder::ZvtSerializerImpl<length::Empty, encoding::Default, zvt_builder::encoding::Default>>::spec_ser_tagged(&v.timeout, Some(zvt_builder::Tag(1u16))) + <Option<u8> as zvt_builder::ZvtSerializerImpl<length::Empty, encoding::Default, zvt_builder::encoding::Default>>::spec_ser_tagged(&v.maximum_no_of_status_info, Some(zvt_builder::Tag(2u16))) + <Option<u8> as zvt_builder::ZvtSerializerImpl<length::Empty, encoding::Default, zvt_builder::encoding::Default>>::spec_ser_tagged(&v.pump_no, Some(zvt_builder::Tag(5u16))) + <Option<usize> as zvt_builder::ZvtSerializerImpl<length::Fixed<3>, encoding::Bcd, zvt_builder::encoding::Default>>::spec_ser_tagged(&v.trace_number, Some(zvt_builder::Tag(11u16))) + <Option<String> as zvt_builder::ZvtSerializerImpl<length::Fixed<8>, encoding::Default, zvt_builder::encoding::Default>>::spec_ser_tagged(&v.aid_authorization_attribute, Some(zvt_builder::Tag(59u16))) + <Option<String> as zvt_builder::ZvtSerializerImpl<length::Lllv, encoding::Default, zvt_builder::encoding::Default>>::spec_ser_tagged(&v.additional_text, Some(zvt_builder::Tag(60u16))) + <Option<u8> as zvt_builder::ZvtSerializerImpl<length::Empty, encoding::Default, zvt_builder::encoding::Default>>::spec_ser_tagged(&v.zvt_card_type, Some(zvt_builder::Tag(138u16))) + <Option<tlv::PreAuthData> as zvt_builder::ZvtSerializerImpl<length::Tlv, encoding::Default, zvt_builder::encoding::Default>>::spec_ser_tagged(&v.tlv, Some(zvt_builder::Tag(6u16))) }
        uninterp spec fn spec_dec(b: Seq<u8>) -> Option<(Reservation, int)>;
        open spec fn progresses() -> bool { false }
        open spec fn self_delimiting() -> bool { false }
        open spec fn dec_rel(b: Seq<u8>, v: &Reservation, k: int) -> bool { true }
        open spec fn dec_total(b: Seq<u8>) -> bool { false }
        /// the tag loop stops only at the end of the input, in front of something that is no tag, or in front of a tag that
        /// is not one of this struct's non-repeatable fields
        open spec fn dec_stop(rest: Seq<u8>) -> bool { rest.len() == 0 || (match <zvt_builder::encoding::Default as zvt_builder::encoding::Encoding<zvt_builder::Tag>>::spec_dec(rest) { None => true, Some((t, _)) => t.0 != 4u16 && t.0 != 73u16 && t.0 != 25u16 && t.0 != 14u16 && t.0 != 34u16 && t.0 != 35u16 && t.0 != 1u16 && t.0 != 2u16 && t.0 != 5u16 && t.0 != 11u16 && t.0 != 59u16 && t.0 != 60u16 && t.0 != 138u16 && t.0 != 6u16 }) }
        /// the tag loop is specified by totality and frame clauses only
        open spec fn functional() -> bool { false }
        //@ fn exp:zvt | impl zvt_builder::encoding::Encoding<Reservation> for zvt_builder::encoding::Default | encode | mod=packets props=C03,~C01
        //@ end
        //@ fn exp:zvt | impl zvt_builder::encoding::Encoding<Reservation> for zvt_builder::encoding::Default | decode | mod=packets all-loops props=C02,C14
        //@ loop 0
                invariant
                    crate::is_tail(bytes@, bytes0), crate::frame::tail_base(bytes0), bytes@.len() <= bytes0.len(),
                    curr_len <= usize::MAX,
        //@ tag tags.bookkeeping C13
                    actual_tags@ =~= seen,
                    required_tags@ =~= Set::<u16>::empty().difference(seen),
        //@ tag tags.stop C13
                    curr_len == bytes@.len() ==> <zvt_builder::encoding::Default as zvt_builder::encoding::Encoding<Reservation>>::dec_stop(bytes@),
                ensures
                    <zvt_builder::encoding::Default as zvt_builder::encoding::Encoding<Reservation>>::dec_stop(bytes@),
        //@ tag tags.loop.decreases C02
                decreases bytes@.len() + (if curr_len != bytes@.len() { 1nat } else { 0nat }),
        //@ entry
            let ghost bytes0 = bytes@;
            let ghost mut seen: Set<u16> = Set::<u16>::empty();
            proof { lemma_slice_len_le_isize_max(bytes); crate::frame::lemma_tail_base(bytes0); }
        //@ before (amount,bytes)=<
        //@ tag tags.no_second_dispatch.amount C13
            proof { assert(!seen.contains(4u16)); seen = seen.insert(4u16) ; }
        //@ before returnErr(zvt_builder::ZVTError::DuplicateTag(
        //@ tag tags.duplicate_error_is_true.amount C13
            proof { assert(seen.contains(4u16)) ; }
        //@ before (currency,bytes)=<
        //@ tag tags.no_second_dispatch.currency C13
            proof { assert(!seen.contains(73u16)); seen = seen.insert(73u16) ; }
        //@ before returnErr(zvt_builder::ZVTError::DuplicateTag(
        //@ tag tags.duplicate_error_is_true.currency C13
            proof { assert(seen.contains(73u16)) ; }
        //@ before (payment_type,bytes)=<
        //@ tag tags.no_second_dispatch.payment_type C13
            proof { assert(!seen.contains(25u16)); seen = seen.insert(25u16) ; }
        //@ before returnErr(zvt_builder::ZVTError::DuplicateTag(
        //@ tag tags.duplicate_error_is_true.payment_type C13
            proof { assert(seen.contains(25u16)) ; }
        //@ before (expiry_date,bytes)=<
        //@ tag tags.no_second_dispatch.expiry_date C13
            proof { assert(!seen.contains(14u16)); seen = seen.insert(14u16) ; }
        //@ before returnErr(zvt_builder::ZVTError::DuplicateTag(
        //@ tag tags.duplicate_error_is_true.expiry_date C13
            proof { assert(seen.contains(14u16)) ; }
        //@ before (card_number,bytes)=<
        //@ tag tags.no_second_dispatch.card_number C13
            proof { assert(!seen.contains(34u16)); seen = seen.insert(34u16) ; }
        //@ before returnErr(zvt_builder::ZVTError::DuplicateTag(
        //@ tag tags.duplicate_error_is_true.card_number C13
            proof { assert(seen.contains(34u16)) ; }
        //@ before (track_2_data,bytes)=<
        //@ tag tags.no_second_dispatch.track_2_data C13
            proof { assert(!seen.contains(35u16)); seen = seen.insert(35u16) ; }
        //@ before returnErr(zvt_builder::ZVTError::DuplicateTag(
        //@ tag tags.duplicate_error_is_true.track_2_data C13
            proof { assert(seen.contains(35u16)) ; }
        //@ before (timeout,bytes)=<
        //@ tag tags.no_second_dispatch.timeout C13
            proof { assert(!seen.contains(1u16)); seen = seen.insert(1u16) ; }
        //@ before returnErr(zvt_builder::ZVTError::DuplicateTag(
        //@ tag tags.duplicate_error_is_true.timeout C13
            proof { assert(seen.contains(1u16)) ; }
        //@ before (maximum_no_of_status_info,bytes)=<
        //@ tag tags.no_second_dispatch.maximum_no_of_status_info C13
            proof { assert(!seen.contains(2u16)); seen = seen.insert(2u16) ; }
        //@ before returnErr(zvt_builder::ZVTError::DuplicateTag(
        //@ tag tags.duplicate_error_is_true.maximum_no_of_status_info C13
            proof { assert(seen.contains(2u16)) ; }
        //@ before (pump_no,bytes)=<
        //@ tag tags.no_second_dispatch.pump_no C13
            proof { assert(!seen.contains(5u16)); seen = seen.insert(5u16) ; }
        //@ before returnErr(zvt_builder::ZVTError::DuplicateTag(
        //@ tag tags.duplicate_error_is_true.pump_no C13
            proof { assert(seen.contains(5u16)) ; }
        //@ before (trace_number,bytes)=<
        //@ tag tags.no_second_dispatch.trace_number C13
            proof { assert(!seen.contains(11u16)); seen = seen.insert(11u16) ; }
        //@ before returnErr(zvt_builder::ZVTError::DuplicateTag(
        //@ tag tags.duplicate_error_is_true.trace_number C13
            proof { assert(seen.contains(11u16)) ; }
        //@ before (aid_authorization_attribute,bytes)=<
        //@ tag tags.no_second_dispatch.aid_authorization_attribute C13
            proof { assert(!seen.contains(59u16)); seen = seen.insert(59u16) ; }
        //@ before returnErr(zvt_builder::ZVTError::DuplicateTag(
        //@ tag tags.duplicate_error_is_true.aid_authorization_attribute C13
            proof { assert(seen.contains(59u16)) ; }
        //@ before (additional_text,bytes)=<
        //@ tag tags.no_second_dispatch.additional_text C13
            proof { assert(!seen.contains(60u16)); seen = seen.insert(60u16) ; }
        //@ before returnErr(zvt_builder::ZVTError::DuplicateTag(
        //@ tag tags.duplicate_error_is_true.additional_text C13
            proof { assert(seen.contains(60u16)) ; }
        //@ before (zvt_card_type,bytes)=<
        //@ tag tags.no_second_dispatch.zvt_card_type C13
            proof { assert(!seen.contains(138u16)); seen = seen.insert(138u16) ; }
        //@ before returnErr(zvt_builder::ZVTError::DuplicateTag(
        //@ tag tags.duplicate_error_is_true.zvt_card_type C13
            proof { assert(seen.contains(138u16)) ; }
        //@ before (tlv,bytes)=<
        //@ tag tags.no_second_dispatch.tlv C13
            proof { assert(!seen.contains(6u16)); seen = seen.insert(6u16) ; }
        //@ before returnErr(zvt_builder::ZVTError::DuplicateTag(
        //@ tag tags.duplicate_error_is_true.tlv C13
            proof { assert(seen.contains(6u16)) ; }
        //@ before letmutas_vec
            let ghost req_left = required_tags@;
        //@ before returnErr(zvt_builder::ZVTError::MissingRequiredTags
        //@ tag tags.missing_names_all C13
            proof {
                assert(req_left =~= Set::<u16>::empty().difference(seen));
                assert forall|i: int| 0 <= i < as_vec@.len() implies Set::<u16>::empty().contains((#[trigger] as_vec@[i]).0) && !seen.contains(as_vec@[i].0) by {
                    assert(req_left.contains(as_vec@[i].0));
                }
                assert forall|t: u16| Set::<u16>::empty().contains(t) && !seen.contains(t) implies exists|i: int| 0 <= i < as_vec@.len() && (#[trigger] as_vec@[i]).0 == t by {
                    assert(req_left.contains(t));
                }
            }
        //@ tail
        //@ tag tags.ok_only_if_all_mandatory C13
            proof { assert(Set::<u16>::empty().subset_of(seen)); }
        //@ end
        proof fn law_dec_bounds(b: Seq<u8>) {}
        proof fn law_dec_frame(b: Seq<u8>, s: Seq<u8>) {}
        proof fn law_inverse(v: &Reservation) {}
    }

    //@ item exp:zvt | impl zvt_builder::ZvtCommand for Reservation | mod=packets
    //@ tag layout.control_field.Reservation C03
    /// CLASS/INSTR of the APDU (layout table)
    pub proof fn lemma_ctrl_Reservation()
        ensures <Reservation as zvt_builder::ZvtCommand>::CLASS == 6, <Reservation as zvt_builder::ZvtCommand>::INSTR == 34,
    {}
    //@ untag
    // ------------------------------------------------------------------ packets::PartialReversal
    //@ item src:zvt/src/packets.rs | struct PartialReversal
    impl zvt_builder::encoding::Encoding<PartialReversal> for zvt_builder::encoding::Default {
        open spec fn enc_ok(v: &PartialReversal) -> bool { <Option<usize> as zvt_builder::ZvtSerializerImpl<length::Fixed<2>, PartialReversalReceiptNo, zvt_builder::encoding::Default>>::ser_pre(&v.receipt_no, Some(zvt_builder::Tag(135u16))) && <Option<usize> as zvt_builder::ZvtSerializerImpl<length::Fixed<6>, encoding::Bcd, zvt_builder::encoding::Default>>::ser_pre(&v.amount, Some(zvt_builder::Tag(4u16))) && <Option<u8> as zvt_builder::ZvtSerializerImpl<length::Empty, encoding::Default, zvt_builder::encoding::Default>>::ser_pre(&v.payment_type, Some(zvt_builder::Tag(25u16))) && <Option<usize> as zvt_builder::ZvtSerializerImpl<length::Fixed<2>, encoding::Bcd, zvt_builder::encoding::Default>>::ser_pre(&v.currency, Some(zvt_builder::Tag(73u16))) && <Option<tlv::PreAuthData> as zvt_builder::ZvtSerializerImpl<length::Tlv, encoding::Default, zvt_builder::encoding::Default>>::ser_pre(&v.tlv, Some(zvt_builder::Tag(6u16))) }
        open spec fn canon(v: &PartialReversal) -> bool { false }
        /// layout table (spec/tables/layout.json): the fields in order, each under its tag / length style / encoding
        open spec fn spec_enc(v: &PartialReversal) -> Seq<u8> { <Option<usize> as zvt_builder::ZvtSerializerImpl<length::Fixed<2>, PartialReversalReceiptNo, zvt_builder::encoding::Default>>::spec_ser_tagged(&v.receipt_no, Some(zvt_builder::Tag(135u16))) + <Option<usize> as zvt_builder::ZvtSerializerImpl<length::Fixed<6>, encoding::Bcd, zvt_builder::encoding::Default>>::spec_ser_tagged(&v.amount, Some(zvt_builder::Tag(4u16))) + <Option<u8> as zvt_builder::ZvtSerializerImpl<length::Empty, encoding::Default, zvt_builder::encoding::Default>>::spec_ser_tagged(&v.payment_type, Some(zvt_builder::Tag(25u16))) + <Option<usize> as zvt_builder::ZvtSerializerImpl<length::Fixed<2>, encoding::Bcd, zvt_builder::encoding::Default>>::spec_ser_tagged(&v.currency, Some(zvt_builder::Tag(73u16))) + <Option<tlv::PreAuthData> as zvt_builder::ZvtSerializerImpl<length::Tlv, encoding::Default, zvt_builder::encoding::Default>>::spec_ser_tagged(&v.tlv, Some(zvt_builder::Tag(6u16))) }
        uninterp spec fn spec_dec(b: Seq<u8>) -> Option<(PartialReversal, int)>;
        open spec fn progresses() -> bool { false }
        open spec fn self_delimiting() -> bool { false }
        open spec fn dec_rel(b: Seq<u8>, v: &PartialReversal, k: int) -> bool { true }
        open spec fn dec_total(b: Seq<u8>) -> bool { false }
        /// the tag loop stops only at the end of the input, in front of something that is no tag, or in front of a tag that
        /// is not one of this struct's non-repeatable fields
        open spec fn dec_stop(rest: Seq<u8>) -> bool { rest.len() == 0 || (match <zvt_builder::encoding::Default as zvt_builder::encoding::Encoding<zvt_builder::Tag>>::spec_dec(rest) { None => true, Some((t, _)) => t.0 != 135u16 && t.0 != 4u16 && t.0 != 25u16 && t.0 != 73u16 && t.0 != 6u16 }) }
        /// the tag loop is specified by totality and frame clauses only
        open spec fn functional() -> bool { false }
        //@ fn exp:zvt | impl zvt_builder::encoding::Encoding<PartialReversal> for zvt_builder::encoding::Default | encode | mod=packets props=C03,~C01
        //@ end
        //@ fn exp:zvt | impl zvt_builder::encoding::Encoding<PartialReversal> for zvt_builder::encoding::Default | decode | mod=packets all-loops props=C02,C14
        //@ loop 0
                invariant
                    crate::is_tail(bytes@, bytes0), crate::frame::tail_base(bytes0), bytes@.len() <= bytes0.len(),
                    curr_len <= usize::MAX,
        //@ tag tags.bookkeeping C13
                    actual_tags@ =~= seen,
                    required_tags@ =~= Set::<u16>::empty().difference(seen),
        //@ tag tags.stop C13
                    curr_len == bytes@.len() ==> <zvt_builder::encoding::Default as zvt_builder::encoding::Encoding<PartialReversal>>::dec_stop(bytes@),
                ensures
                    <zvt_builder::encoding::Default as zvt_builder::encoding::Encoding<PartialReversal>>::dec_stop(bytes@),
        //@ tag tags.loop.decreases C02
                decreases bytes@.len() + (if curr_len != bytes@.len() { 1nat } else { 0nat }),
        //@ entry
            let ghost bytes0 = bytes@;
            let ghost mut seen: Set<u16> = Set::<u16>::empty();
            proof { lemma_slice_len_le_isize_max(bytes); crate::frame::lemma_tail_base(bytes0); }
        //@ before (receipt_no,bytes)=<
        //@ tag tags.no_second_dispatch.receipt_no C13
            proof { assert(!seen.contains(135u16)); seen = seen.insert(135u16) ; }
        //@ before returnErr(zvt_builder::ZVTError::DuplicateTag(
        //@ tag tags.duplicate_error_is_true.receipt_no C13
            proof { assert(seen.contains(135u16)) ; }
        //@ before (amount,bytes)=<
        //@ tag tags.no_second_dispatch.amount C13
            proof { assert(!seen.contains(4u16)); seen = seen.insert(4u16) ; }
        //@ before returnErr(zvt_builder::ZVTError::DuplicateTag(
        //@ tag tags.duplicate_error_is_true.amount C13
            proof { assert(seen.contains(4u16)) ; }
        //@ before (payment_type,bytes)=<
        //@ tag tags.no_second_dispatch.payment_type C13
            proof { assert(!seen.contains(25u16)); seen = seen.insert(25u16) ; }
        //@ before returnErr(zvt_builder::ZVTError::DuplicateTag(
        //@ tag tags.duplicate_error_is_true.payment_type C13
            proof { assert(seen.contains(25u16)) ; }
        //@ before (currency,bytes)=<
        //@ tag tags.no_second_dispatch.currency C13
            proof { assert(!seen.contains(73u16)); seen = seen.insert(73u16) ; }
        //@ before returnErr(zvt_builder::ZVTError::DuplicateTag(
        //@ tag tags.duplicate_error_is_true.currency C13
            proof { assert(seen.contains(73u16)) ; }
        //@ before (tlv,bytes)=<
        //@ tag tags.no_second_dispatch.tlv C13
            proof { assert(!seen.contains(6u16)); seen = seen.insert(6u16) ; }
        //@ before returnErr(zvt_builder::ZVTError::DuplicateTag(
        //@ tag tags.duplicate_error_is_true.tlv C13
            proof { assert(seen.contains(6u16)) ; }
        //@ before letmutas_vec
            let ghost req_left = required_tags@;
        //@ before returnErr(zvt_builder::ZVTError::MissingRequiredTags
        //@ tag tags.missing_names_all C13
            proof {
                assert(req_left =~= Set::<u16>::empty().difference(seen));
                assert forall|i: int| 0 <= i < as_vec@.len() implies Set::<u16>::empty().contains((#[trigger] as_vec@[i]).0) && !seen.contains(as_vec@[i].0) by {
                    assert(req_left.contains(as_vec@[i].0));
                }
                assert forall|t: u16| Set::<u16>::empty().contains(t) && !seen.contains(t) implies exists|i: int| 0 <= i < as_vec@.len() && (#[trigger] as_vec@[i]).0 == t by {
                    assert(req_left.contains(t));
                }
            }
        //@ tail
        //@ tag tags.ok_only_if_all_mandatory C13
            proof { assert(Set::<u16>::empty().subset_of(seen)); }
        //@ end
        proof fn law_dec_bounds(b: Seq<u8>) {}
        proof fn law_dec_frame(b: Seq<u8>, s: Seq<u8>) {}
        proof fn law_inverse(v: &PartialReversal) {}
    }

    //@ item exp:zvt | impl zvt_builder::ZvtCommand for PartialReversal | mod=packets
    //@ tag layout.control_field.PartialReversal C03
    /// CLASS/INSTR of the APDU (layout table)
    pub proof fn lemma_ctrl_PartialReversal()
        ensures <PartialReversal as zvt_builder::ZvtCommand>::CLASS == 6, <PartialReversal as zvt_builder::ZvtCommand>::INSTR == 35,
    {}
    //@ untag
    // ------------------------------------------------------------------ packets::PreAuthReversal
    //@ item src:zvt/src/packets.rs | struct PreAuthReversal
    impl zvt_builder::encoding::Encoding<PreAuthReversal> for zvt_builder::encoding::Default {
        open spec fn enc_ok(v: &PreAuthReversal) -> bool { <Option<u8> as zvt_builder::ZvtSerializerImpl<length::Empty, encoding::Default, zvt_builder::encoding::Default>>::ser_pre(&v.payment_type, Some(zvt_builder::Tag(25u16))) && <Option<usize> as zvt_builder::ZvtSerializerImpl<length::Fixed<2>, encoding::Bcd, zvt_builder::encoding::Default>>::ser_pre(&v.currency, Some(zvt_builder::Tag(73u16))) && <Option<usize> as zvt_builder::ZvtSerializerImpl<length::Fixed<2>, encoding::Bcd, zvt_builder::encoding::Default>>::ser_pre(&v.receipt_no, Some(zvt_builder::Tag(135u16))) }
        open spec fn canon(v: &PreAuthReversal) -> bool { false }
        /// layout table (spec/tables/layout.json): the fields in order, each under its tag / length style / encoding
        open spec fn spec_enc(v: &PreAuthReversal) -> Seq<u8> { <Option<u8> as zvt_builder::ZvtSerializerImpl<length::Empty, encoding::Default, zvt_builder::encoding::Default>>::spec_ser_tagged(&v.payment_type, Some(zvt_builder::Tag(25u16))) + <Option<usize> as zvt_builder::ZvtSerializerImpl<length::Fixed<2>, encoding::Bcd, zvt_builder::encoding::Default>>::spec_ser_tagged(&v.currency, Some(zvt_builder::Tag(73u16))) + <Option<usize> as zvt_builder::ZvtSerializerImpl<length::Fixed<2>, encoding::Bcd, zvt_builder::encoding::Default>>::spec_ser_tagged(&v.receipt_no, Some(zvt_builder::Tag(135u16))) }
        uninterp spec fn spec_dec(b: Seq<u8>) -> Option<(PreAuthReversal, int)>;
        open spec fn progresses() -> bool { false }
        open spec fn self_delimiting() -> bool { false }
        open spec fn dec_rel(b: Seq<u8>, v: &PreAuthReversal, k: int) -> bool { true }
        open spec fn dec_total(b: Seq<u8>) -> bool { false }
        /// the tag loop stops only at the end of the input, in front of something that is no tag, or in front of a tag that
        /// is not one of this struct's non-repeatable fields
        open spec fn dec_stop(rest: Seq<u8>) -> bool { rest.len() == 0 || (match <zvt_builder::encoding::Default as zvt_builder::encoding::Encoding<zvt_builder::Tag>>::spec_dec(rest) { None => true, Some((t, _)) => t.0 != 25u16 && t.0 != 73u16 && t.0 != 135u16 }) }
        /// the tag loop is specified by totality and frame clauses only
        open spec fn functional() -> bool { false }
        //@ fn exp:zvt | impl zvt_builder::encoding::Encoding<PreAuthReversal> for zvt_builder::encoding::Default | encode | mod=packets props=C03,~C01
        //@ end
        //@ fn exp:zvt | impl zvt_builder::encoding::Encoding<PreAuthReversal> for zvt_builder::encoding::Default | decode | mod=packets all-loops props=C02,C14
        //@ loop 0
                invariant
                    crate::is_tail(bytes@, bytes0), crate::frame::tail_base(bytes0), bytes@.len() <= bytes0.len(),
                    curr_len <= usize::MAX,
        //@ tag tags.bookkeeping C13
                    actual_tags@ =~= seen,
                    required_tags@ =~= Set::<u16>::empty().difference(seen),
        //@ tag tags.stop C13
                    curr_len == bytes@.len() ==> <zvt_builder::encoding::Default as zvt_builder::encoding::Encoding<PreAuthReversal>>::dec_stop(bytes@),
                ensures
                    <zvt_builder::encoding::Default as zvt_builder::encoding::Encoding<PreAuthReversal>>::dec_stop(bytes@),
        //@ tag tags.loop.decreases C02
                decreases bytes@.len() + (if curr_len != bytes@.len() { 1nat } else { 0nat }),
        //@ entry
            let ghost bytes0 = bytes@;
            let ghost mut seen: Set<u16> = Set::<u16>::empty();
            proof { lemma_slice_len_le_isize_max(bytes); crate::frame::lemma_tail_base(bytes0); }
        //@ before (payment_type,bytes)=<
        //@ tag tags.no_second_dispatch.payment_type C13
            proof { assert(!seen.contains(25u16)); seen = seen.insert(25u16) ; }
        //@ before returnErr(zvt_builder::ZVTError::DuplicateTag(
        //@ tag tags.duplicate_error_is_true.payment_type C13
            proof { assert(seen.contains(25u16)) ; }
        //@ before (currency,bytes)=<
        //@ tag tags.no_second_dispatch.currency C13
            proof { assert(!seen.contains(73u16)); seen = seen.insert(73u16) ; }
        //@ before returnErr(zvt_builder::ZVTError::DuplicateTag(
        //@ tag tags.duplicate_error_is_true.currency C13
            proof { assert(seen.contains(73u16)) ; }
        //@ before (receipt_no,bytes)=<
        //@ tag tags.no_second_dispatch.receipt_no C13
            proof { assert(!seen.contains(135u16)); seen = seen.insert(135u16) ; }
        //@ before returnErr(zvt_builder::ZVTError::DuplicateTag(
        //@ tag tags.duplicate_error_is_true.receipt_no C13
            proof { assert(seen.contains(135u16)) ; }
        //@ before letmutas_vec
            let ghost req_left = required_tags@;
        //@ before returnErr(zvt_builder::ZVTError::MissingRequiredTags
        //@ tag tags.missing_names_all C13
            proof {
                assert(req_left =~= Set::<u16>::empty().difference(seen));
                assert forall|i: int| 0 <= i < as_vec@.len() implies Set::<u16>::empty().contains((#[trigger] as_vec@[i]).0) && !seen.contains(as_vec@[i].0) by {
                    assert(req_left.contains(as_vec@[i].0));
                }
                assert forall|t: u16| Set::<u16>::empty().contains(t) && !seen.contains(t) implies exists|i: int| 0 <= i < as_vec@.len() && (#[trigger] as_vec@[i]).0 == t by {
                    assert(req_left.contains(t));
                }
            }
        //@ tail
        //@ tag tags.ok_only_if_all_mandatory C13
            proof { assert(Set::<u16>::empty().subset_of(seen)); }
        //@ end
        proof fn law_dec_bounds(b: Seq<u8>) {}
        proof fn law_dec_frame(b: Seq<u8>, s: Seq<u8>) {}
        proof fn law_inverse(v: &PreAuthReversal) {}
    }

    //@ item exp:zvt | impl zvt_builder::ZvtCommand for PreAuthReversal | mod=packets
    //@ tag layout.control_field.PreAuthReversal C03
    /// CLASS/INSTR of the APDU (layout table)
    pub proof fn lemma_ctrl_PreAuthReversal()
        ensures <PreAuthReversal as zvt_builder::ZvtCommand>::CLASS == 6, <PreAuthReversal as zvt_builder::ZvtCommand>::INSTR == 37,
    {}
    //@ untag
    // ------------------------------------------------------------------ packets::EndOfDay
    //@ item src:zvt/src/packets.rs | struct EndOfDay
    impl zvt_builder::encoding::Encoding<EndOfDay> for zvt_builder::encoding::Default {
        open spec fn enc_ok(v: &EndOfDay) -> bool { <usize as zvt_builder::ZvtSerializerImpl<length::Fixed<3>, encoding::Bcd, zvt_builder::encoding::Default>>::ser_pre(&v.password, None) }
        open spec fn canon(v: &EndOfDay) -> bool { false }
        /// layout table (spec/tables/layout.json): the fields in order, each under its tag / length style / encoding
        open spec fn spec_enc(v: &EndOfDay) -> Seq<u8> { <usize as zvt_builder::ZvtSerializerImpl<length::Fixed<3>, encoding::Bcd, zvt_builder::encoding::Default>>::spec_ser_tagged(&v.password, None) }
        uninterp spec fn spec_dec(b: Seq<u8>) -> Option<(EndOfDay, int)>;
        open spec fn progresses() -> bool { false }
        open spec fn self_delimiting() -> bool { false }
        open spec fn dec_rel(b: Seq<u8>, v: &EndOfDay, k: int) -> bool { true }
        open spec fn dec_total(b: Seq<u8>) -> bool { false }
        /// the tag loop stops only at the end of the input, in front of something that is no tag, or in front of a tag that
        /// is not one of this struct's non-repeatable fields
        open spec fn dec_stop(rest: Seq<u8>) -> bool { rest.len() == 0 || (match <zvt_builder::encoding::Default as zvt_builder::encoding::Encoding<zvt_builder::Tag>>::spec_dec(rest) { None => true, Some((t, _)) => true }) }
        /// the tag loop is specified by totality and frame clauses only
        open spec fn functional() -> bool { false }
        //@ fn exp:zvt | impl zvt_builder::encoding::Encoding<EndOfDay> for zvt_builder::encoding::Default | encode | mod=packets props=C03,~C01
        //@ end
        //@ fn exp:zvt | impl zvt_builder::encoding::Encoding<EndOfDay> for zvt_builder::encoding::Default | decode | mod=packets all-loops props=C02,C14
        //@ loop 0
                invariant
                    crate::is_tail(bytes@, bytes0), crate::frame::tail_base(bytes0), bytes@.len() <= bytes0.len(),
                    curr_len <= usize::MAX,
        //@ tag tags.bookkeeping C13
                    actual_tags@ =~= seen,
                    required_tags@ =~= Set::<u16>::empty().difference(seen),
        //@ tag tags.stop C13
                    curr_len == bytes@.len() ==> <zvt_builder::encoding::Default as zvt_builder::encoding::Encoding<EndOfDay>>::dec_stop(bytes@),
                ensures
                    <zvt_builder::encoding::Default as zvt_builder::encoding::Encoding<EndOfDay>>::dec_stop(bytes@),
        //@ tag tags.loop.decreases C02
                decreases bytes@.len() + (if curr_len != bytes@.len() { 1nat } else { 0nat }),
        //@ entry
            let ghost bytes0 = bytes@;
            let ghost mut seen: Set<u16> = Set::<u16>::empty();
            proof { lemma_slice_len_le_isize_max(bytes); crate::frame::lemma_tail_base(bytes0); }
        //@ before letmutas_vec
            let ghost req_left = required_tags@;
        //@ before returnErr(zvt_builder::ZVTError::MissingRequiredTags
        //@ tag tags.missing_names_all C13
            proof {
                assert(req_left =~= Set::<u16>::empty().difference(seen));
                assert forall|i: int| 0 <= i < as_vec@.len() implies Set::<u16>::empty().contains((#[trigger] as_vec@[i]).0) && !seen.contains(as_vec@[i].0) by {
                    assert(req_left.contains(as_vec@[i].0));
                }
                assert forall|t: u16| Set::<u16>::empty().contains(t) && !seen.contains(t) implies exists|i: int| 0 <= i < as_vec@.len() && (#[trigger] as_vec@[i]).0 == t by {
                    assert(req_left.contains(t));
                }
            }
        //@ tail
        //@ tag tags.ok_only_if_all_mandatory C13
            proof { assert(Set::<u16>::empty().subset_of(seen)); }
        //@ end
        proof fn law_dec_bounds(b: Seq<u8>) {}
        proof fn law_dec_frame(b: Seq<u8>, s: Seq<u8>) {}
        proof fn law_inverse(v: &EndOfDay) {}
    }

    //@ item exp:zvt | impl zvt_builder::ZvtCommand for EndOfDay | mod=packets
    //@ tag layout.control_field.EndOfDay C03
    /// CLASS/INSTR of the APDU (layout table)
    pub proof fn lemma_ctrl_EndOfDay()
        ensures <EndOfDay as zvt_builder::ZvtCommand>::CLASS == 6, <EndOfDay as zvt_builder::ZvtCommand>::INSTR == 80,
    {}
    //@ untag
    // ------------------------------------------------------------------ packets::Diagnosis
    //@ item src:zvt/src/packets.rs | struct Diagnosis
    impl zvt_builder::encoding::Encoding<Diagnosis> for zvt_builder::encoding::Default {
        open spec fn enc_ok(v: &Diagnosis) -> bool { <Option<tlv::Diagnosis> as zvt_builder::ZvtSerializerImpl<length::Tlv, encoding::Default, zvt_builder::encoding::Default>>::ser_pre(&v.tlv, Some(zvt_builder::Tag(6u16))) }
        open spec fn canon(v: &Diagnosis) -> bool { false }
        /// layout table (spec/tables/layout.json): the fields in order, each under its tag / length style / encoding
        open spec fn spec_enc(v: &Diagnosis) -> Seq<u8> { <Option<tlv::Diagnosis> as zvt_builder::ZvtSerializerImpl<length::Tlv, encoding::Default, zvt_builder::encoding::Default>>::spec_ser_tagged(&v.tlv, Some(zvt_builder::Tag(6u16))) }
        uninterp spec fn spec_dec(b: Seq<u8>) -> Option<(Diagnosis, int)>;
        open spec fn progresses() -> bool { false }
        open spec fn self_delimiting() -> bool { false }
        open spec fn dec_rel(b: Seq<u8>, v: &Diagnosis, k: int) -> bool { true }
        open spec fn dec_total(b: Seq<u8>) -> bool { false }
        /// the tag loop stops only at the end of the input, in front of something that is no tag, or in front of a tag that
        /// is not one of this struct's non-repeatable fields
        open spec fn dec_stop(rest: Seq<u8>) -> bool { rest.len() == 0 || (match <zvt_builder::encoding::Default as zvt_builder::encoding::Encoding<zvt_builder::Tag>>::spec_dec(rest) { None => true, Some((t, _)) => t.0 != 6u16 }) }
        /// the tag loop is specified by totality and frame clauses only
        open spec fn functional() -> bool { false }
        //@ fn exp:zvt | impl zvt_builder::encoding::Encoding<Diagnosis> for zvt_builder::encoding::Default | encode | mod=packets props=C03,~C01
        //@ end
        //@ fn exp:zvt | impl zvt_builder::encoding::Encoding<Diagnosis> for zvt_builder::encoding::Default | decode | mod=packets all-loops props=C02,C14
        //@ loop 0
                invariant
                    crate::is_tail(bytes@, bytes0), crate::frame::tail_base(bytes0), bytes@.len() <= bytes0.len(),
                    curr_len <= usize::MAX,
        //@ tag tags.bookkeeping C13
                    actual_tags@ =~= seen,
                    required_tags@ =~= Set::<u16>::empty().difference(seen),
        //@ tag tags.stop C13
                    curr_len == bytes@.len() ==> <zvt_builder::encoding::Default as zvt_builder::encoding::Encoding<Diagnosis>>::dec_stop(bytes@),
                ensures
                    <zvt_builder::encoding::Default as zvt_builder::encoding::Encoding<Diagnosis>>::dec_stop(bytes@),
        //@ tag tags.loop.decreases C02
                decreases bytes@.len() + (if curr_len != bytes@.len() { 1nat } else { 0nat }),
        //@ entry
            let ghost bytes0 = bytes@;
            let ghost mut seen: Set<u16> = Set::<u16>::empty();
            proof { lemma_slice_len_le_isize_max(bytes); crate::frame::lemma_tail_base(bytes0); }
        //@ before (tlv,bytes)=<
        //@ tag tags.no_second_dispatch.tlv C13
            proof { assert(!seen.contains(6u16)); seen = seen.insert(6u16) ; }
        //@ before returnErr(zvt_builder::ZVTError::DuplicateTag(
        //@ tag tags.duplicate_error_is_true.tlv C13
            proof { assert(seen.contains(6u16)) ; }
        //@ before letmutas_vec
            let ghost req_left = required_tags@;
        //@ before returnErr(zvt_builder::ZVTError::MissingRequiredTags
        //@ tag tags.missing_names_all C13
            proof {
                assert(req_left =~= Set::<u16>::empty().difference(seen));
                assert forall|i: int| 0 <= i < as_vec@.len() implies Set::<u16>::empty().contains((#[trigger] as_vec@[i]).0) && !seen.contains(as_vec@[i].0) by {
                    assert(req_left.contains(as_vec@[i].0));
                }
                assert forall|t: u16| Set::<u16>::empty().contains(t) && !seen.contains(t) implies exists|i: int| 0 <= i < as_vec@.len() && (#[trigger] as_vec@[i]).0 == t by {
                    assert(req_left.contains(t));
                }
            }
        //@ tail
        //@ tag tags.ok_only_if_all_mandatory C13
            proof { assert(Set::<u16>::empty().subset_of(seen)); }
        //@ end
        proof fn law_dec_bounds(b: Seq<u8>) {}
        proof fn law_dec_frame(b: Seq<u8>, s: Seq<u8>) {}
        proof fn law_inverse(v: &Diagnosis) {}
    }

    //@ item exp:zvt | impl zvt_builder::ZvtCommand for Diagnosis | mod=packets
    //@ tag layout.control_field.Diagnosis C03
    /// CLASS/INSTR of the APDU (layout table)
    pub proof fn lemma_ctrl_Diagnosis()
        ensures <Diagnosis as zvt_builder::ZvtCommand>::CLASS == 6, <Diagnosis as zvt_builder::ZvtCommand>::INSTR == 112,
    {}
    //@ untag
    // ------------------------------------------------------------------ packets::Initialization
    //@ item src:zvt/src/packets.rs | struct Initialization
    impl zvt_builder::encoding::Encoding<Initialization> for zvt_builder::encoding::Default {
        open spec fn enc_ok(v: &Initialization) -> bool { <usize as zvt_builder::ZvtSerializerImpl<length::Fixed<3>, encoding::Bcd, zvt_builder::encoding::Default>>::ser_pre(&v.password, None) }
        open spec fn canon(v: &Initialization) -> bool { false }
        /// layout table (spec/tables/layout.json): the fields in order, each under its tag / length style / encoding
        open spec fn spec_enc(v: &Initialization) -> Seq<u8> { <usize as zvt_builder::ZvtSerializerImpl<length::Fixed<3>, encoding::Bcd, zvt_builder::encoding::Default>>::spec_ser_tagged(&v.password, None) }
        uninterp spec fn spec_dec(b: Seq<u8>) -> Option<(Initialization, int)>;
        open spec fn progresses() -> bool { false }
        open spec fn self_delimiting() -> bool { false }
        open spec fn dec_rel(b: Seq<u8>, v: &Initialization, k: int) -> bool { true }
        open spec fn dec_total(b: Seq<u8>) -> bool { false }
        /// the tag loop stops only at the end of the input, in front of something that is no tag, or in front of a tag that
        /// is not one of this struct's non-repeatable fields
        open spec fn dec_stop(rest: Seq<u8>) -> bool { rest.len() == 0 || (match <zvt_builder::encoding::Default as zvt_builder::encoding::Encoding<zvt_builder::Tag>>::spec_dec(rest) { None => true, Some((t, _)) => true }) }
        /// the tag loop is specified by totality and frame clauses only
        open spec fn functional() -> bool { false }
        //@ fn exp:zvt | impl zvt_builder::encoding::Encoding<Initialization> for zvt_builder::encoding::Default | encode | mod=packets props=C03,~C01
        //@ end
        //@ fn exp:zvt | impl zvt_builder::encoding::Encoding<Initialization> for zvt_builder::encoding::Default | decode | mod=packets all-loops props=C02,C14
        //@ loop 0
                invariant
                    crate::is_tail(bytes@, bytes0), crate::frame::tail_base(bytes0), bytes@.len() <= bytes0.len(),
                    curr_len <= usize::MAX,
        //@ tag tags.bookkeeping C13
                    actual_tags@ =~= seen,
                    required_tags@ =~= Set::<u16>::empty().difference(seen),
        //@ tag tags.stop C13
                    curr_len == bytes@.len() ==> <zvt_builder::encoding::Default as zvt_builder::encoding::Encoding<Initialization>>::dec_stop(bytes@),
                ensures
                    <zvt_builder::encoding::Default as zvt_builder::encoding::Encoding<Initialization>>::dec_stop(bytes@),
        //@ tag tags.loop.decreases C02
                decreases bytes@.len() + (if curr_len != bytes@.len() { 1nat } else { 0nat }),
        //@ entry
            let ghost bytes0 = bytes@;
            let ghost mut seen: Set<u16> = Set::<u16>::empty();
            proof { lemma_slice_len_le_isize_max(bytes); crate::frame::lemma_tail_base(bytes0); }
        //@ before letmutas_vec
            let ghost req_left = required_tags@;
        //@ before returnErr(zvt_builder::ZVTError::MissingRequiredTags
        //@ tag tags.missing_names_all C13
            proof {
                assert(req_left =~= Set::<u16>::empty().difference(seen));
                assert forall|i: int| 0 <= i < as_vec@.len() implies Set::<u16>::empty().contains((#[trigger] as_vec@[i]).0) && !seen.contains(as_vec@[i].0) by {
                    assert(req_left.contains(as_vec@[i].0));
                }
                assert forall|t: u16| Set::<u16>::empty().contains(t) && !seen.contains(t) implies exists|i: int| 0 <= i < as_vec@.len() && (#[trigger] as_vec@[i]).0 == t by {
                    assert(req_left.contains(t));
                }
            }
        //@ tail
        //@ tag tags.ok_only_if_all_mandatory C13
            proof { assert(Set::<u16>::empty().subset_of(seen)); }
        //@ end
        proof fn law_dec_bounds(b: Seq<u8>) {}
        proof fn law_dec_frame(b: Seq<u8>, s: Seq<u8>) {}
        proof fn law_inverse(v: &Initialization) {}
    }

    //@ item exp:zvt | impl zvt_builder::ZvtCommand for Initialization | mod=packets
    //@ tag layout.control_field.Initialization C03
    /// CLASS/INSTR of the APDU (layout table)
    pub proof fn lemma_ctrl_Initialization()
        ensures <Initialization as zvt_builder::ZvtCommand>::CLASS == 6, <Initialization as zvt_builder::ZvtCommand>::INSTR == 147,
    {}
    //@ untag
    // ------------------------------------------------------------------ packets::ReadCard
    //@ item src:zvt/src/packets.rs | struct ReadCard
    impl zvt_builder::encoding::Encoding<ReadCard> for zvt_builder::encoding::Default {
        open spec fn enc_ok(v: &ReadCard) -> bool { <u8 as zvt_builder::ZvtSerializerImpl<length::Empty, encoding::Default, zvt_builder::encoding::Default>>::ser_pre(&v.timeout_sec, None) && <Option<u8> as zvt_builder::ZvtSerializerImpl<length::Empty, encoding::Default, zvt_builder::encoding::Default>>::ser_pre(&v.card_type, Some(zvt_builder::Tag(25u16))) && <Option<u8> as zvt_builder::ZvtSerializerImpl<length::Empty, encoding::Default, zvt_builder::encoding::Default>>::ser_pre(&v.dialog_control, Some(zvt_builder::Tag(252u16))) && <Option<tlv::ReadCard> as zvt_builder::ZvtSerializerImpl<length::Tlv, encoding::Default, zvt_builder::encoding::Default>>::ser_pre(&v.tlv, Some(zvt_builder::Tag(6u16))) }
        open spec fn canon(v: &ReadCard) -> bool { false }
        /// layout table (spec/tables/layout.json): the fields in order, each under its tag / length style / encoding
        open spec fn spec_enc(v: &ReadCard) -> Seq<u8> { <u8 as zvt_builder::ZvtSerializerImpl<length::Empty, encoding::Default, zvt_builder::encoding::Default>>::spec_ser_tagged(&v.timeout_sec, None) + <Option<u8> as zvt_builder::ZvtSerializerImpl<length::Empty, encoding::Default, zvt_builder::encoding::Default>>::spec_ser_tagged(&v.card_type, Some(zvt_builder::Tag(25u16))) + <Option<u8> as zvt_builder::ZvtSerializerImpl<length::Empty, encoding::Default, zvt_builder::encoding::Default>>::spec_ser_tagged(&v.dialog_control, Some(zvt_builder::Tag(252u16))) + <Option<tlv::ReadCard> as zvt_builder::ZvtSerializerImpl<length::Tlv, encoding::Default, zvt_builder::encoding::Default>>::spec_ser_tagged(&v.tlv, Some(zvt_builder::Tag(6u16))) }
        uninterp spec fn spec_dec(b: Seq<u8>) -> Option<(ReadCard, int)>;
        open spec fn progresses() -> bool { false }
        open spec fn self_delimiting() -> bool { false }
        open spec fn dec_rel(b: Seq<u8>, v: &ReadCard, k: int) -> bool { true }
        open spec fn dec_total(b: Seq<u8>) -> bool { false }
        /// the tag loop stops only at the end of the input, in front of something that is no tag, or in front of a tag that
        /// is not one of this struct's non-repeatable fields
        open spec fn dec_stop(rest: Seq<u8>) -> bool { rest.len() == 0 || (match <zvt_builder::encoding::Default as zvt_builder::encoding::Encoding<zvt_builder::Tag>>::spec_dec(rest) { None => true, Some((t, _)) => t.0 != 25u16 && t.0 != 252u16 && t.0 != 6u16 }) }
        /// the tag loop is specified by totality and frame clauses only
        open spec fn functional() -> bool { false }
        //@ fn exp:zvt | impl zvt_builder::encoding::Encoding<ReadCard> for zvt_builder::encoding::Default | encode | mod=packets props=C03,~C01
        //@ end
        //@ fn exp:zvt | impl zvt_builder::encoding::Encoding<ReadCard> for zvt_builder::encoding::Default | decode | mod=packets all-loops props=C02,C14
        //@ loop 0
                invariant
                    crate::is_tail(bytes@, bytes0), crate::frame::tail_base(bytes0), bytes@.len() <= bytes0.len(),
                    curr_len <= usize::MAX,
        //@ tag tags.bookkeeping C13
                    actual_tags@ =~= seen,
                    required_tags@ =~= Set::<u16>::empty().difference(seen),
        //@ tag tags.stop C13
                    curr_len == bytes@.len() ==> <zvt_builder::encoding::Default as zvt_builder::encoding::Encoding<ReadCard>>::dec_stop(bytes@),
                ensures
                    <zvt_builder::encoding::Default as zvt_builder::encoding::Encoding<ReadCard>>::dec_stop(bytes@),
        //@ tag tags.loop.decreases C02
                decreases bytes@.len() + (if curr_len != bytes@.len() { 1nat } else { 0nat }),
        //@ entry
            let ghost bytes0 = bytes@;
            let ghost mut seen: Set<u16> = Set::<u16>::empty();
            proof { lemma_slice_len_le_isize_max(bytes); crate::frame::lemma_tail_base(bytes0); }
        //@ before (card_type,bytes)=<
        //@ tag tags.no_second_dispatch.card_type C13
            proof { assert(!seen.contains(25u16)); seen = seen.insert(25u16) ; }
        //@ before returnErr(zvt_builder::ZVTError::DuplicateTag(
        //@ tag tags.duplicate_error_is_true.card_type C13
            proof { assert(seen.contains(25u16)) ; }
        //@ before (dialog_control,bytes)=<
        //@ tag tags.no_second_dispatch.dialog_control C13
            proof { assert(!seen.contains(252u16)); seen = seen.insert(252u16) ; }
        //@ before returnErr(zvt_builder::ZVTError::DuplicateTag(
        //@ tag tags.duplicate_error_is_true.dialog_control C13
            proof { assert(seen.contains(252u16)) ; }
        //@ before (tlv,bytes)=<
        //@ tag tags.no_second_dispatch.tlv C13
            proof { assert(!seen.contains(6u16)); seen = seen.insert(6u16) ; }
        //@ before returnErr(zvt_builder::ZVTError::DuplicateTag(
        //@ tag tags.duplicate_error_is_true.tlv C13
            proof { assert(seen.contains(6u16)) ; }
        //@ before letmutas_vec
            let ghost req_left = required_tags@;
        //@ before returnErr(zvt_builder::ZVTError::MissingRequiredTags
        //@ tag tags.missing_names_all C13
            proof {
                assert(req_left =~= Set::<u16>::empty().difference(seen));
                assert forall|i: int| 0 <= i < as_vec@.len() implies Set::<u16>::empty().contains((#[trigger] as_vec@[i]).0) && !seen.contains(as_vec@[i].0) by {
                    assert(req_left.contains(as_vec@[i].0));
                }
                assert forall|t: u16| Set::<u16>::empty().contains(t) && !seen.contains(t) implies exists|i: int| 0 <= i < as_vec@.len() && (#[trigger] as_vec@[i]).0 == t by {
                    assert(req_left.contains(t));
                }
            }
        //@ tail
        //@ tag tags.ok_only_if_all_mandatory C13
            proof { assert(Set::<u16>::empty().subset_of(seen)); }
        //@ end
        proof fn law_dec_bounds(b: Seq<u8>) {}
        proof fn law_dec_frame(b: Seq<u8>, s: Seq<u8>) {}
        proof fn law_inverse(v: &ReadCard) {}
    }

    //@ item exp:zvt | impl zvt_builder::ZvtCommand for ReadCard | mod=packets
    //@ tag layout.control_field.ReadCard C03
    /// CLASS/INSTR of the APDU (layout table)
    pub proof fn lemma_ctrl_ReadCard()
        ensures <ReadCard as zvt_builder::ZvtCommand>::CLASS == 6, <ReadCard as zvt_builder::ZvtCommand>::INSTR == 192,
    {}
    //@ untag
    // ------------------------------------------------------------------ packets::PrintLine
    //@ item src:zvt/src/packets.rs | struct PrintLine
    impl zvt_builder::encoding::Encoding<PrintLine> for zvt_builder::encoding::Default {
        open spec fn enc_ok(v: &PrintLine) -> bool { <u8 as zvt_builder::ZvtSerializerImpl<length::Empty, encoding::Default, zvt_builder::encoding::Default>>::ser_pre(&v.attribute, None) && <String as zvt_builder::ZvtSerializerImpl<length::Empty, encoding::Default, zvt_builder::encoding::Default>>::ser_pre(&v.text, None) }
        open spec fn canon(v: &PrintLine) -> bool { false }
        /// layout table (spec/tables/layout.json): the fields in order, each under its tag / length style / encoding
        open spec fn spec_enc(v: &PrintLine) -> Seq<u8> { <u8 as zvt_builder::ZvtSerializerImpl<length::Empty, encoding::Default, zvt_builder::encoding::Default>>::spec_ser_tagged(&v.attribute, None) + <String as zvt_builder::ZvtSerializerImpl<length::Empty, encoding::Default, zvt_builder::encoding::Default>>::spec_ser_tagged(&v.text, None) }
        uninterp spec fn spec_dec(b: Seq<u8>) -> Option<(PrintLine, int)>;
        open spec fn progresses() -> bool { false }
        open spec fn self_delimiting() -> bool { false }
        open spec fn dec_rel(b: Seq<u8>, v: &PrintLine, k: int) -> bool { true }
        open spec fn dec_total(b: Seq<u8>) -> bool { false }
        /// the tag loop stops only at the end of the input, in front of something that is no tag, or in front of a tag that
        /// is not one of this struct's non-repeatable fields
        open spec fn dec_stop(rest: Seq<u8>) -> bool { rest.len() == 0 || (match <zvt_builder::encoding::Default as zvt_builder::encoding::Encoding<zvt_builder::Tag>>::spec_dec(rest) { None => true, Some((t, _)) => true }) }
        /// the tag loop is specified by totality and frame clauses only
        open spec fn functional() -> bool { false }
        //@ fn exp:zvt | impl zvt_builder::encoding::Encoding<PrintLine> for zvt_builder::encoding::Default | encode | mod=packets props=C03,~C01
        //@ end
        //@ fn exp:zvt | impl zvt_builder::encoding::Encoding<PrintLine> for zvt_builder::encoding::Default | decode | mod=packets all-loops props=C02,C14
        //@ loop 0
                invariant
                    crate::is_tail(bytes@, bytes0), crate::frame::tail_base(bytes0), bytes@.len() <= bytes0.len(),
                    curr_len <= usize::MAX,
        //@ tag tags.bookkeeping C13
                    actual_tags@ =~= seen,
                    required_tags@ =~= Set::<u16>::empty().difference(seen),
        //@ tag tags.stop C13
                    curr_len == bytes@.len() ==> <zvt_builder::encoding::Default as zvt_builder::encoding::Encoding<PrintLine>>::dec_stop(bytes@),
                ensures
                    <zvt_builder::encoding::Default as zvt_builder::encoding::Encoding<PrintLine>>::dec_stop(bytes@),
        //@ tag tags.loop.decreases C02
                decreases bytes@.len() + (if curr_len != bytes@.len() { 1nat } else { 0nat }),
        //@ entry
            let ghost bytes0 = bytes@;
            let ghost mut seen: Set<u16> = Set::<u16>::empty();
            proof { lemma_slice_len_le_isize_max(bytes); crate::frame::lemma_tail_base(bytes0); }
        //@ before letmutas_vec
            let ghost req_left = required_tags@;
        //@ before returnErr(zvt_builder::ZVTError::MissingRequiredTags
        //@ tag tags.missing_names_all C13
            proof {
                assert(req_left =~= Set::<u16>::empty().difference(seen));
                assert forall|i: int| 0 <= i < as_vec@.len() implies Set::<u16>::empty().contains((#[trigger] as_vec@[i]).0) && !seen.contains(as_vec@[i].0) by {
                    assert(req_left.contains(as_vec@[i].0));
                }
                assert forall|t: u16| Set::<u16>::empty().contains(t) && !seen.contains(t) implies exists|i: int| 0 <= i < as_vec@.len() && (#[trigger] as_vec@[i]).0 == t by {
                    assert(req_left.contains(t));
                }
            }
        //@ tail
        //@ tag tags.ok_only_if_all_mandatory C13
            proof { assert(Set::<u16>::empty().subset_of(seen)); }
        //@ end
        proof fn law_dec_bounds(b: Seq<u8>) {}
        proof fn law_dec_frame(b: Seq<u8>, s: Seq<u8>) {}
        proof fn law_inverse(v: &PrintLine) {}
    }

    //@ item exp:zvt | impl zvt_builder::ZvtCommand for PrintLine | mod=packets
    //@ tag layout.control_field.PrintLine C03
    /// CLASS/INSTR of the APDU (layout table)
    pub proof fn lemma_ctrl_PrintLine()
        ensures <PrintLine as zvt_builder::ZvtCommand>::CLASS == 6, <PrintLine as zvt_builder::ZvtCommand>::INSTR == 209,
    {}
    //@ untag
    // ------------------------------------------------------------------ packets::PrintTextBlock
    //@ item src:zvt/src/packets.rs | struct PrintTextBlock
    impl zvt_builder::encoding::Encoding<PrintTextBlock> for zvt_builder::encoding::Default {
        open spec fn enc_ok(v: &PrintTextBlock) -> bool { <Option<tlv::PrintTextBlock> as zvt_builder::ZvtSerializerImpl<length::Tlv, encoding::Default, zvt_builder::encoding::Default>>::ser_pre(&v.tlv, Some(zvt_builder::Tag(6u16))) }
        open spec fn canon(v: &PrintTextBlock) -> bool { false }
        /// layout table (spec/tables/layout.json): the fields in order, each under its tag / length style / encoding
        open spec fn spec_enc(v: &PrintTextBlock) -> Seq<u8> { <Option<tlv::PrintTextBlock> as zvt_builder::ZvtSerializerImpl<length::Tlv, encoding::Default, zvt_builder::encoding::Default>>::spec_ser_tagged(&v.tlv, Some(zvt_builder::Tag(6u16))) }
        uninterp spec fn spec_dec(b: Seq<u8>) -> Option<(PrintTextBlock, int)>;
        open spec fn progresses() -> bool { false }
        open spec fn self_delimiting() -> bool { false }
        open spec fn dec_rel(b: Seq<u8>, v: &PrintTextBlock, k: int) -> bool { true }
        open spec fn dec_total(b: Seq<u8>) -> bool { false }
        /// the tag loop stops only at the end of the input, in front of something that is no tag, or in front of a tag that
        /// is not one of this struct's non-repeatable fields
        open spec fn dec_stop(rest: Seq<u8>) -> bool { rest.len() == 0 || (match <zvt_builder::encoding::Default as zvt_builder::encoding::Encoding<zvt_builder::Tag>>::spec_dec(rest) { None => true, Some((t, _)) => t.0 != 6u16 }) }
        /// the tag loop is specified by totality and frame clauses only
        open spec fn functional() -> bool { false }
        //@ fn exp:zvt | impl zvt_builder::encoding::Encoding<PrintTextBlock> for zvt_builder::encoding::Default | encode | mod=packets props=C03,~C01
        //@ end
        //@ fn exp:zvt | impl zvt_builder::encoding::Encoding<PrintTextBlock> for zvt_builder::encoding::Default | decode | mod=packets all-loops props=C02,C14
        //@ loop 0
                invariant
                    crate::is_tail(bytes@, bytes0), crate::frame::tail_base(bytes0), bytes@.len() <= bytes0.len(),
                    curr_len <= usize::MAX,
        //@ tag tags.bookkeeping C13
                    actual_tags@ =~= seen,
                    required_tags@ =~= Set::<u16>::empty().difference(seen),
        //@ tag tags.stop C13
                    curr_len == bytes@.len() ==> <zvt_builder::encoding::Default as zvt_builder::encoding::Encoding<PrintTextBlock>>::dec_stop(bytes@),
                ensures
                    <zvt_builder::encoding::Default as zvt_builder::encoding::Encoding<PrintTextBlock>>::dec_stop(bytes@),
        //@ tag tags.loop.decreases C02
                decreases bytes@.len() + (if curr_len != bytes@.len() { 1nat } else { 0nat }),
        //@ entry
            let ghost bytes0 = bytes@;
            let ghost mut seen: Set<u16> = Set::<u16>::empty();
            proof { lemma_slice_len_le_isize_max(bytes); crate::frame::lemma_tail_base(bytes0); }
        //@ before (tlv,bytes)=<
        //@ tag tags.no_second_dispatch.tlv C13
            proof { assert(!seen.contains(6u16)); seen = seen.insert(6u16) ; }
        //@ before returnErr(zvt_builder::ZVTError::DuplicateTag(
        //@ tag tags.duplicate_error_is_true.tlv C13
            proof { assert(seen.contains(6u16)) ; }
        //@ before letmutas_vec
            let ghost req_left = required_tags@;
        //@ before returnErr(zvt_builder::ZVTError::MissingRequiredTags
        //@ tag tags.missing_names_all C13
            proof {
                assert(req_left =~= Set::<u16>::empty().difference(seen));
                assert forall|i: int| 0 <= i < as_vec@.len() implies Set::<u16>::empty().contains((#[trigger] as_vec@[i]).0) && !seen.contains(as_vec@[i].0) by {
                    assert(req_left.contains(as_vec@[i].0));
                }
                assert forall|t: u16| Set::<u16>::empty().contains(t) && !seen.contains(t) implies exists|i: int| 0 <= i < as_vec@.len() && (#[trigger] as_vec@[i]).0 == t by {
                    assert(req_left.contains(t));
                }
            }
        //@ tail
        //@ tag tags.ok_only_if_all_mandatory C13
            proof { assert(Set::<u16>::empty().subset_of(seen)); }
        //@ end
        proof fn law_dec_bounds(b: Seq<u8>) {}
        proof fn law_dec_frame(b: Seq<u8>, s: Seq<u8>) {}
        proof fn law_inverse(v: &PrintTextBlock) {}
    }

    //@ item exp:zvt | impl zvt_builder::ZvtCommand for PrintTextBlock | mod=packets
    //@ tag layout.control_field.PrintTextBlock C03
    /// CLASS/INSTR of the APDU (layout table)
    pub proof fn lemma_ctrl_PrintTextBlock()
        ensures <PrintTextBlock as zvt_builder::ZvtCommand>::CLASS == 6, <PrintTextBlock as zvt_builder::ZvtCommand>::INSTR == 211,
    {}
    //@ untag
    // ------------------------------------------------------------------ packets::SelectLanguage
    //@ item src:zvt/src/packets.rs | struct SelectLanguage
    impl zvt_builder::encoding::Encoding<SelectLanguage> for zvt_builder::encoding::Default {
        open spec fn enc_ok(v: &SelectLanguage) -> bool { <u8 as zvt_builder::ZvtSerializerImpl<length::Empty, encoding::Default, zvt_builder::encoding::Default>>::ser_pre(&v.language, None) }
        open spec fn canon(v: &SelectLanguage) -> bool { false }
        /// layout table (spec/tables/layout.json): the fields in order, each under its tag / length style / encoding
        open spec fn spec_enc(v: &SelectLanguage) -> Seq<u8> { <u8 as zvt_builder::ZvtSerializerImpl<length::Empty, encoding::Default, zvt_builder::encoding::Default>>::spec_ser_tagged(&v.language, None) }
        uninterp spec fn spec_dec(b: Seq<u8>) -> Option<(SelectLanguage, int)>;
        open spec fn progresses() -> bool { false }
        open spec fn self_delimiting() -> bool { false }
        open spec fn dec_rel(b: Seq<u8>, v: &SelectLanguage, k: int) -> bool { true }
        open spec fn dec_total(b: Seq<u8>) -> bool { false }
        /// the tag loop stops only at the end of the input, in front of something that is no tag, or in front of a tag that
        /// is not one of this struct's non-repeatable fields
        open spec fn dec_stop(rest: Seq<u8>) -> bool { rest.len() == 0 || (match <zvt_builder::encoding::Default as zvt_builder::encoding::Encoding<zvt_builder::Tag>>::spec_dec(rest) { None => true, Some((t, _)) => true }) }
        /// the tag loop is specified by totality and frame clauses only
        open spec fn functional() -> bool { false }
        //@ fn exp:zvt | impl zvt_builder::encoding::Encoding<SelectLanguage> for zvt_builder::encoding::Default | encode | mod=packets props=C03,~C01
        //@ end
        //@ fn exp:zvt | impl zvt_builder::encoding::Encoding<SelectLanguage> for zvt_builder::encoding::Default | decode | mod=packets all-loops props=C02,C14
        //@ loop 0
                invariant
                    crate::is_tail(bytes@, bytes0), crate::frame::tail_base(bytes0), bytes@.len() <= bytes0.len(),
                    curr_len <= usize::MAX,
        //@ tag tags.bookkeeping C13
                    actual_tags@ =~= seen,
                    required_tags@ =~= Set::<u16>::empty().difference(seen),
        //@ tag tags.stop C13
                    curr_len == bytes@.len() ==> <zvt_builder::encoding::Default as zvt_builder::encoding::Encoding<SelectLanguage>>::dec_stop(bytes@),
                ensures
                    <zvt_builder::encoding::Default as zvt_builder::encoding::Encoding<SelectLanguage>>::dec_stop(bytes@),
        //@ tag tags.loop.decreases C02
                decreases bytes@.len() + (if curr_len != bytes@.len() { 1nat } else { 0nat }),
        //@ entry
            let ghost bytes0 = bytes@;
            let ghost mut seen: Set<u16> = Set::<u16>::empty();
            proof { lemma_slice_len_le_isize_max(bytes); crate::frame::lemma_tail_base(bytes0); }
        //@ before letmutas_vec
            let ghost req_left = required_tags@;
        //@ before returnErr(zvt_builder::ZVTError::MissingRequiredTags
        //@ tag tags.missing_names_all C13
            proof {
                assert(req_left =~= Set::<u16>::empty().difference(seen));
                assert forall|i: int| 0 <= i < as_vec@.len() implies Set::<u16>::empty().contains((#[trigger] as_vec@[i]).0) && !seen.contains(as_vec@[i].0) by {
                    assert(req_left.contains(as_vec@[i].0));
                }
                assert forall|t: u16| Set::<u16>::empty().contains(t) && !seen.contains(t) implies exists|i: int| 0 <= i < as_vec@.len() && (#[trigger] as_vec@[i]).0 == t by {
                    assert(req_left.contains(t));
                }
            }
        //@ tail
        //@ tag tags.ok_only_if_all_mandatory C13
            proof { assert(Set::<u16>::empty().subset_of(seen)); }
        //@ end
        proof fn law_dec_bounds(b: Seq<u8>) {}
        proof fn law_dec_frame(b: Seq<u8>, s: Seq<u8>) {}
        proof fn law_inverse(v: &SelectLanguage) {}
    }

    //@ item exp:zvt | impl zvt_builder::ZvtCommand for SelectLanguage | mod=packets
    //@ tag layout.control_field.SelectLanguage C03
    /// CLASS/INSTR of the APDU (layout table)
    pub proof fn lemma_ctrl_SelectLanguage()
        ensures <SelectLanguage as zvt_builder::ZvtCommand>::CLASS == 8, <SelectLanguage as zvt_builder::ZvtCommand>::INSTR == 48,
    {}
    //@ untag
    // ------------------------------------------------------------------ packets::Ack
    //@ item src:zvt/src/packets.rs | struct Ack
    impl zvt_builder::encoding::Encoding<Ack> for zvt_builder::encoding::Default {
        open spec fn enc_ok(v: &Ack) -> bool { true }
        open spec fn canon(v: &Ack) -> bool { false }
        /// layout table (spec/tables/layout.json): the fields in order, each under its tag / length style / encoding
        open spec fn spec_enc(v: &Ack) -> Seq<u8> { Seq::<u8>::empty() }
        uninterp spec fn spec_dec(b: Seq<u8>) -> Option<(Ack, int)>;
        open spec fn progresses() -> bool { false }
        open spec fn self_delimiting() -> bool { false }
        open spec fn dec_rel(b: Seq<u8>, v: &Ack, k: int) -> bool { true }
        open spec fn dec_total(b: Seq<u8>) -> bool { false }
        /// the tag loop stops only at the end of the input, in front of something that is no tag, or in front of a tag that
        /// is not one of this struct's non-repeatable fields
        open spec fn dec_stop(rest: Seq<u8>) -> bool { rest.len() == 0 || (match <zvt_builder::encoding::Default as zvt_builder::encoding::Encoding<zvt_builder::Tag>>::spec_dec(rest) { None => true, Some((t, _)) => true }) }
        /// the tag loop is specified by totality and frame clauses only
        open spec fn functional() -> bool { false }
        //@ fn exp:zvt | impl zvt_builder::encoding::Encoding<Ack> for zvt_builder::encoding::Default | encode | mod=packets props=C03,~C01
        //@ end
        //@ fn exp:zvt | impl zvt_builder::encoding::Encoding<Ack> for zvt_builder::encoding::Default | decode | mod=packets all-loops props=C02,C14
        //@ loop 0
                invariant
                    crate::is_tail(bytes@, bytes0), crate::frame::tail_base(bytes0), bytes@.len() <= bytes0.len(),
                    curr_len <= usize::MAX,
        //@ tag tags.bookkeeping C13
                    actual_tags@ =~= seen,
                    required_tags@ =~= Set::<u16>::empty().difference(seen),
        //@ tag tags.stop C13
                    curr_len == bytes@.len() ==> <zvt_builder::encoding::Default as zvt_builder::encoding::Encoding<Ack>>::dec_stop(bytes@),
                ensures
                    <zvt_builder::encoding::Default as zvt_builder::encoding::Encoding<Ack>>::dec_stop(bytes@),
        //@ tag tags.loop.decreases C02
                decreases bytes@.len() + (if curr_len != bytes@.len() { 1nat } else { 0nat }),
        //@ entry
            let ghost bytes0 = bytes@;
            let ghost mut seen: Set<u16> = Set::<u16>::empty();
            proof { lemma_slice_len_le_isize_max(bytes); crate::frame::lemma_tail_base(bytes0); }
        //@ before letmutas_vec
            let ghost req_left = required_tags@;
        //@ before returnErr(zvt_builder::ZVTError::MissingRequiredTags
        //@ tag tags.missing_names_all C13
            proof {
                assert(req_left =~= Set::<u16>::empty().difference(seen));
                assert forall|i: int| 0 <= i < as_vec@.len() implies Set::<u16>::empty().contains((#[trigger] as_vec@[i]).0) && !seen.contains(as_vec@[i].0) by {
                    assert(req_left.contains(as_vec@[i].0));
                }
                assert forall|t: u16| Set::<u16>::empty().contains(t) && !seen.contains(t) implies exists|i: int| 0 <= i < as_vec@.len() && (#[trigger] as_vec@[i]).0 == t by {
                    assert(req_left.contains(t));
                }
            }
        //@ tail
        //@ tag tags.ok_only_if_all_mandatory C13
            proof { assert(Set::<u16>::empty().subset_of(seen)); }
        //@ end
        proof fn law_dec_bounds(b: Seq<u8>) {}
        proof fn law_dec_frame(b: Seq<u8>, s: Seq<u8>) {}
        proof fn law_inverse(v: &Ack) {}
    }

    //@ item exp:zvt | impl zvt_builder::ZvtCommand for Ack | mod=packets
    //@ tag layout.control_field.Ack C03
    /// CLASS/INSTR of the APDU (layout table)
    pub proof fn lemma_ctrl_Ack()
        ensures <Ack as zvt_builder::ZvtCommand>::CLASS == 128, <Ack as zvt_builder::ZvtCommand>::INSTR == 0,
    {}
    //@ untag
