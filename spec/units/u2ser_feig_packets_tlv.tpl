    impl<L: zvt_builder::length::Length, TE: zvt_builder::encoding::Encoding<zvt_builder::Tag>> zvt_builder::ZvtSerializerImpl<L, zvt_builder::encoding::Default, TE> for crate::feig::packets::tlv::File {
        open spec fn ser_pre(&self, tag: Option<zvt_builder::Tag>) -> bool { zvt_builder::default_ser_pre::<Self, L, zvt_builder::encoding::Default, TE>(self, tag) }
        open spec fn spec_ser_tagged(&self, tag: Option<zvt_builder::Tag>) -> Seq<u8> { zvt_builder::default_spec_ser::<Self, L, zvt_builder::encoding::Default, TE>(self, tag) }
        open spec fn deser_pre(tag: Option<zvt_builder::Tag>) -> bool { L::wf() }
        open spec fn functional() -> bool { false }
        open spec fn deser_progresses(tag: Option<zvt_builder::Tag>) -> bool { tag is Some && TE::progresses() }
        open spec fn deser_defined(b: Seq<u8>, tag: Option<zvt_builder::Tag>) -> bool { true }
        open spec fn deser_ok(b: Seq<u8>, tag: Option<zvt_builder::Tag>, v: Self, k: int) -> bool { true }
        //@ fn src:zvt_builder/src/lib.rs | trait ZvtSerializerImpl | serialize_tagged | subst=E:zvt_builder~encoding~Default props=C03
        //@ end
        //@ fn src:zvt_builder/src/lib.rs | trait ZvtSerializerImpl | deserialize_tagged | subst=E:zvt_builder~encoding~Default props=C02,C14
        //@ end
    }
    impl<L: zvt_builder::length::Length, TE: zvt_builder::encoding::Encoding<zvt_builder::Tag>> zvt_builder::ZvtSerializerImpl<L, zvt_builder::encoding::Default, TE> for crate::feig::packets::tlv::WriteData {
        open spec fn ser_pre(&self, tag: Option<zvt_builder::Tag>) -> bool { zvt_builder::default_ser_pre::<Self, L, zvt_builder::encoding::Default, TE>(self, tag) }
        open spec fn spec_ser_tagged(&self, tag: Option<zvt_builder::Tag>) -> Seq<u8> { zvt_builder::default_spec_ser::<Self, L, zvt_builder::encoding::Default, TE>(self, tag) }
        open spec fn deser_pre(tag: Option<zvt_builder::Tag>) -> bool { L::wf() }
        open spec fn functional() -> bool { false }
        open spec fn deser_progresses(tag: Option<zvt_builder::Tag>) -> bool { tag is Some && TE::progresses() }
        open spec fn deser_defined(b: Seq<u8>, tag: Option<zvt_builder::Tag>) -> bool { true }
        open spec fn deser_ok(b: Seq<u8>, tag: Option<zvt_builder::Tag>, v: Self, k: int) -> bool { true }
        //@ fn src:zvt_builder/src/lib.rs | trait ZvtSerializerImpl | serialize_tagged | subst=E:zvt_builder~encoding~Default props=C03
        //@ end
        //@ fn src:zvt_builder/src/lib.rs | trait ZvtSerializerImpl | deserialize_tagged | subst=E:zvt_builder~encoding~Default props=C02,C14
        //@ end
    }
    impl<L: zvt_builder::length::Length, TE: zvt_builder::encoding::Encoding<zvt_builder::Tag>> zvt_builder::ZvtSerializerImpl<L, zvt_builder::encoding::Default, TE> for crate::feig::packets::tlv::WriteFile {
        open spec fn ser_pre(&self, tag: Option<zvt_builder::Tag>) -> bool { zvt_builder::default_ser_pre::<Self, L, zvt_builder::encoding::Default, TE>(self, tag) }
        open spec fn spec_ser_tagged(&self, tag: Option<zvt_builder::Tag>) -> Seq<u8> { zvt_builder::default_spec_ser::<Self, L, zvt_builder::encoding::Default, TE>(self, tag) }
        open spec fn deser_pre(tag: Option<zvt_builder::Tag>) -> bool { L::wf() }
        open spec fn functional() -> bool { false }
        open spec fn deser_progresses(tag: Option<zvt_builder::Tag>) -> bool { tag is Some && TE::progresses() }
        open spec fn deser_defined(b: Seq<u8>, tag: Option<zvt_builder::Tag>) -> bool { true }
        open spec fn deser_ok(b: Seq<u8>, tag: Option<zvt_builder::Tag>, v: Self, k: int) -> bool { true }
        //@ fn src:zvt_builder/src/lib.rs | trait ZvtSerializerImpl | serialize_tagged | subst=E:zvt_builder~encoding~Default props=C03
        //@ end
        //@ fn src:zvt_builder/src/lib.rs | trait ZvtSerializerImpl | deserialize_tagged | subst=E:zvt_builder~encoding~Default props=C02,C14
        //@ end
    }
    impl<L: zvt_builder::length::Length, TE: zvt_builder::encoding::Encoding<zvt_builder::Tag>> zvt_builder::ZvtSerializerImpl<L, zvt_builder::encoding::Default, TE> for crate::feig::packets::tlv::HostConfigurationData {
        open spec fn ser_pre(&self, tag: Option<zvt_builder::Tag>) -> bool { zvt_builder::default_ser_pre::<Self, L, zvt_builder::encoding::Default, TE>(self, tag) }
        open spec fn spec_ser_tagged(&self, tag: Option<zvt_builder::Tag>) -> Seq<u8> { zvt_builder::default_spec_ser::<Self, L, zvt_builder::encoding::Default, TE>(self, tag) }
        open spec fn deser_pre(tag: Option<zvt_builder::Tag>) -> bool { L::wf() }
        open spec fn functional() -> bool { false }
        open spec fn deser_progresses(tag: Option<zvt_builder::Tag>) -> bool { tag is Some && TE::progresses() }
        open spec fn deser_defined(b: Seq<u8>, tag: Option<zvt_builder::Tag>) -> bool { true }
        open spec fn deser_ok(b: Seq<u8>, tag: Option<zvt_builder::Tag>, v: Self, k: int) -> bool { true }
        //@ fn src:zvt_builder/src/lib.rs | trait ZvtSerializerImpl | serialize_tagged | subst=E:zvt_builder~encoding~Default props=C03
        //@ end
        //@ fn src:zvt_builder/src/lib.rs | trait ZvtSerializerImpl | deserialize_tagged | subst=E:zvt_builder~encoding~Default props=C02,C14
        //@ end
    }
    impl<L: zvt_builder::length::Length, TE: zvt_builder::encoding::Encoding<zvt_builder::Tag>> zvt_builder::ZvtSerializerImpl<L, zvt_builder::encoding::Default, TE> for crate::feig::packets::tlv::SystemInformation {
        open spec fn ser_pre(&self, tag: Option<zvt_builder::Tag>) -> bool { zvt_builder::default_ser_pre::<Self, L, zvt_builder::encoding::Default, TE>(self, tag) }
        open spec fn spec_ser_tagged(&self, tag: Option<zvt_builder::Tag>) -> Seq<u8> { zvt_builder::default_spec_ser::<Self, L, zvt_builder::encoding::Default, TE>(self, tag) }
        open spec fn deser_pre(tag: Option<zvt_builder::Tag>) -> bool { L::wf() }
        open spec fn functional() -> bool { false }
        open spec fn deser_progresses(tag: Option<zvt_builder::Tag>) -> bool { tag is Some && TE::progresses() }
        open spec fn deser_defined(b: Seq<u8>, tag: Option<zvt_builder::Tag>) -> bool { true }
        open spec fn deser_ok(b: Seq<u8>, tag: Option<zvt_builder::Tag>, v: Self, k: int) -> bool { true }
        //@ fn src:zvt_builder/src/lib.rs | trait ZvtSerializerImpl | serialize_tagged | subst=E:zvt_builder~encoding~Default props=C03
        //@ end
        //@ fn src:zvt_builder/src/lib.rs | trait ZvtSerializerImpl | deserialize_tagged | subst=E:zvt_builder~encoding~Default props=C02,C14
        //@ end
    }
    impl<L: zvt_builder::length::Length, TE: zvt_builder::encoding::Encoding<zvt_builder::Tag>> zvt_builder::ZvtSerializerImpl<L, zvt_builder::encoding::Default, TE> for crate::feig::packets::tlv::ChangeConfiguration {
        open spec fn ser_pre(&self, tag: Option<zvt_builder::Tag>) -> bool { zvt_builder::default_ser_pre::<Self, L, zvt_builder::encoding::Default, TE>(self, tag) }
        open spec fn spec_ser_tagged(&self, tag: Option<zvt_builder::Tag>) -> Seq<u8> { zvt_builder::default_spec_ser::<Self, L, zvt_builder::encoding::Default, TE>(self, tag) }
        open spec fn deser_pre(tag: Option<zvt_builder::Tag>) -> bool { L::wf() }
        open spec fn functional() -> bool { false }
        open spec fn deser_progresses(tag: Option<zvt_builder::Tag>) -> bool { tag is Some && TE::progresses() }
        open spec fn deser_defined(b: Seq<u8>, tag: Option<zvt_builder::Tag>) -> bool { true }
        open spec fn deser_ok(b: Seq<u8>, tag: Option<zvt_builder::Tag>, v: Self, k: int) -> bool { true }
        //@ fn src:zvt_builder/src/lib.rs | trait ZvtSerializerImpl | serialize_tagged | subst=E:zvt_builder~encoding~Default props=C03
        //@ end
        //@ fn src:zvt_builder/src/lib.rs | trait ZvtSerializerImpl | deserialize_tagged | subst=E:zvt_builder~encoding~Default props=C02,C14
        //@ end
    }
