    impl<L: zvt_builder::length::Length, TE: zvt_builder::encoding::Encoding<zvt_builder::Tag>> zvt_builder::ZvtSerializerImpl<L, zvt_builder::encoding::Default, TE> for crate::packets::tlv::Subs {
        open spec fn ser_pre(&self, tag: Option<zvt_builder::Tag>) -> bool { zvt_builder::default_ser_pre::<Self, L, zvt_builder::encoding::Default, TE>(self, tag) }
        open spec fn spec_ser_tagged(&self, tag: Option<zvt_builder::Tag>) -> Seq<u8> { zvt_builder::default_spec_ser::<Self, L, zvt_builder::encoding::Default, TE>(self, tag) }
        open spec fn deser_pre(tag: Option<zvt_builder::Tag>) -> bool { L::wf() }
        open spec fn functional() -> bool { false }
        open spec fn deser_progresses(tag: Option<zvt_builder::Tag>) -> bool { tag is Some && TE::progresses() }
        open spec fn deser_defined(b: Seq<u8>, tag: Option<zvt_builder::Tag>) -> bool { true }
        open spec fn deser_ok(b: Seq<u8>, tag: Option<zvt_builder::Tag>, v: Self, k: int) -> bool { true }
        //@ fn src:zvt_builder/src/lib.rs | trait ZvtSerializerImpl | serialize_tagged | subst=E:zvt_builder~encoding~Default props=C03
        //@ end
        //@ fn src:zvt_builder/src/lib.rs | trait ZvtSerializerImpl | deserialize_tagged | subst=E:zvt_builder~encoding~Default props=C02,C14
        //@ end
    }
    impl<L: zvt_builder::length::Length, TE: zvt_builder::encoding::Encoding<zvt_builder::Tag>> zvt_builder::ZvtSerializerImpl<L, zvt_builder::encoding::Default, TE> for crate::packets::tlv::SubsOnCard {
        open spec fn ser_pre(&self, tag: Option<zvt_builder::Tag>) -> bool { zvt_builder::default_ser_pre::<Self, L, zvt_builder::encoding::Default, TE>(self, tag) }
        open spec fn spec_ser_tagged(&self, tag: Option<zvt_builder::Tag>) -> Seq<u8> { zvt_builder::default_spec_ser::<Self, L, zvt_builder::encoding::Default, TE>(self, tag) }
        open spec fn deser_pre(tag: Option<zvt_builder::Tag>) -> bool { L::wf() }
        open spec fn functional() -> bool { false }
        open spec fn deser_progresses(tag: Option<zvt_builder::Tag>) -> bool { tag is Some && TE::progresses() }
        open spec fn deser_defined(b: Seq<u8>, tag: Option<zvt_builder::Tag>) -> bool { true }
        open spec fn deser_ok(b: Seq<u8>, tag: Option<zvt_builder::Tag>, v: Self, k: int) -> bool { true }
        //@ fn src:zvt_builder/src/lib.rs | trait ZvtSerializerImpl | serialize_tagged | subst=E:zvt_builder~encoding~Default props=C03
        //@ end
        //@ fn src:zvt_builder/src/lib.rs | trait ZvtSerializerImpl | deserialize_tagged | subst=E:zvt_builder~encoding~Default props=C02,C14
        //@ end
    }
    impl<L: zvt_builder::length::Length, TE: zvt_builder::encoding::Encoding<zvt_builder::Tag>> zvt_builder::ZvtSerializerImpl<L, zvt_builder::encoding::Default, TE> for crate::packets::tlv::StatusInformation {
        open spec fn ser_pre(&self, tag: Option<zvt_builder::Tag>) -> bool { zvt_builder::default_ser_pre::<Self, L, zvt_builder::encoding::Default, TE>(self, tag) }
        open spec fn spec_ser_tagged(&self, tag: Option<zvt_builder::Tag>) -> Seq<u8> { zvt_builder::default_spec_ser::<Self, L, zvt_builder::encoding::Default, TE>(self, tag) }
        open spec fn deser_pre(tag: Option<zvt_builder::Tag>) -> bool { L::wf() }
        open spec fn functional() -> bool { false }
        open spec fn deser_progresses(tag: Option<zvt_builder::Tag>) -> bool { tag is Some && TE::progresses() }
        open spec fn deser_defined(b: Seq<u8>, tag: Option<zvt_builder::Tag>) -> bool { true }
        open spec fn deser_ok(b: Seq<u8>, tag: Option<zvt_builder::Tag>, v: Self, k: int) -> bool { true }
        //@ fn src:zvt_builder/src/lib.rs | trait ZvtSerializerImpl | serialize_tagged | subst=E:zvt_builder~encoding~Default props=C03
        //@ end
        //@ fn src:zvt_builder/src/lib.rs | trait ZvtSerializerImpl | deserialize_tagged | subst=E:zvt_builder~encoding~Default props=C02,C14
        //@ end
    }
    impl<L: zvt_builder::length::Length, TE: zvt_builder::encoding::Encoding<zvt_builder::Tag>> zvt_builder::ZvtSerializerImpl<L, zvt_builder::encoding::Default, TE> for crate::packets::tlv::StatusEnquiry {
        open spec fn ser_pre(&self, tag: Option<zvt_builder::Tag>) -> bool { zvt_builder::default_ser_pre::<Self, L, zvt_builder::encoding::Default, TE>(self, tag) }
        open spec fn spec_ser_tagged(&self, tag: Option<zvt_builder::Tag>) -> Seq<u8> { zvt_builder::default_spec_ser::<Self, L, zvt_builder::encoding::Default, TE>(self, tag) }
        open spec fn deser_pre(tag: Option<zvt_builder::Tag>) -> bool { L::wf() }
        open spec fn functional() -> bool { false }
        open spec fn deser_progresses(tag: Option<zvt_builder::Tag>) -> bool { tag is Some && TE::progresses() }
        open spec fn deser_defined(b: Seq<u8>, tag: Option<zvt_builder::Tag>) -> bool { true }
        open spec fn deser_ok(b: Seq<u8>, tag: Option<zvt_builder::Tag>, v: Self, k: int) -> bool { true }
        //@ fn src:zvt_builder/src/lib.rs | trait ZvtSerializerImpl | serialize_tagged | subst=E:zvt_builder~encoding~Default props=C03
        //@ end
        //@ fn src:zvt_builder/src/lib.rs | trait ZvtSerializerImpl | deserialize_tagged | subst=E:zvt_builder~encoding~Default props=C02,C14
        //@ end
    }
    impl<L: zvt_builder::length::Length, TE: zvt_builder::encoding::Encoding<zvt_builder::Tag>> zvt_builder::ZvtSerializerImpl<L, zvt_builder::encoding::Default, TE> for crate::packets::tlv::DeviceInformation {
        open spec fn ser_pre(&self, tag: Option<zvt_builder::Tag>) -> bool { zvt_builder::default_ser_pre::<Self, L, zvt_builder::encoding::Default, TE>(self, tag) }
        open spec fn spec_ser_tagged(&self, tag: Option<zvt_builder::Tag>) -> Seq<u8> { zvt_builder::default_spec_ser::<Self, L, zvt_builder::encoding::Default, TE>(self, tag) }
        open spec fn deser_pre(tag: Option<zvt_builder::Tag>) -> bool { L::wf() }
        open spec fn functional() -> bool { false }
        open spec fn deser_progresses(tag: Option<zvt_builder::Tag>) -> bool { tag is Some && TE::progresses() }
        open spec fn deser_defined(b: Seq<u8>, tag: Option<zvt_builder::Tag>) -> bool { true }
        open spec fn deser_ok(b: Seq<u8>, tag: Option<zvt_builder::Tag>, v: Self, k: int) -> bool { true }
        //@ fn src:zvt_builder/src/lib.rs | trait ZvtSerializerImpl | serialize_tagged | subst=E:zvt_builder~encoding~Default props=C03
        //@ end
        //@ fn src:zvt_builder/src/lib.rs | trait ZvtSerializerImpl | deserialize_tagged | subst=E:zvt_builder~encoding~Default props=C02,C14
        //@ end
    }
    impl<L: zvt_builder::length::Length, TE: zvt_builder::encoding::Encoding<zvt_builder::Tag>> zvt_builder::ZvtSerializerImpl<L, zvt_builder::encoding::Default, TE> for crate::packets::tlv::ReceiptPrintoutCompletion {
        open spec fn ser_pre(&self, tag: Option<zvt_builder::Tag>) -> bool { zvt_builder::default_ser_pre::<Self, L, zvt_builder::encoding::Default, TE>(self, tag) }
        open spec fn spec_ser_tagged(&self, tag: Option<zvt_builder::Tag>) -> Seq<u8> { zvt_builder::default_spec_ser::<Self, L, zvt_builder::encoding::Default, TE>(self, tag) }
        open spec fn deser_pre(tag: Option<zvt_builder::Tag>) -> bool { L::wf() }
        open spec fn functional() -> bool { false }
        open spec fn deser_progresses(tag: Option<zvt_builder::Tag>) -> bool { tag is Some && TE::progresses() }
        open spec fn deser_defined(b: Seq<u8>, tag: Option<zvt_builder::Tag>) -> bool { true }
        open spec fn deser_ok(b: Seq<u8>, tag: Option<zvt_builder::Tag>, v: Self, k: int) -> bool { true }
        //@ fn src:zvt_builder/src/lib.rs | trait ZvtSerializerImpl | serialize_tagged | subst=E:zvt_builder~encoding~Default props=C03
        //@ end
        //@ fn src:zvt_builder/src/lib.rs | trait ZvtSerializerImpl | deserialize_tagged | subst=E:zvt_builder~encoding~Default props=C02,C14
        //@ end
    }
    impl<L: zvt_builder::length::Length, TE: zvt_builder::encoding::Encoding<zvt_builder::Tag>> zvt_builder::ZvtSerializerImpl<L, zvt_builder::encoding::Default, TE> for crate::packets::tlv::ReservationAbort {
        open spec fn ser_pre(&self, tag: Option<zvt_builder::Tag>) -> bool { zvt_builder::default_ser_pre::<Self, L, zvt_builder::encoding::Default, TE>(self, tag) }
        open spec fn spec_ser_tagged(&self, tag: Option<zvt_builder::Tag>) -> Seq<u8> { zvt_builder::default_spec_ser::<Self, L, zvt_builder::encoding::Default, TE>(self, tag) }
        open spec fn deser_pre(tag: Option<zvt_builder::Tag>) -> bool { L::wf() }
        open spec fn functional() -> bool { false }
        open spec fn deser_progresses(tag: Option<zvt_builder::Tag>) -> bool { tag is Some && TE::progresses() }
        open spec fn deser_defined(b: Seq<u8>, tag: Option<zvt_builder::Tag>) -> bool { true }
        open spec fn deser_ok(b: Seq<u8>, tag: Option<zvt_builder::Tag>, v: Self, k: int) -> bool { true }
        //@ fn src:zvt_builder/src/lib.rs | trait ZvtSerializerImpl | serialize_tagged | subst=E:zvt_builder~encoding~Default props=C03
        //@ end
        //@ fn src:zvt_builder/src/lib.rs | trait ZvtSerializerImpl | deserialize_tagged | subst=E:zvt_builder~encoding~Default props=C02,C14
        //@ end
    }
    impl<L: zvt_builder::length::Length, TE: zvt_builder::encoding::Encoding<zvt_builder::Tag>> zvt_builder::ZvtSerializerImpl<L, zvt_builder::encoding::Default, TE> for crate::packets::tlv::Bmp60 {
        open spec fn ser_pre(&self, tag: Option<zvt_builder::Tag>) -> bool { zvt_builder::default_ser_pre::<Self, L, zvt_builder::encoding::Default, TE>(self, tag) }
        open spec fn spec_ser_tagged(&self, tag: Option<zvt_builder::Tag>) -> Seq<u8> { zvt_builder::default_spec_ser::<Self, L, zvt_builder::encoding::Default, TE>(self, tag) }
        open spec fn deser_pre(tag: Option<zvt_builder::Tag>) -> bool { L::wf() }
        open spec fn functional() -> bool { false }
        open spec fn deser_progresses(tag: Option<zvt_builder::Tag>) -> bool { tag is Some && TE::progresses() }
        open spec fn deser_defined(b: Seq<u8>, tag: Option<zvt_builder::Tag>) -> bool { true }
        open spec fn deser_ok(b: Seq<u8>, tag: Option<zvt_builder::Tag>, v: Self, k: int) -> bool { true }
        //@ fn src:zvt_builder/src/lib.rs | trait ZvtSerializerImpl | serialize_tagged | subst=E:zvt_builder~encoding~Default props=C03
        //@ end
        //@ fn src:zvt_builder/src/lib.rs | trait ZvtSerializerImpl | deserialize_tagged | subst=E:zvt_builder~encoding~Default props=C02,C14
        //@ end
    }
    impl<L: zvt_builder::length::Length, TE: zvt_builder::encoding::Encoding<zvt_builder::Tag>> zvt_builder::ZvtSerializerImpl<L, zvt_builder::encoding::Default, TE> for crate::packets::tlv::AuthData {
        open spec fn ser_pre(&self, tag: Option<zvt_builder::Tag>) -> bool { zvt_builder::default_ser_pre::<Self, L, zvt_builder::encoding::Default, TE>(self, tag) }
        open spec fn spec_ser_tagged(&self, tag: Option<zvt_builder::Tag>) -> Seq<u8> { zvt_builder::default_spec_ser::<Self, L, zvt_builder::encoding::Default, TE>(self, tag) }
        open spec fn deser_pre(tag: Option<zvt_builder::Tag>) -> bool { L::wf() }
        open spec fn functional() -> bool { false }
        open spec fn deser_progresses(tag: Option<zvt_builder::Tag>) -> bool { tag is Some && TE::progresses() }
        open spec fn deser_defined(b: Seq<u8>, tag: Option<zvt_builder::Tag>) -> bool { true }
        open spec fn deser_ok(b: Seq<u8>, tag: Option<zvt_builder::Tag>, v: Self, k: int) -> bool { true }
        //@ fn src:zvt_builder/src/lib.rs | trait ZvtSerializerImpl | serialize_tagged | subst=E:zvt_builder~encoding~Default props=C03
        //@ end
        //@ fn src:zvt_builder/src/lib.rs | trait ZvtSerializerImpl | deserialize_tagged | subst=E:zvt_builder~encoding~Default props=C02,C14
        //@ end
    }
    impl<L: zvt_builder::length::Length, TE: zvt_builder::encoding::Encoding<zvt_builder::Tag>> zvt_builder::ZvtSerializerImpl<L, zvt_builder::encoding::Default, TE> for crate::packets::tlv::PreAuthData {
        open spec fn ser_pre(&self, tag: Option<zvt_builder::Tag>) -> bool { zvt_builder::default_ser_pre::<Self, L, zvt_builder::encoding::Default, TE>(self, tag) }
        open spec fn spec_ser_tagged(&self, tag: Option<zvt_builder::Tag>) -> Seq<u8> { zvt_builder::default_spec_ser::<Self, L, zvt_builder::encoding::Default, TE>(self, tag) }
        open spec fn deser_pre(tag: Option<zvt_builder::Tag>) -> bool { L::wf() }
        open spec fn functional() -> bool { false }
        open spec fn deser_progresses(tag: Option<zvt_builder::Tag>) -> bool { tag is Some && TE::progresses() }
        open spec fn deser_defined(b: Seq<u8>, tag: Option<zvt_builder::Tag>) -> bool { true }
        open spec fn deser_ok(b: Seq<u8>, tag: Option<zvt_builder::Tag>, v: Self, k: int) -> bool { true }
        //@ fn src:zvt_builder/src/lib.rs | trait ZvtSerializerImpl | serialize_tagged | subst=E:zvt_builder~encoding~Default props=C03
        //@ end
        //@ fn src:zvt_builder/src/lib.rs | trait ZvtSerializerImpl | deserialize_tagged | subst=E:zvt_builder~encoding~Default props=C02,C14
        //@ end
    }
    impl<L: zvt_builder::length::Length, TE: zvt_builder::encoding::Encoding<zvt_builder::Tag>> zvt_builder::ZvtSerializerImpl<L, zvt_builder::encoding::Default, TE> for crate::packets::tlv::Diagnosis {
        open spec fn ser_pre(&self, tag: Option<zvt_builder::Tag>) -> bool { zvt_builder::default_ser_pre::<Self, L, zvt_builder::encoding::Default, TE>(self, tag) }
        open spec fn spec_ser_tagged(&self, tag: Option<zvt_builder::Tag>) -> Seq<u8> { zvt_builder::default_spec_ser::<Self, L, zvt_builder::encoding::Default, TE>(self, tag) }
        open spec fn deser_pre(tag: Option<zvt_builder::Tag>) -> bool { L::wf() }
        open spec fn functional() -> bool { false }
        open spec fn deser_progresses(tag: Option<zvt_builder::Tag>) -> bool { tag is Some && TE::progresses() }
        open spec fn deser_defined(b: Seq<u8>, tag: Option<zvt_builder::Tag>) -> bool { true }
        open spec fn deser_ok(b: Seq<u8>, tag: Option<zvt_builder::Tag>, v: Self, k: int) -> bool { true }
        //@ fn src:zvt_builder/src/lib.rs | trait ZvtSerializerImpl | serialize_tagged | subst=E:zvt_builder~encoding~Default props=C03
        //@ end
        //@ fn src:zvt_builder/src/lib.rs | trait ZvtSerializerImpl | deserialize_tagged | subst=E:zvt_builder~encoding~Default props=C02,C14
        //@ end
    }
    impl<L: zvt_builder::length::Length, TE: zvt_builder::encoding::Encoding<zvt_builder::Tag>> zvt_builder::ZvtSerializerImpl<L, zvt_builder::encoding::Default, TE> for crate::packets::tlv::ReadCard {
        open spec fn ser_pre(&self, tag: Option<zvt_builder::Tag>) -> bool { zvt_builder::default_ser_pre::<Self, L, zvt_builder::encoding::Default, TE>(self, tag) }
        open spec fn spec_ser_tagged(&self, tag: Option<zvt_builder::Tag>) -> Seq<u8> { zvt_builder::default_spec_ser::<Self, L, zvt_builder::encoding::Default, TE>(self, tag) }
        open spec fn deser_pre(tag: Option<zvt_builder::Tag>) -> bool { L::wf() }
        open spec fn functional() -> bool { false }
        open spec fn deser_progresses(tag: Option<zvt_builder::Tag>) -> bool { tag is Some && TE::progresses() }
        open spec fn deser_defined(b: Seq<u8>, tag: Option<zvt_builder::Tag>) -> bool { true }
        open spec fn deser_ok(b: Seq<u8>, tag: Option<zvt_builder::Tag>, v: Self, k: int) -> bool { true }
        //@ fn src:zvt_builder/src/lib.rs | trait ZvtSerializerImpl | serialize_tagged | subst=E:zvt_builder~encoding~Default props=C03
        //@ end
        //@ fn src:zvt_builder/src/lib.rs | trait ZvtSerializerImpl | deserialize_tagged | subst=E:zvt_builder~encoding~Default props=C02,C14
        //@ end
    }
    impl<L: zvt_builder::length::Length, TE: zvt_builder::encoding::Encoding<zvt_builder::Tag>> zvt_builder::ZvtSerializerImpl<L, zvt_builder::encoding::Default, TE> for crate::packets::tlv::ZvtString {
        open spec fn ser_pre(&self, tag: Option<zvt_builder::Tag>) -> bool { zvt_builder::default_ser_pre::<Self, L, zvt_builder::encoding::Default, TE>(self, tag) }
        open spec fn spec_ser_tagged(&self, tag: Option<zvt_builder::Tag>) -> Seq<u8> { zvt_builder::default_spec_ser::<Self, L, zvt_builder::encoding::Default, TE>(self, tag) }
        open spec fn deser_pre(tag: Option<zvt_builder::Tag>) -> bool { L::wf() }
        open spec fn functional() -> bool { false }
        open spec fn deser_progresses(tag: Option<zvt_builder::Tag>) -> bool { tag is Some && TE::progresses() }
        open spec fn deser_defined(b: Seq<u8>, tag: Option<zvt_builder::Tag>) -> bool { true }
        open spec fn deser_ok(b: Seq<u8>, tag: Option<zvt_builder::Tag>, v: Self, k: int) -> bool { true }
        //@ fn src:zvt_builder/src/lib.rs | trait ZvtSerializerImpl | serialize_tagged | subst=E:zvt_builder~encoding~Default props=C03
        //@ end
        //@ fn src:zvt_builder/src/lib.rs | trait ZvtSerializerImpl | deserialize_tagged | subst=E:zvt_builder~encoding~Default props=C02,C14
        //@ end
    }
    impl<L: zvt_builder::length::Length, TE: zvt_builder::encoding::Encoding<zvt_builder::Tag>> zvt_builder::ZvtSerializerImpl<L, zvt_builder::encoding::Default, TE> for crate::packets::tlv::TextLines {
        open spec fn ser_pre(&self, tag: Option<zvt_builder::Tag>) -> bool { zvt_builder::default_ser_pre::<Self, L, zvt_builder::encoding::Default, TE>(self, tag) }
        open spec fn spec_ser_tagged(&self, tag: Option<zvt_builder::Tag>) -> Seq<u8> { zvt_builder::default_spec_ser::<Self, L, zvt_builder::encoding::Default, TE>(self, tag) }
        open spec fn deser_pre(tag: Option<zvt_builder::Tag>) -> bool { L::wf() }
        open spec fn functional() -> bool { false }
        open spec fn deser_progresses(tag: Option<zvt_builder::Tag>) -> bool { tag is Some && TE::progresses() }
        open spec fn deser_defined(b: Seq<u8>, tag: Option<zvt_builder::Tag>) -> bool { true }
        open spec fn deser_ok(b: Seq<u8>, tag: Option<zvt_builder::Tag>, v: Self, k: int) -> bool { true }
        //@ fn src:zvt_builder/src/lib.rs | trait ZvtSerializerImpl | serialize_tagged | subst=E:zvt_builder~encoding~Default props=C03
        //@ end
        //@ fn src:zvt_builder/src/lib.rs | trait ZvtSerializerImpl | deserialize_tagged | subst=E:zvt_builder~encoding~Default props=C02,C14
        //@ end
    }
    impl<L: zvt_builder::length::Length, TE: zvt_builder::encoding::Encoding<zvt_builder::Tag>> zvt_builder::ZvtSerializerImpl<L, zvt_builder::encoding::Default, TE> for crate::packets::tlv::PrintTextBlock {
        open spec fn ser_pre(&self, tag: Option<zvt_builder::Tag>) -> bool { zvt_builder::default_ser_pre::<Self, L, zvt_builder::encoding::Default, TE>(self, tag) }
        open spec fn spec_ser_tagged(&self, tag: Option<zvt_builder::Tag>) -> Seq<u8> { zvt_builder::default_spec_ser::<Self, L, zvt_builder::encoding::Default, TE>(self, tag) }
        open spec fn deser_pre(tag: Option<zvt_builder::Tag>) -> bool { L::wf() }
        open spec fn functional() -> bool { false }
        open spec fn deser_progresses(tag: Option<zvt_builder::Tag>) -> bool { tag is Some && TE::progresses() }
        open spec fn deser_defined(b: Seq<u8>, tag: Option<zvt_builder::Tag>) -> bool { true }
        open spec fn deser_ok(b: Seq<u8>, tag: Option<zvt_builder::Tag>, v: Self, k: int) -> bool { true }
        //@ fn src:zvt_builder/src/lib.rs | trait ZvtSerializerImpl | serialize_tagged | subst=E:zvt_builder~encoding~Default props=C03
        //@ end
        //@ fn src:zvt_builder/src/lib.rs | trait ZvtSerializerImpl | deserialize_tagged | subst=E:zvt_builder~encoding~Default props=C02,C14
        //@ end
    }
    impl<L: zvt_builder::length::Length, TE: zvt_builder::encoding::Encoding<zvt_builder::Tag>> zvt_builder::ZvtSerializerImpl<L, zvt_builder::encoding::Default, TE> for crate::packets::tlv::Registration {
        open spec fn ser_pre(&self, tag: Option<zvt_builder::Tag>) -> bool { zvt_builder::default_ser_pre::<Self, L, zvt_builder::encoding::Default, TE>(self, tag) }
        open spec fn spec_ser_tagged(&self, tag: Option<zvt_builder::Tag>) -> Seq<u8> { zvt_builder::default_spec_ser::<Self, L, zvt_builder::encoding::Default, TE>(self, tag) }
        open spec fn deser_pre(tag: Option<zvt_builder::Tag>) -> bool { L::wf() }
        open spec fn functional() -> bool { false }
        open spec fn deser_progresses(tag: Option<zvt_builder::Tag>) -> bool { tag is Some && TE::progresses() }
        open spec fn deser_defined(b: Seq<u8>, tag: Option<zvt_builder::Tag>) -> bool { true }
        open spec fn deser_ok(b: Seq<u8>, tag: Option<zvt_builder::Tag>, v: Self, k: int) -> bool { true }
        //@ fn src:zvt_builder/src/lib.rs | trait ZvtSerializerImpl | serialize_tagged | subst=E:zvt_builder~encoding~Default props=C03
        //@ end
        //@ fn src:zvt_builder/src/lib.rs | trait ZvtSerializerImpl | deserialize_tagged | subst=E:zvt_builder~encoding~Default props=C02,C14
        //@ end
    }
