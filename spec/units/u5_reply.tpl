// ------------------------------------------------------------------ reply enum $REPLY
//@ item $FILE | enum $REPLY
impl ZvtParser for $REPLY {
    uninterp spec fn parse_spec(b: Seq<u8>) -> Option<Self>;
    #[verifier::external_body]
    fn zvt_parse(bytes: &[u8]) -> (r: ZVTResult<Self>) { unimplemented!() }
}
