        /// result-code table (spec/tables/errcodes.json, frozen); `from_u8` is num_derive's FromPrimitive (checked by Kani K3)
        pub open spec fn em_from_u8(c: u8) -> Option<ErrorMessages> {
            if false { None }
            else if c == 100 { Some(ErrorMessages::CardNotReadable) }
            else if c == 101 { Some(ErrorMessages::CardDataNotPresent) }
            else if c == 102 { Some(ErrorMessages::ProcessingError) }
            else if c == 103 { Some(ErrorMessages::FunctionNotPermittedForEcAndMaestroCards) }
            else if c == 104 { Some(ErrorMessages::FunctionNotPermittedForCreditAndTankCards) }
            else if c == 106 { Some(ErrorMessages::TurnoverFileFull) }
            else if c == 107 { Some(ErrorMessages::FunctionDeactivated) }
            else if c == 108 { Some(ErrorMessages::AbortViaTimeoutOrAbortKey) }
            else if c == 110 { Some(ErrorMessages::CardInBlockedList) }
            else if c == 111 { Some(ErrorMessages::WrongCurrency) }
            else if c == 113 { Some(ErrorMessages::CreditNotSufficient) }
            else if c == 114 { Some(ErrorMessages::ChipError) }
            else if c == 115 { Some(ErrorMessages::CardDataIncorrect) }
            else if c == 116 { Some(ErrorMessages::DukptEngineExhausted) }
            else if c == 117 { Some(ErrorMessages::TextNotAuthentic) }
            else if c == 118 { Some(ErrorMessages::PanNotInWhiteList) }
            else if c == 119 { Some(ErrorMessages::EndOfDayBatchNotPossible) }
            else if c == 120 { Some(ErrorMessages::CardExpired) }
            else if c == 121 { Some(ErrorMessages::CardNotYetValid) }
            else if c == 122 { Some(ErrorMessages::CardUnknown) }
            else if c == 123 { Some(ErrorMessages::FallbackToMagneticStripeNotPossibleForGiroCard1) }
            else if c == 124 { Some(ErrorMessages::FallbackToMagneticStripeNotPossibleForNonGiroCard) }
            else if c == 125 { Some(ErrorMessages::CommunicationError) }
            else if c == 126 { Some(ErrorMessages::FallbackToMagneticStripeNotPossibleForGiroCard2) }
            else if c == 131 { Some(ErrorMessages::FunctionNotPossible) }
            else if c == 133 { Some(ErrorMessages::KeyMissing) }
            else if c == 137 { Some(ErrorMessages::PinPadDefective1) }
            else if c == 154 { Some(ErrorMessages::ZvtProtocolError) }
            else if c == 155 { Some(ErrorMessages::ErrorFromDialUp) }
            else if c == 156 { Some(ErrorMessages::PleaseWait) }
            else if c == 160 { Some(ErrorMessages::ReceiverNotReady) }
            else if c == 161 { Some(ErrorMessages::RemoteStationDoesNotRespond) }
            else if c == 163 { Some(ErrorMessages::NoConnection) }
            else if c == 164 { Some(ErrorMessages::SubmissionOfGeldkarteNotPossible) }
            else if c == 165 { Some(ErrorMessages::FunctionNotAllowedDueToPciDss) }
            else if c == 177 { Some(ErrorMessages::MemoryFull) }
            else if c == 178 { Some(ErrorMessages::MerchantJournalFull) }
            else if c == 180 { Some(ErrorMessages::AlreadyReversed) }
            else if c == 181 { Some(ErrorMessages::ReversalNotPossible) }
            else if c == 183 { Some(ErrorMessages::PreAuthorizationIncorrect) }
            else if c == 184 { Some(ErrorMessages::ErrorPreAuthorization) }
            else if c == 191 { Some(ErrorMessages::VoltageSupplyToLow) }
            else if c == 192 { Some(ErrorMessages::CardLockingMechanismDefective) }
            else if c == 193 { Some(ErrorMessages::MerchantCardLocked) }
            else if c == 194 { Some(ErrorMessages::DiagnosisRequired) }
            else if c == 195 { Some(ErrorMessages::MaximumAmountExceeded) }
            else if c == 196 { Some(ErrorMessages::CardProfileInvalid) }
            else if c == 197 { Some(ErrorMessages::PaymentMethodNotSupported) }
            else if c == 198 { Some(ErrorMessages::CurrencyNotApplicable) }
            else if c == 200 { Some(ErrorMessages::AmountTooSmall) }
            else if c == 201 { Some(ErrorMessages::MaxTransactionAmountTooSmall) }
            else if c == 203 { Some(ErrorMessages::FunctionOnlyAllowedInEuro) }
            else if c == 204 { Some(ErrorMessages::PrinterNotReady) }
            else if c == 205 { Some(ErrorMessages::CashbackNotPossible) }
            else if c == 210 { Some(ErrorMessages::FunctionNotPermittedForServiceCards) }
            else if c == 220 { Some(ErrorMessages::CardInserted) }
            else if c == 221 { Some(ErrorMessages::ErrorDuringCardEject) }
            else if c == 222 { Some(ErrorMessages::ErrorDuringCardInsertion) }
            else if c == 224 { Some(ErrorMessages::RemoteMaintenanceActivated) }
            else if c == 226 { Some(ErrorMessages::CardReaderDoesNotAnswer) }
            else if c == 227 { Some(ErrorMessages::ShutterClosed) }
            else if c == 228 { Some(ErrorMessages::TerminalActivationRequired) }
            else if c == 231 { Some(ErrorMessages::MinOneGoodsGroupNotFound) }
            else if c == 232 { Some(ErrorMessages::NoGoodsGroupsTableLoaded) }
            else if c == 233 { Some(ErrorMessages::RestrictionCodeNotPermitted) }
            else if c == 234 { Some(ErrorMessages::CardCodeNotPermitted) }
            else if c == 235 { Some(ErrorMessages::FunctionNotExecutable) }
            else if c == 236 { Some(ErrorMessages::PinProcessingNotPossible) }
            else if c == 237 { Some(ErrorMessages::PinPadDefective2) }
            else if c == 240 { Some(ErrorMessages::OpenEndOfDayBatchPresent) }
            else if c == 241 { Some(ErrorMessages::EcCashOrMaestroOfflineError) }
            else if c == 245 { Some(ErrorMessages::OptError) }
            else if c == 246 { Some(ErrorMessages::OptDataNotAvailable) }
            else if c == 250 { Some(ErrorMessages::ErrorTransmittingOfflineTransactions) }
            else if c == 251 { Some(ErrorMessages::TurnoverDataSetDefective) }
            else if c == 252 { Some(ErrorMessages::NecessaryDeviceNotPresentOrDefective) }
            else if c == 253 { Some(ErrorMessages::BaudRateNotSupported) }
            else if c == 254 { Some(ErrorMessages::RegisterUnknown) }
            else if c == 255 { Some(ErrorMessages::SystemError) }
            else { None }
        }
        impl ErrorMessages {
            #[verifier::external_body]
            pub fn from_u8(c: u8) -> (r: Option<ErrorMessages>)
                ensures r == em_from_u8(c)
            { unimplemented!() }
        }
