    // every packet struct of zvt/src/packets.rs (definitions only; payloads are data for the sequences)
    use crate::NaiveDateTime;
    pub struct PartialReversalReceiptNo;
    //@ items src:zvt/src/packets.rs | structs except=Ack,PartialReversalReceiptNo
    pub mod tlv {
        use vstd::prelude::*;
        use crate::NaiveDateTime;
        //@ items src:zvt/src/packets/tlv.rs | structs
        //@ include $EXTRA_TLV
    }
