    // ------------------------------------------------------------------ packets::tlv::Subs
    //@ item src:zvt/src/packets/tlv.rs | struct Subs
    impl zvt_builder::encoding::Encoding<Subs> for zvt_builder::encoding::Default {
        open spec fn enc_ok(v: &Subs) -> bool { <Option<String> as zvt_builder::ZvtSerializerImpl<length::Tlv, encoding::Hex, zvt_builder::encoding::Default>>::ser_pre(&v.card_type, Some(zvt_builder::Tag(65u16))) && <Option<String> as zvt_builder::ZvtSerializerImpl<length::Tlv, encoding::Hex, zvt_builder::encoding::Default>>::ser_pre(&v.application_id, Some(zvt_builder::Tag(67u16))) }
        open spec fn canon(v: &Subs) -> bool { false }
        /// layout table (spec/tables/layout.json): the fields in order, each under its tag / length style / encoding
        open spec fn spec_enc(v: &Subs) -> Seq<u8> { <Option<String> as zvt_builder::ZvtSerializerImpl<length::Tlv, encoding::Hex, zvt_builder::encoding::Default>>::spec_ser_tagged(&v.card_type, Some(zvt_builder::Tag(65u16))) + <Option<String> as zvt_builder::ZvtSerializerImpl<length::Tlv, encoding::Hex, zvt_builder::encoding::Default>>::spec_ser_tagged(&v.application_id, Some(zvt_builder::Tag(67u16))) }
        uninterp spec fn spec_dec(b: Seq<u8>) -> Option<(Subs, int)>;
        open spec fn progresses() -> bool { false }
        open spec fn self_delimiting() -> bool { false }
        open spec fn dec_rel(b: Seq<u8>, v: &Subs, k: int) -> bool { true }
        open spec fn dec_total() -> bool { false }
        /// the tag loop is specified by totality and frame clauses only
        open spec fn functional() -> bool { false }
        //@ fn exp:zvt | impl zvt_builder::encoding::Encoding<Subs> for zvt_builder::encoding::Default | encode | mod=packets::tlv props=C03
        //@ end
        //@ fn exp:zvt | impl zvt_builder::encoding::Encoding<Subs> for zvt_builder::encoding::Default | decode | mod=packets::tlv all-loops props=C02,C14
        //@ loop 0
                invariant
                    crate::is_tail(bytes@, bytes0), crate::frame::tail_base(bytes0), bytes@.len() <= bytes0.len(),
                    curr_len <= usize::MAX,
                decreases bytes@.len() + (if curr_len != bytes@.len() { 1nat } else { 0nat }),
        //@ entry
            let ghost bytes0 = bytes@;
            proof { lemma_slice_len_le_isize_max(bytes); crate::frame::lemma_tail_base(bytes0); }
        //@ end
        proof fn law_dec_bounds(b: Seq<u8>) {}
        proof fn law_dec_frame(b: Seq<u8>, s: Seq<u8>) {}
        proof fn law_inverse(v: &Subs) {}
    }

    // ------------------------------------------------------------------ packets::tlv::SubsOnCard
    //@ item src:zvt/src/packets/tlv.rs | struct SubsOnCard
    impl zvt_builder::encoding::Encoding<SubsOnCard> for zvt_builder::encoding::Default {
        open spec fn enc_ok(v: &SubsOnCard) -> bool { <Vec<Subs> as zvt_builder::ZvtSerializerImpl<length::Tlv, encoding::Default, zvt_builder::encoding::Default>>::ser_pre(&v.subs, Some(zvt_builder::Tag(96u16))) }
        open spec fn canon(v: &SubsOnCard) -> bool { false }
        /// layout table (spec/tables/layout.json): the fields in order, each under its tag / length style / encoding
        open spec fn spec_enc(v: &SubsOnCard) -> Seq<u8> { <Vec<Subs> as zvt_builder::ZvtSerializerImpl<length::Tlv, encoding::Default, zvt_builder::encoding::Default>>::spec_ser_tagged(&v.subs, Some(zvt_builder::Tag(96u16))) }
        uninterp spec fn spec_dec(b: Seq<u8>) -> Option<(SubsOnCard, int)>;
        open spec fn progresses() -> bool { false }
        open spec fn self_delimiting() -> bool { false }
        open spec fn dec_rel(b: Seq<u8>, v: &SubsOnCard, k: int) -> bool { true }
        open spec fn dec_total() -> bool { false }
        /// the tag loop is specified by totality and frame clauses only
        open spec fn functional() -> bool { false }
        //@ fn exp:zvt | impl zvt_builder::encoding::Encoding<SubsOnCard> for zvt_builder::encoding::Default | encode | mod=packets::tlv props=C03
        //@ end
        //@ fn exp:zvt | impl zvt_builder::encoding::Encoding<SubsOnCard> for zvt_builder::encoding::Default | decode | mod=packets::tlv all-loops props=C02,C14
        //@ loop 0
                invariant
                    crate::is_tail(bytes@, bytes0), crate::frame::tail_base(bytes0), bytes@.len() <= bytes0.len(),
                    curr_len <= usize::MAX,
                decreases bytes@.len() + (if curr_len != bytes@.len() { 1nat } else { 0nat }),
        //@ entry
            let ghost bytes0 = bytes@;
            proof { lemma_slice_len_le_isize_max(bytes); crate::frame::lemma_tail_base(bytes0); }
        //@ end
        proof fn law_dec_bounds(b: Seq<u8>) {}
        proof fn law_dec_frame(b: Seq<u8>, s: Seq<u8>) {}
        proof fn law_inverse(v: &SubsOnCard) {}
    }

    // ------------------------------------------------------------------ packets::tlv::StatusInformation
    //@ item src:zvt/src/packets/tlv.rs | struct StatusInformation
    impl zvt_builder::encoding::Encoding<StatusInformation> for zvt_builder::encoding::Default {
        open spec fn enc_ok(v: &StatusInformation) -> bool { <Option<String> as zvt_builder::ZvtSerializerImpl<length::Tlv, encoding::Hex, zvt_builder::encoding::Default>>::ser_pre(&v.uuid, Some(zvt_builder::Tag(76u16))) && <Option<usize> as zvt_builder::ZvtSerializerImpl<length::Tlv, encoding::Bcd, zvt_builder::encoding::Default>>::ser_pre(&v.maximum_pre_autorisation, Some(zvt_builder::Tag(7947u16))) && <Option<String> as zvt_builder::ZvtSerializerImpl<length::Tlv, encoding::Hex, zvt_builder::encoding::Default>>::ser_pre(&v.card_identification_item, Some(zvt_builder::Tag(7956u16))) && <Option<String> as zvt_builder::ZvtSerializerImpl<length::Tlv, encoding::Hex, zvt_builder::encoding::Default>>::ser_pre(&v.ats, Some(zvt_builder::Tag(8005u16))) && <Option<u8> as zvt_builder::ZvtSerializerImpl<length::Tlv, encoding::Default, zvt_builder::encoding::Default>>::ser_pre(&v.card_type, Some(zvt_builder::Tag(8012u16))) && <Option<String> as zvt_builder::ZvtSerializerImpl<length::Tlv, encoding::Hex, zvt_builder::encoding::Default>>::ser_pre(&v.sub_type, Some(zvt_builder::Tag(8013u16))) && <Option<String> as zvt_builder::ZvtSerializerImpl<length::Tlv, encoding::Hex, zvt_builder::encoding::Default>>::ser_pre(&v.atqa, Some(zvt_builder::Tag(8015u16))) && <Option<u8> as zvt_builder::ZvtSerializerImpl<length::Tlv, encoding::Default, zvt_builder::encoding::Default>>::ser_pre(&v.sak, Some(zvt_builder::Tag(8016u16))) && <Vec<Subs> as zvt_builder::ZvtSerializerImpl<length::Tlv, encoding::Default, zvt_builder::encoding::Default>>::ser_pre(&v.subs, Some(zvt_builder::Tag(96u16))) && <Option<SubsOnCard> as zvt_builder::ZvtSerializerImpl<length::Tlv, encoding::Default, zvt_builder::encoding::Default>>::ser_pre(&v.subs_on_card, Some(zvt_builder::Tag(98u16))) }
        open spec fn canon(v: &StatusInformation) -> bool { false }
        /// layout table (spec/tables/layout.json): the fields in order, each under its tag / length style / encoding
        open spec fn spec_enc(v: &StatusInformation) -> Seq<u8> { <Option<String> as zvt_builder::ZvtSerializerImpl<length::Tlv, encoding::Hex, zvt_builder::encoding::Default>>::spec_ser_tagged(&v.uuid, Some(zvt_builder::Tag(76u16))) + <Option<usize> as zvt_builder::ZvtSerializerImpl<length::Tlv, encoding::Bcd, zvt_builder::encoding::Default>>::spec_ser_tagged(&v.maximum_pre_autorisation, Some(zvt_builder::Tag(7947u16))) + <Option<String> as zvt_builder::ZvtSerializerImpl<length::Tlv, encoding::Hex, zvt_builder::encoding::Default>>::spec_ser_tagged(&v.card_identification_item, Some(zvt_builder::Tag(7956u16))) + <Option<String> as zvt_builder::ZvtSerializerImpl<length::Tlv, encoding::Hex, zvt_builder::encoding::Default>>::spec_ser_tagged(&v.ats, Some(zvt_builder::Tag(8005u16))) + <Option<u8> as zvt_builder::ZvtSerializerImpl<length::Tlv, encoding::Default, zvt_builder::encoding::Default>>::spec_ser_tagged(&v.card_type, Some(zvt_builder::Tag(8012u16))) + <Option<String> as zvt_builder::ZvtSerializerImpl<length::Tlv, encoding::Hex, zvt_builder::encoding::Default>>::spec_ser_tagged(&v.sub_type, Some(zvt_builder::Tag(8013u16))) + <Option<String> as zvt_builder::ZvtSerializerImpl<length::Tlv, encoding::Hex, zvt_builder::encoding::Default>>::spec_ser_tagged(&v.atqa, Some(zvt_builder::Tag(8015u16))) + <Option<u8> as zvt_builder::ZvtSerializerImpl<length::Tlv, encoding::Default, zvt_builder::encoding::Default>>::spec_ser_tagged(&v.sak, Some(zvt_builder::Tag(8016u16))) + <Vec<Subs> as zvt_builder::ZvtSerializerImpl<length::Tlv, encoding::Default, zvt_builder::encoding::Default>>::spec_ser_tagged(&v.subs, Some(zvt_builder::Tag(96u16))) + <Option<SubsOnCard> as zvt_builder::ZvtSerializerImpl<length::Tlv, encoding::Default, zvt_builder::encoding::Default>>::spec_ser_tagged(&v.subs_on_card, Some(zvt_builder::Tag(98u16))) }
        uninterp spec fn spec_dec(b: Seq<u8>) -> Option<(StatusInformation, int)>;
        open spec fn progresses() -> bool { false }
        open spec fn self_delimiting() -> bool { false }
        open spec fn dec_rel(b: Seq<u8>, v: &StatusInformation, k: int) -> bool { true }
        open spec fn dec_total() -> bool { false }
        /// the tag loop is specified by totality and frame clauses only
        open spec fn functional() -> bool { false }
        //@ fn exp:zvt | impl zvt_builder::encoding::Encoding<StatusInformation> for zvt_builder::encoding::Default | encode | mod=packets::tlv props=C03
        //@ end
        //@ fn exp:zvt | impl zvt_builder::encoding::Encoding<StatusInformation> for zvt_builder::encoding::Default | decode | mod=packets::tlv all-loops props=C02,C14
        //@ loop 0
                invariant
                    crate::is_tail(bytes@, bytes0), crate::frame::tail_base(bytes0), bytes@.len() <= bytes0.len(),
                    curr_len <= usize::MAX,
                decreases bytes@.len() + (if curr_len != bytes@.len() { 1nat } else { 0nat }),
        //@ entry
            let ghost bytes0 = bytes@;
            proof { lemma_slice_len_le_isize_max(bytes); crate::frame::lemma_tail_base(bytes0); }
        //@ end
        proof fn law_dec_bounds(b: Seq<u8>) {}
        proof fn law_dec_frame(b: Seq<u8>, s: Seq<u8>) {}
        proof fn law_inverse(v: &StatusInformation) {}
    }

    // ------------------------------------------------------------------ packets::tlv::StatusEnquiry
    //@ item src:zvt/src/packets/tlv.rs | struct StatusEnquiry
    impl zvt_builder::encoding::Encoding<StatusEnquiry> for zvt_builder::encoding::Default {
        open spec fn enc_ok(v: &StatusEnquiry) -> bool { <Option<u8> as zvt_builder::ZvtSerializerImpl<length::Tlv, encoding::Default, zvt_builder::encoding::Default>>::ser_pre(&v.enable_extended_contactless_card_detection, Some(zvt_builder::Tag(8178u16))) }
        open spec fn canon(v: &StatusEnquiry) -> bool { false }
        /// layout table (spec/tables/layout.json): the fields in order, each under its tag / length style / encoding
        open spec fn spec_enc(v: &StatusEnquiry) -> Seq<u8> { <Option<u8> as zvt_builder::ZvtSerializerImpl<length::Tlv, encoding::Default, zvt_builder::encoding::Default>>::spec_ser_tagged(&v.enable_extended_contactless_card_detection, Some(zvt_builder::Tag(8178u16))) }
        uninterp spec fn spec_dec(b: Seq<u8>) -> Option<(StatusEnquiry, int)>;
        open spec fn progresses() -> bool { false }
        open spec fn self_delimiting() -> bool { false }
        open spec fn dec_rel(b: Seq<u8>, v: &StatusEnquiry, k: int) -> bool { true }
        open spec fn dec_total() -> bool { false }
        /// the tag loop is specified by totality and frame clauses only
        open spec fn functional() -> bool { false }
        //@ fn exp:zvt | impl zvt_builder::encoding::Encoding<StatusEnquiry> for zvt_builder::encoding::Default | encode | mod=packets::tlv props=C03
        //@ end
        //@ fn exp:zvt | impl zvt_builder::encoding::Encoding<StatusEnquiry> for zvt_builder::encoding::Default | decode | mod=packets::tlv all-loops props=C02,C14
        //@ loop 0
                invariant
                    crate::is_tail(bytes@, bytes0), crate::frame::tail_base(bytes0), bytes@.len() <= bytes0.len(),
                    curr_len <= usize::MAX,
                decreases bytes@.len() + (if curr_len != bytes@.len() { 1nat } else { 0nat }),
        //@ entry
            let ghost bytes0 = bytes@;
            proof { lemma_slice_len_le_isize_max(bytes); crate::frame::lemma_tail_base(bytes0); }
        //@ end
        proof fn law_dec_bounds(b: Seq<u8>) {}
        proof fn law_dec_frame(b: Seq<u8>, s: Seq<u8>) {}
        proof fn law_inverse(v: &StatusEnquiry) {}
    }

    // ------------------------------------------------------------------ packets::tlv::DeviceInformation
    //@ item src:zvt/src/packets/tlv.rs | struct DeviceInformation
    impl zvt_builder::encoding::Encoding<DeviceInformation> for zvt_builder::encoding::Default {
        open spec fn enc_ok(v: &DeviceInformation) -> bool { <Option<String> as zvt_builder::ZvtSerializerImpl<length::Tlv, encoding::Default, zvt_builder::encoding::Default>>::ser_pre(&v.device_name, Some(zvt_builder::Tag(8000u16))) && <Option<String> as zvt_builder::ZvtSerializerImpl<length::Tlv, encoding::Default, zvt_builder::encoding::Default>>::ser_pre(&v.software_version, Some(zvt_builder::Tag(8001u16))) && <Option<usize> as zvt_builder::ZvtSerializerImpl<length::Tlv, encoding::Bcd, zvt_builder::encoding::Default>>::ser_pre(&v.serial_number, Some(zvt_builder::Tag(8002u16))) && <Option<u8> as zvt_builder::ZvtSerializerImpl<length::Tlv, encoding::Default, zvt_builder::encoding::Default>>::ser_pre(&v.device_state, Some(zvt_builder::Tag(8003u16))) }
        open spec fn canon(v: &DeviceInformation) -> bool { false }
        /// layout table (spec/tables/layout.json): the fields in order, each under its tag / length style / encoding
        open spec fn spec_enc(v: &DeviceInformation) -> Seq<u8> { <Option<String> as zvt_builder::ZvtSerializerImpl<length::Tlv, encoding::Default, zvt_builder::encoding::Default>>::spec_ser_tagged(&v.device_name, Some(zvt_builder::Tag(8000u16))) + <Option<String> as zvt_builder::ZvtSerializerImpl<length::Tlv, encoding::Default, zvt_builder::encoding::Default>>::spec_ser_tagged(&v.software_version, Some(zvt_builder::Tag(8001u16))) + <Option<usize> as zvt_builder::ZvtSerializerImpl<length::Tlv, encoding::Bcd, zvt_builder::encoding::Default>>::spec_ser_tagged(&v.serial_number, Some(zvt_builder::Tag(8002u16))) + <Option<u8> as zvt_builder::ZvtSerializerImpl<length::Tlv, encoding::Default, zvt_builder::encoding::Default>>::spec_ser_tagged(&v.device_state, Some(zvt_builder::Tag(8003u16))) }
        uninterp spec fn spec_dec(b: Seq<u8>) -> Option<(DeviceInformation, int)>;
        open spec fn progresses() -> bool { false }
        open spec fn self_delimiting() -> bool { false }
        open spec fn dec_rel(b: Seq<u8>, v: &DeviceInformation, k: int) -> bool { true }
        open spec fn dec_total() -> bool { false }
        /// the tag loop is specified by totality and frame clauses only
        open spec fn functional() -> bool { false }
        //@ fn exp:zvt | impl zvt_builder::encoding::Encoding<DeviceInformation> for zvt_builder::encoding::Default | encode | mod=packets::tlv props=C03
        //@ end
        //@ fn exp:zvt | impl zvt_builder::encoding::Encoding<DeviceInformation> for zvt_builder::encoding::Default | decode | mod=packets::tlv all-loops props=C02,C14
        //@ loop 0
                invariant
                    crate::is_tail(bytes@, bytes0), crate::frame::tail_base(bytes0), bytes@.len() <= bytes0.len(),
                    curr_len <= usize::MAX,
                decreases bytes@.len() + (if curr_len != bytes@.len() { 1nat } else { 0nat }),
        //@ entry
            let ghost bytes0 = bytes@;
            proof { lemma_slice_len_le_isize_max(bytes); crate::frame::lemma_tail_base(bytes0); }
        //@ end
        proof fn law_dec_bounds(b: Seq<u8>) {}
        proof fn law_dec_frame(b: Seq<u8>, s: Seq<u8>) {}
        proof fn law_inverse(v: &DeviceInformation) {}
    }

    // ------------------------------------------------------------------ packets::tlv::ReceiptPrintoutCompletion
    //@ item src:zvt/src/packets/tlv.rs | struct ReceiptPrintoutCompletion
    impl zvt_builder::encoding::Encoding<ReceiptPrintoutCompletion> for zvt_builder::encoding::Default {
        open spec fn enc_ok(v: &ReceiptPrintoutCompletion) -> bool { <Option<usize> as zvt_builder::ZvtSerializerImpl<length::Tlv, encoding::Bcd, zvt_builder::encoding::Default>>::ser_pre(&v.terminal_id, Some(zvt_builder::Tag(8004u16))) && <Option<DeviceInformation> as zvt_builder::ZvtSerializerImpl<length::Tlv, encoding::Default, zvt_builder::encoding::Default>>::ser_pre(&v.device_information, Some(zvt_builder::Tag(228u16))) && <Option<NaiveDateTime> as zvt_builder::ZvtSerializerImpl<length::Tlv, encoding::Default, zvt_builder::encoding::Default>>::ser_pre(&v.date_time, Some(zvt_builder::Tag(52u16))) }
        open spec fn canon(v: &ReceiptPrintoutCompletion) -> bool { false }
        /// layout table (spec/tables/layout.json): the fields in order, each under its tag / length style / encoding
        open spec fn spec_enc(v: &ReceiptPrintoutCompletion) -> Seq<u8> { <Option<usize> as zvt_builder::ZvtSerializerImpl<length::Tlv, encoding::Bcd, zvt_builder::encoding::Default>>::spec_ser_tagged(&v.terminal_id, Some(zvt_builder::Tag(8004u16))) + <Option<DeviceInformation> as zvt_builder::ZvtSerializerImpl<length::Tlv, encoding::Default, zvt_builder::encoding::Default>>::spec_ser_tagged(&v.device_information, Some(zvt_builder::Tag(228u16))) + <Option<NaiveDateTime> as zvt_builder::ZvtSerializerImpl<length::Tlv, encoding::Default, zvt_builder::encoding::Default>>::spec_ser_tagged(&v.date_time, Some(zvt_builder::Tag(52u16))) }
        uninterp spec fn spec_dec(b: Seq<u8>) -> Option<(ReceiptPrintoutCompletion, int)>;
        open spec fn progresses() -> bool { false }
        open spec fn self_delimiting() -> bool { false }
        open spec fn dec_rel(b: Seq<u8>, v: &ReceiptPrintoutCompletion, k: int) -> bool { true }
        open spec fn dec_total() -> bool { false }
        /// the tag loop is specified by totality and frame clauses only
        open spec fn functional() -> bool { false }
        //@ fn exp:zvt | impl zvt_builder::encoding::Encoding<ReceiptPrintoutCompletion> for zvt_builder::encoding::Default | encode | mod=packets::tlv props=C03
        //@ end
        //@ fn exp:zvt | impl zvt_builder::encoding::Encoding<ReceiptPrintoutCompletion> for zvt_builder::encoding::Default | decode | mod=packets::tlv all-loops props=C02,C14
        //@ loop 0
                invariant
                    crate::is_tail(bytes@, bytes0), crate::frame::tail_base(bytes0), bytes@.len() <= bytes0.len(),
                    curr_len <= usize::MAX,
                decreases bytes@.len() + (if curr_len != bytes@.len() { 1nat } else { 0nat }),
        //@ entry
            let ghost bytes0 = bytes@;
            proof { lemma_slice_len_le_isize_max(bytes); crate::frame::lemma_tail_base(bytes0); }
        //@ end
        proof fn law_dec_bounds(b: Seq<u8>) {}
        proof fn law_dec_frame(b: Seq<u8>, s: Seq<u8>) {}
        proof fn law_inverse(v: &ReceiptPrintoutCompletion) {}
    }

    // ------------------------------------------------------------------ packets::tlv::ReservationAbort
    //@ item src:zvt/src/packets/tlv.rs | struct ReservationAbort
    impl zvt_builder::encoding::Encoding<ReservationAbort> for zvt_builder::encoding::Default {
        open spec fn enc_ok(v: &ReservationAbort) -> bool { <Option<usize> as zvt_builder::ZvtSerializerImpl<length::Tlv, encoding::Bcd, zvt_builder::encoding::Default>>::ser_pre(&v.extended_error_code, Some(zvt_builder::Tag(7958u16))) && <Option<String> as zvt_builder::ZvtSerializerImpl<length::Tlv, encoding::Default, zvt_builder::encoding::Default>>::ser_pre(&v.extended_error_text, Some(zvt_builder::Tag(7959u16))) }
        open spec fn canon(v: &ReservationAbort) -> bool { false }
        /// layout table (spec/tables/layout.json): the fields in order, each under its tag / length style / encoding
        open spec fn spec_enc(v: &ReservationAbort) -> Seq<u8> { <Option<usize> as zvt_builder::ZvtSerializerImpl<length::Tlv, encoding::Bcd, zvt_builder::encoding::Default>>::spec_ser_tagged(&v.extended_error_code, Some(zvt_builder::Tag(7958u16))) + <Option<String> as zvt_builder::ZvtSerializerImpl<length::Tlv, encoding::Default, zvt_builder::encoding::Default>>::spec_ser_tagged(&v.extended_error_text, Some(zvt_builder::Tag(7959u16))) }
        uninterp spec fn spec_dec(b: Seq<u8>) -> Option<(ReservationAbort, int)>;
        open spec fn progresses() -> bool { false }
        open spec fn self_delimiting() -> bool { false }
        open spec fn dec_rel(b: Seq<u8>, v: &ReservationAbort, k: int) -> bool { true }
        open spec fn dec_total() -> bool { false }
        /// the tag loop is specified by totality and frame clauses only
        open spec fn functional() -> bool { false }
        //@ fn exp:zvt | impl zvt_builder::encoding::Encoding<ReservationAbort> for zvt_builder::encoding::Default | encode | mod=packets::tlv props=C03
        //@ end
        //@ fn exp:zvt | impl zvt_builder::encoding::Encoding<ReservationAbort> for zvt_builder::encoding::Default | decode | mod=packets::tlv all-loops props=C02,C14
        //@ loop 0
                invariant
                    crate::is_tail(bytes@, bytes0), crate::frame::tail_base(bytes0), bytes@.len() <= bytes0.len(),
                    curr_len <= usize::MAX,
                decreases bytes@.len() + (if curr_len != bytes@.len() { 1nat } else { 0nat }),
        //@ entry
            let ghost bytes0 = bytes@;
            proof { lemma_slice_len_le_isize_max(bytes); crate::frame::lemma_tail_base(bytes0); }
        //@ end
        proof fn law_dec_bounds(b: Seq<u8>) {}
        proof fn law_dec_frame(b: Seq<u8>, s: Seq<u8>) {}
        proof fn law_inverse(v: &ReservationAbort) {}
    }

    // ------------------------------------------------------------------ packets::tlv::Bmp60
    //@ item src:zvt/src/packets/tlv.rs | struct Bmp60
    impl zvt_builder::encoding::Encoding<Bmp60> for zvt_builder::encoding::Default {
        open spec fn enc_ok(v: &Bmp60) -> bool { <String as zvt_builder::ZvtSerializerImpl<length::Tlv, encoding::Default, zvt_builder::encoding::Default>>::ser_pre(&v.bmp_prefix, Some(zvt_builder::Tag(8034u16))) && <String as zvt_builder::ZvtSerializerImpl<length::Tlv, encoding::Default, zvt_builder::encoding::Default>>::ser_pre(&v.bmp_data, Some(zvt_builder::Tag(8035u16))) }
        open spec fn canon(v: &Bmp60) -> bool { false }
        /// layout table (spec/tables/layout.json): the fields in order, each under its tag / length style / encoding
        open spec fn spec_enc(v: &Bmp60) -> Seq<u8> { <String as zvt_builder::ZvtSerializerImpl<length::Tlv, encoding::Default, zvt_builder::encoding::Default>>::spec_ser_tagged(&v.bmp_prefix, Some(zvt_builder::Tag(8034u16))) + <String as zvt_builder::ZvtSerializerImpl<length::Tlv, encoding::Default, zvt_builder::encoding::Default>>::spec_ser_tagged(&v.bmp_data, Some(zvt_builder::Tag(8035u16))) }
        uninterp spec fn spec_dec(b: Seq<u8>) -> Option<(Bmp60, int)>;
        open spec fn progresses() -> bool { false }
        open spec fn self_delimiting() -> bool { false }
        open spec fn dec_rel(b: Seq<u8>, v: &Bmp60, k: int) -> bool { true }
        open spec fn dec_total() -> bool { false }
        /// the tag loop is specified by totality and frame clauses only
        open spec fn functional() -> bool { false }
        //@ fn exp:zvt | impl zvt_builder::encoding::Encoding<Bmp60> for zvt_builder::encoding::Default | encode | mod=packets::tlv props=C03
        //@ end
        //@ fn exp:zvt | impl zvt_builder::encoding::Encoding<Bmp60> for zvt_builder::encoding::Default | decode | mod=packets::tlv all-loops props=C02,C14
        //@ loop 0
                invariant
                    crate::is_tail(bytes@, bytes0), crate::frame::tail_base(bytes0), bytes@.len() <= bytes0.len(),
                    curr_len <= usize::MAX,
                decreases bytes@.len() + (if curr_len != bytes@.len() { 1nat } else { 0nat }),
        //@ entry
            let ghost bytes0 = bytes@;
            proof { lemma_slice_len_le_isize_max(bytes); crate::frame::lemma_tail_base(bytes0); }
        //@ end
        proof fn law_dec_bounds(b: Seq<u8>) {}
        proof fn law_dec_frame(b: Seq<u8>, s: Seq<u8>) {}
        proof fn law_inverse(v: &Bmp60) {}
    }

    // ------------------------------------------------------------------ packets::tlv::AuthData
    //@ item src:zvt/src/packets/tlv.rs | struct AuthData
    impl zvt_builder::encoding::Encoding<AuthData> for zvt_builder::encoding::Default {
        open spec fn enc_ok(v: &AuthData) -> bool { <Option<Bmp60> as zvt_builder::ZvtSerializerImpl<length::Tlv, encoding::Default, zvt_builder::encoding::Default>>::ser_pre(&v.bmp_data, Some(zvt_builder::Tag(233u16))) }
        open spec fn canon(v: &AuthData) -> bool { false }
        /// layout table (spec/tables/layout.json): the fields in order, each under its tag / length style / encoding
        open spec fn spec_enc(v: &AuthData) -> Seq<u8> { <Option<Bmp60> as zvt_builder::ZvtSerializerImpl<length::Tlv, encoding::Default, zvt_builder::encoding::Default>>::spec_ser_tagged(&v.bmp_data, Some(zvt_builder::Tag(233u16))) }
        uninterp spec fn spec_dec(b: Seq<u8>) -> Option<(AuthData, int)>;
        open spec fn progresses() -> bool { false }
        open spec fn self_delimiting() -> bool { false }
        open spec fn dec_rel(b: Seq<u8>, v: &AuthData, k: int) -> bool { true }
        open spec fn dec_total() -> bool { false }
        /// the tag loop is specified by totality and frame clauses only
        open spec fn functional() -> bool { false }
        //@ fn exp:zvt | impl zvt_builder::encoding::Encoding<AuthData> for zvt_builder::encoding::Default | encode | mod=packets::tlv props=C03
        //@ end
        //@ fn exp:zvt | impl zvt_builder::encoding::Encoding<AuthData> for zvt_builder::encoding::Default | decode | mod=packets::tlv all-loops props=C02,C14
        //@ loop 0
                invariant
                    crate::is_tail(bytes@, bytes0), crate::frame::tail_base(bytes0), bytes@.len() <= bytes0.len(),
                    curr_len <= usize::MAX,
                decreases bytes@.len() + (if curr_len != bytes@.len() { 1nat } else { 0nat }),
        //@ entry
            let ghost bytes0 = bytes@;
            proof { lemma_slice_len_le_isize_max(bytes); crate::frame::lemma_tail_base(bytes0); }
        //@ end
        proof fn law_dec_bounds(b: Seq<u8>) {}
        proof fn law_dec_frame(b: Seq<u8>, s: Seq<u8>) {}
        proof fn law_inverse(v: &AuthData) {}
    }

    // ------------------------------------------------------------------ packets::tlv::PreAuthData
    //@ item src:zvt/src/packets/tlv.rs | struct PreAuthData
    impl zvt_builder::encoding::Encoding<PreAuthData> for zvt_builder::encoding::Default {
        open spec fn enc_ok(v: &PreAuthData) -> bool { <Option<Bmp60> as zvt_builder::ZvtSerializerImpl<length::Tlv, encoding::Default, zvt_builder::encoding::Default>>::ser_pre(&v.bmp_data, Some(zvt_builder::Tag(233u16))) }
        open spec fn canon(v: &PreAuthData) -> bool { false }
        /// layout table (spec/tables/layout.json): the fields in order, each under its tag / length style / encoding
        open spec fn spec_enc(v: &PreAuthData) -> Seq<u8> { <Option<Bmp60> as zvt_builder::ZvtSerializerImpl<length::Tlv, encoding::Default, zvt_builder::encoding::Default>>::spec_ser_tagged(&v.bmp_data, Some(zvt_builder::Tag(233u16))) }
        uninterp spec fn spec_dec(b: Seq<u8>) -> Option<(PreAuthData, int)>;
        open spec fn progresses() -> bool { false }
        open spec fn self_delimiting() -> bool { false }
        open spec fn dec_rel(b: Seq<u8>, v: &PreAuthData, k: int) -> bool { true }
        open spec fn dec_total() -> bool { false }
        /// the tag loop is specified by totality and frame clauses only
        open spec fn functional() -> bool { false }
        //@ fn exp:zvt | impl zvt_builder::encoding::Encoding<PreAuthData> for zvt_builder::encoding::Default | encode | mod=packets::tlv props=C03
        //@ end
        //@ fn exp:zvt | impl zvt_builder::encoding::Encoding<PreAuthData> for zvt_builder::encoding::Default | decode | mod=packets::tlv all-loops props=C02,C14
        //@ loop 0
                invariant
                    crate::is_tail(bytes@, bytes0), crate::frame::tail_base(bytes0), bytes@.len() <= bytes0.len(),
                    curr_len <= usize::MAX,
                decreases bytes@.len() + (if curr_len != bytes@.len() { 1nat } else { 0nat }),
        //@ entry
            let ghost bytes0 = bytes@;
            proof { lemma_slice_len_le_isize_max(bytes); crate::frame::lemma_tail_base(bytes0); }
        //@ end
        proof fn law_dec_bounds(b: Seq<u8>) {}
        proof fn law_dec_frame(b: Seq<u8>, s: Seq<u8>) {}
        proof fn law_inverse(v: &PreAuthData) {}
    }

    // ------------------------------------------------------------------ packets::tlv::Diagnosis
    //@ item src:zvt/src/packets/tlv.rs | struct Diagnosis
    impl zvt_builder::encoding::Encoding<Diagnosis> for zvt_builder::encoding::Default {
        open spec fn enc_ok(v: &Diagnosis) -> bool { <Option<u8> as zvt_builder::ZvtSerializerImpl<length::Tlv, encoding::Default, zvt_builder::encoding::Default>>::ser_pre(&v.diagnosis_type, Some(zvt_builder::Tag(27u16))) }
        open spec fn canon(v: &Diagnosis) -> bool { false }
        /// layout table (spec/tables/layout.json): the fields in order, each under its tag / length style / encoding
        open spec fn spec_enc(v: &Diagnosis) -> Seq<u8> { <Option<u8> as zvt_builder::ZvtSerializerImpl<length::Tlv, encoding::Default, zvt_builder::encoding::Default>>::spec_ser_tagged(&v.diagnosis_type, Some(zvt_builder::Tag(27u16))) }
        uninterp spec fn spec_dec(b: Seq<u8>) -> Option<(Diagnosis, int)>;
        open spec fn progresses() -> bool { false }
        open spec fn self_delimiting() -> bool { false }
        open spec fn dec_rel(b: Seq<u8>, v: &Diagnosis, k: int) -> bool { true }
        open spec fn dec_total() -> bool { false }
        /// the tag loop is specified by totality and frame clauses only
        open spec fn functional() -> bool { false }
        //@ fn exp:zvt | impl zvt_builder::encoding::Encoding<Diagnosis> for zvt_builder::encoding::Default | encode | mod=packets::tlv props=C03
        //@ end
        //@ fn exp:zvt | impl zvt_builder::encoding::Encoding<Diagnosis> for zvt_builder::encoding::Default | decode | mod=packets::tlv all-loops props=C02,C14
        //@ loop 0
                invariant
                    crate::is_tail(bytes@, bytes0), crate::frame::tail_base(bytes0), bytes@.len() <= bytes0.len(),
                    curr_len <= usize::MAX,
                decreases bytes@.len() + (if curr_len != bytes@.len() { 1nat } else { 0nat }),
        //@ entry
            let ghost bytes0 = bytes@;
            proof { lemma_slice_len_le_isize_max(bytes); crate::frame::lemma_tail_base(bytes0); }
        //@ end
        proof fn law_dec_bounds(b: Seq<u8>) {}
        proof fn law_dec_frame(b: Seq<u8>, s: Seq<u8>) {}
        proof fn law_inverse(v: &Diagnosis) {}
    }

    // ------------------------------------------------------------------ packets::tlv::ReadCard
    //@ item src:zvt/src/packets/tlv.rs | struct ReadCard
    impl zvt_builder::encoding::Encoding<ReadCard> for zvt_builder::encoding::Default {
        open spec fn enc_ok(v: &ReadCard) -> bool { <Option<u8> as zvt_builder::ZvtSerializerImpl<length::Tlv, encoding::Default, zvt_builder::encoding::Default>>::ser_pre(&v.card_reading_control, Some(zvt_builder::Tag(7957u16))) && <Option<u8> as zvt_builder::ZvtSerializerImpl<length::Tlv, encoding::Default, zvt_builder::encoding::Default>>::ser_pre(&v.card_type, Some(zvt_builder::Tag(8032u16))) }
        open spec fn canon(v: &ReadCard) -> bool { false }
        /// layout table (spec/tables/layout.json): the fields in order, each under its tag / length style / encoding
        open spec fn spec_enc(v: &ReadCard) -> Seq<u8> { <Option<u8> as zvt_builder::ZvtSerializerImpl<length::Tlv, encoding::Default, zvt_builder::encoding::Default>>::spec_ser_tagged(&v.card_reading_control, Some(zvt_builder::Tag(7957u16))) + <Option<u8> as zvt_builder::ZvtSerializerImpl<length::Tlv, encoding::Default, zvt_builder::encoding::Default>>::spec_ser_tagged(&v.card_type, Some(zvt_builder::Tag(8032u16))) }
        uninterp spec fn spec_dec(b: Seq<u8>) -> Option<(ReadCard, int)>;
        open spec fn progresses() -> bool { false }
        open spec fn self_delimiting() -> bool { false }
        open spec fn dec_rel(b: Seq<u8>, v: &ReadCard, k: int) -> bool { true }
        open spec fn dec_total() -> bool { false }
        /// the tag loop is specified by totality and frame clauses only
        open spec fn functional() -> bool { false }
        //@ fn exp:zvt | impl zvt_builder::encoding::Encoding<ReadCard> for zvt_builder::encoding::Default | encode | mod=packets::tlv props=C03
        //@ end
        //@ fn exp:zvt | impl zvt_builder::encoding::Encoding<ReadCard> for zvt_builder::encoding::Default | decode | mod=packets::tlv all-loops props=C02,C14
        //@ loop 0
                invariant
                    crate::is_tail(bytes@, bytes0), crate::frame::tail_base(bytes0), bytes@.len() <= bytes0.len(),
                    curr_len <= usize::MAX,
                decreases bytes@.len() + (if curr_len != bytes@.len() { 1nat } else { 0nat }),
        //@ entry
            let ghost bytes0 = bytes@;
            proof { lemma_slice_len_le_isize_max(bytes); crate::frame::lemma_tail_base(bytes0); }
        //@ end
        proof fn law_dec_bounds(b: Seq<u8>) {}
        proof fn law_dec_frame(b: Seq<u8>, s: Seq<u8>) {}
        proof fn law_inverse(v: &ReadCard) {}
    }

    // ------------------------------------------------------------------ packets::tlv::ZvtString
    //@ item src:zvt/src/packets/tlv.rs | struct ZvtString
    impl zvt_builder::encoding::Encoding<ZvtString> for zvt_builder::encoding::Default {
        open spec fn enc_ok(v: &ZvtString) -> bool { <String as zvt_builder::ZvtSerializerImpl<length::Tlv, encoding::Default, zvt_builder::encoding::Default>>::ser_pre(&v.line, Some(zvt_builder::Tag(7u16))) }
        open spec fn canon(v: &ZvtString) -> bool { false }
        /// layout table (spec/tables/layout.json): the fields in order, each under its tag / length style / encoding
        open spec fn spec_enc(v: &ZvtString) -> Seq<u8> { <String as zvt_builder::ZvtSerializerImpl<length::Tlv, encoding::Default, zvt_builder::encoding::Default>>::spec_ser_tagged(&v.line, Some(zvt_builder::Tag(7u16))) }
        uninterp spec fn spec_dec(b: Seq<u8>) -> Option<(ZvtString, int)>;
        open spec fn progresses() -> bool { false }
        open spec fn self_delimiting() -> bool { false }
        open spec fn dec_rel(b: Seq<u8>, v: &ZvtString, k: int) -> bool { true }
        open spec fn dec_total() -> bool { false }
        /// the tag loop is specified by totality and frame clauses only
        open spec fn functional() -> bool { false }
        //@ fn exp:zvt | impl zvt_builder::encoding::Encoding<ZvtString> for zvt_builder::encoding::Default | encode | mod=packets::tlv props=C03
        //@ end
        //@ fn exp:zvt | impl zvt_builder::encoding::Encoding<ZvtString> for zvt_builder::encoding::Default | decode | mod=packets::tlv all-loops props=C02,C14
        //@ loop 0
                invariant
                    crate::is_tail(bytes@, bytes0), crate::frame::tail_base(bytes0), bytes@.len() <= bytes0.len(),
                    curr_len <= usize::MAX,
                decreases bytes@.len() + (if curr_len != bytes@.len() { 1nat } else { 0nat }),
        //@ entry
            let ghost bytes0 = bytes@;
            proof { lemma_slice_len_le_isize_max(bytes); crate::frame::lemma_tail_base(bytes0); }
        //@ end
        proof fn law_dec_bounds(b: Seq<u8>) {}
        proof fn law_dec_frame(b: Seq<u8>, s: Seq<u8>) {}
        proof fn law_inverse(v: &ZvtString) {}
    }

    // ------------------------------------------------------------------ packets::tlv::TextLines
    //@ item src:zvt/src/packets/tlv.rs | struct TextLines
    impl zvt_builder::encoding::Encoding<TextLines> for zvt_builder::encoding::Default {
        open spec fn enc_ok(v: &TextLines) -> bool { <Vec<String> as zvt_builder::ZvtSerializerImpl<length::Tlv, encoding::Default, zvt_builder::encoding::Default>>::ser_pre(&v.lines, Some(zvt_builder::Tag(7u16))) && <Option<u8> as zvt_builder::ZvtSerializerImpl<length::Tlv, encoding::Default, zvt_builder::encoding::Default>>::ser_pre(&v.eol, Some(zvt_builder::Tag(9u16))) }
        open spec fn canon(v: &TextLines) -> bool { false }
        /// layout table (spec/tables/layout.json): the fields in order, each under its tag / length style / encoding
        open spec fn spec_enc(v: &TextLines) -> Seq<u8> { <Vec<String> as zvt_builder::ZvtSerializerImpl<length::Tlv, encoding::Default, zvt_builder::encoding::Default>>::spec_ser_tagged(&v.lines, Some(zvt_builder::Tag(7u16))) + <Option<u8> as zvt_builder::ZvtSerializerImpl<length::Tlv, encoding::Default, zvt_builder::encoding::Default>>::spec_ser_tagged(&v.eol, Some(zvt_builder::Tag(9u16))) }
        uninterp spec fn spec_dec(b: Seq<u8>) -> Option<(TextLines, int)>;
        open spec fn progresses() -> bool { false }
        open spec fn self_delimiting() -> bool { false }
        open spec fn dec_rel(b: Seq<u8>, v: &TextLines, k: int) -> bool { true }
        open spec fn dec_total() -> bool { false }
        /// the tag loop is specified by totality and frame clauses only
        open spec fn functional() -> bool { false }
        //@ fn exp:zvt | impl zvt_builder::encoding::Encoding<TextLines> for zvt_builder::encoding::Default | encode | mod=packets::tlv props=C03
        //@ end
        //@ fn exp:zvt | impl zvt_builder::encoding::Encoding<TextLines> for zvt_builder::encoding::Default | decode | mod=packets::tlv all-loops props=C02,C14
        //@ loop 0
                invariant
                    crate::is_tail(bytes@, bytes0), crate::frame::tail_base(bytes0), bytes@.len() <= bytes0.len(),
                    curr_len <= usize::MAX,
                decreases bytes@.len() + (if curr_len != bytes@.len() { 1nat } else { 0nat }),
        //@ entry
            let ghost bytes0 = bytes@;
            proof { lemma_slice_len_le_isize_max(bytes); crate::frame::lemma_tail_base(bytes0); }
        //@ end
        proof fn law_dec_bounds(b: Seq<u8>) {}
        proof fn law_dec_frame(b: Seq<u8>, s: Seq<u8>) {}
        proof fn law_inverse(v: &TextLines) {}
    }

    // ------------------------------------------------------------------ packets::tlv::PrintTextBlock
    //@ item src:zvt/src/packets/tlv.rs | struct PrintTextBlock
    impl zvt_builder::encoding::Encoding<PrintTextBlock> for zvt_builder::encoding::Default {
        open spec fn enc_ok(v: &PrintTextBlock) -> bool { <Option<u8> as zvt_builder::ZvtSerializerImpl<length::Tlv, encoding::Default, zvt_builder::encoding::Default>>::ser_pre(&v.receipt_type, Some(zvt_builder::Tag(7943u16))) && <Option<TextLines> as zvt_builder::ZvtSerializerImpl<length::Tlv, encoding::Default, zvt_builder::encoding::Default>>::ser_pre(&v.lines, Some(zvt_builder::Tag(37u16))) }
        open spec fn canon(v: &PrintTextBlock) -> bool { false }
        /// layout table (spec/tables/layout.json): the fields in order, each under its tag / length style / encoding
        open spec fn spec_enc(v: &PrintTextBlock) -> Seq<u8> { <Option<u8> as zvt_builder::ZvtSerializerImpl<length::Tlv, encoding::Default, zvt_builder::encoding::Default>>::spec_ser_tagged(&v.receipt_type, Some(zvt_builder::Tag(7943u16))) + <Option<TextLines> as zvt_builder::ZvtSerializerImpl<length::Tlv, encoding::Default, zvt_builder::encoding::Default>>::spec_ser_tagged(&v.lines, Some(zvt_builder::Tag(37u16))) }
        uninterp spec fn spec_dec(b: Seq<u8>) -> Option<(PrintTextBlock, int)>;
        open spec fn progresses() -> bool { false }
        open spec fn self_delimiting() -> bool { false }
        open spec fn dec_rel(b: Seq<u8>, v: &PrintTextBlock, k: int) -> bool { true }
        open spec fn dec_total() -> bool { false }
        /// the tag loop is specified by totality and frame clauses only
        open spec fn functional() -> bool { false }
        //@ fn exp:zvt | impl zvt_builder::encoding::Encoding<PrintTextBlock> for zvt_builder::encoding::Default | encode | mod=packets::tlv props=C03
        //@ end
        //@ fn exp:zvt | impl zvt_builder::encoding::Encoding<PrintTextBlock> for zvt_builder::encoding::Default | decode | mod=packets::tlv all-loops props=C02,C14
        //@ loop 0
                invariant
                    crate::is_tail(bytes@, bytes0), crate::frame::tail_base(bytes0), bytes@.len() <= bytes0.len(),
                    curr_len <= usize::MAX,
                decreases bytes@.len() + (if curr_len != bytes@.len() { 1nat } else { 0nat }),
        //@ entry
            let ghost bytes0 = bytes@;
            proof { lemma_slice_len_le_isize_max(bytes); crate::frame::lemma_tail_base(bytes0); }
        //@ end
        proof fn law_dec_bounds(b: Seq<u8>) {}
        proof fn law_dec_frame(b: Seq<u8>, s: Seq<u8>) {}
        proof fn law_inverse(v: &PrintTextBlock) {}
    }

    // ------------------------------------------------------------------ packets::tlv::Registration
    //@ item src:zvt/src/packets/tlv.rs | struct Registration
    impl zvt_builder::encoding::Encoding<Registration> for zvt_builder::encoding::Default {
        open spec fn enc_ok(v: &Registration) -> bool { <Option<u16> as zvt_builder::ZvtSerializerImpl<length::Tlv, encoding::BigEndian, zvt_builder::encoding::Default>>::ser_pre(&v.max_len_adpu, Some(zvt_builder::Tag(26u16))) }
        open spec fn canon(v: &Registration) -> bool { false }
        /// layout table (spec/tables/layout.json): the fields in order, each under its tag / length style / encoding
        open spec fn spec_enc(v: &Registration) -> Seq<u8> { <Option<u16> as zvt_builder::ZvtSerializerImpl<length::Tlv, encoding::BigEndian, zvt_builder::encoding::Default>>::spec_ser_tagged(&v.max_len_adpu, Some(zvt_builder::Tag(26u16))) }
        uninterp spec fn spec_dec(b: Seq<u8>) -> Option<(Registration, int)>;
        open spec fn progresses() -> bool { false }
        open spec fn self_delimiting() -> bool { false }
        open spec fn dec_rel(b: Seq<u8>, v: &Registration, k: int) -> bool { true }
        open spec fn dec_total() -> bool { false }
        /// the tag loop is specified by totality and frame clauses only
        open spec fn functional() -> bool { false }
        //@ fn exp:zvt | impl zvt_builder::encoding::Encoding<Registration> for zvt_builder::encoding::Default | encode | mod=packets::tlv props=C03
        //@ end
        //@ fn exp:zvt | impl zvt_builder::encoding::Encoding<Registration> for zvt_builder::encoding::Default | decode | mod=packets::tlv all-loops props=C02,C14
        //@ loop 0
                invariant
                    crate::is_tail(bytes@, bytes0), crate::frame::tail_base(bytes0), bytes@.len() <= bytes0.len(),
                    curr_len <= usize::MAX,
                decreases bytes@.len() + (if curr_len != bytes@.len() { 1nat } else { 0nat }),
        //@ entry
            let ghost bytes0 = bytes@;
            proof { lemma_slice_len_le_isize_max(bytes); crate::frame::lemma_tail_base(bytes0); }
        //@ end
        proof fn law_dec_bounds(b: Seq<u8>) {}
        proof fn law_dec_frame(b: Seq<u8>, s: Seq<u8>) {}
        proof fn law_inverse(v: &Registration) {}
    }

