    // ------------------------------------------------------------------ packets::tlv::Subs
    //@ item src:zvt/src/packets/tlv.rs | struct Subs
    impl zvt_builder::encoding::Encoding<Subs> for zvt_builder::encoding::Default {
        open spec fn enc_ok(v: &Subs) -> bool { <Option<String> as zvt_builder::ZvtSerializerImpl<length::Tlv, encoding::Hex, zvt_builder::encoding::Default>>::ser_pre(&v.card_type, Some(zvt_builder::Tag(65u16))) && <Option<String> as zvt_builder::ZvtSerializerImpl<length::Tlv, encoding::Hex, zvt_builder::encoding::Default>>::ser_pre(&v.application_id, Some(zvt_builder::Tag(67u16))) }
        open spec fn canon(v: &Subs) -> bool { false }
        /// layout table (spec/tables/layout.json): the fields in order, each under its tag / length style / encoding
        open spec fn spec_enc(v: &Subs) -> Seq<u8> { <Option<String> as zvt_builder::ZvtSerializerImpl<length::Tlv, encoding::Hex, zvt_builder::encoding::Default>>::spec_ser_tagged(&v.card_type, Some(zvt_builder::Tag(65u16))) + <Option<String> as zvt_builder::ZvtSerializerImpl<length::Tlv, encoding::Hex, zvt_builder::encoding::Default>>::spec_ser_tagged(&v.application_id, Some(zvt_builder::Tag(67u16))) }
        uninterp spec fn spec_dec(b: Seq<u8>) -> Option<(Subs, int)>;
        open spec fn progresses() -> bool { false }
        open spec fn self_delimiting() -> bool { false }
        open spec fn dec_rel(b: Seq<u8>, v: &Subs, k: int) -> bool { true }
        open spec fn dec_total(b: Seq<u8>) -> bool { false }
        /// the tag loop stops only at the end of the input, in front of something that is no tag, or in front of a tag that
        /// is not one of this struct's non-repeatable fields
        open spec fn dec_stop(rest: Seq<u8>) -> bool { rest.len() == 0 || (match <zvt_builder::encoding::Default as zvt_builder::encoding::Encoding<zvt_builder::Tag>>::spec_dec(rest) { None => true, Some((t, _)) => t.0 != 65u16 && t.0 != 67u16 }) }
        /// the tag loop is specified by totality and frame clauses only
        open spec fn functional() -> bool { false }
        //@ fn exp:zvt | impl zvt_builder::encoding::Encoding<Subs> for zvt_builder::encoding::Default | encode | mod=packets::tlv props=C03,~C01
        //@ end
        //@ fn exp:zvt | impl zvt_builder::encoding::Encoding<Subs> for zvt_builder::encoding::Default | decode | mod=packets::tlv all-loops props=C02,C14
        //@ loop 0
                invariant
                    crate::is_tail(bytes@, bytes0), crate::frame::tail_base(bytes0), bytes@.len() <= bytes0.len(),
                    curr_len <= usize::MAX,
        //@ tag tags.bookkeeping C13
                    actual_tags@ =~= seen,
                    required_tags@ =~= Set::<u16>::empty().difference(seen),
        //@ tag tags.stop C13
                    curr_len == bytes@.len() ==> <zvt_builder::encoding::Default as zvt_builder::encoding::Encoding<Subs>>::dec_stop(bytes@),
                ensures
                    <zvt_builder::encoding::Default as zvt_builder::encoding::Encoding<Subs>>::dec_stop(bytes@),
        //@ tag tags.loop.decreases C02
                decreases bytes@.len() + (if curr_len != bytes@.len() { 1nat } else { 0nat }),
        //@ entry
            let ghost bytes0 = bytes@;
            let ghost mut seen: Set<u16> = Set::<u16>::empty();
            proof { lemma_slice_len_le_isize_max(bytes); crate::frame::lemma_tail_base(bytes0); }
        //@ before (card_type,bytes)=<
        //@ tag tags.no_second_dispatch.card_type C13
            proof { assert(!seen.contains(65u16)); seen = seen.insert(65u16) ; }
        //@ before returnErr(zvt_builder::ZVTError::DuplicateTag(
        //@ tag tags.duplicate_error_is_true.card_type C13
            proof { assert(seen.contains(65u16)) ; }
        //@ before (application_id,bytes)=<
        //@ tag tags.no_second_dispatch.application_id C13
            proof { assert(!seen.contains(67u16)); seen = seen.insert(67u16) ; }
        //@ before returnErr(zvt_builder::ZVTError::DuplicateTag(
        //@ tag tags.duplicate_error_is_true.application_id C13
            proof { assert(seen.contains(67u16)) ; }
        //@ before letmutas_vec
            let ghost req_left = required_tags@;
        //@ before returnErr(zvt_builder::ZVTError::MissingRequiredTags
        //@ tag tags.missing_names_all C13
            proof {
                assert(req_left =~= Set::<u16>::empty().difference(seen));
                assert forall|i: int| 0 <= i < as_vec@.len() implies Set::<u16>::empty().contains((#[trigger] as_vec@[i]).0) && !seen.contains(as_vec@[i].0) by {
                    assert(req_left.contains(as_vec@[i].0));
                }
                assert forall|t: u16| Set::<u16>::empty().contains(t) && !seen.contains(t) implies exists|i: int| 0 <= i < as_vec@.len() && (#[trigger] as_vec@[i]).0 == t by {
                    assert(req_left.contains(t));
                }
            }
        //@ tail
        //@ tag tags.ok_only_if_all_mandatory C13
            proof { assert(Set::<u16>::empty().subset_of(seen)); }
        //@ end
        proof fn law_dec_bounds(b: Seq<u8>) {}
        proof fn law_dec_frame(b: Seq<u8>, s: Seq<u8>) {}
        proof fn law_inverse(v: &Subs) {}
    }

    // ------------------------------------------------------------------ packets::tlv::SubsOnCard
    //@ item src:zvt/src/packets/tlv.rs | struct SubsOnCard
    impl zvt_builder::encoding::Encoding<SubsOnCard> for zvt_builder::encoding::Default {
        open spec fn enc_ok(v: &SubsOnCard) -> bool { <Vec<Subs> as zvt_builder::ZvtSerializerImpl<length::Tlv, encoding::Default, zvt_builder::encoding::Default>>::ser_pre(&v.subs, Some(zvt_builder::Tag(96u16))) }
        open spec fn canon(v: &SubsOnCard) -> bool { false }
        /// layout table (spec/tables/layout.json): the fields in order, each under its tag / length style / encoding
        open spec fn spec_enc(v: &SubsOnCard) -> Seq<u8> { <Vec<Subs> as zvt_builder::ZvtSerializerImpl<length::Tlv, encoding::Default, zvt_builder::encoding::Default>>::spec_ser_tagged(&v.subs, Some(zvt_builder::Tag(96u16))) }
        uninterp spec fn spec_dec(b: Seq<u8>) -> Option<(SubsOnCard, int)>;
        open spec fn progresses() -> bool { false }
        open spec fn self_delimiting() -> bool { false }
        open spec fn dec_rel(b: Seq<u8>, v: &SubsOnCard, k: int) -> bool { true }
        open spec fn dec_total(b: Seq<u8>) -> bool { false }
        /// the tag loop stops only at the end of the input, in front of something that is no tag, or in front of a tag that
        /// is not one of this struct's non-repeatable fields
        open spec fn dec_stop(rest: Seq<u8>) -> bool { rest.len() == 0 || (match <zvt_builder::encoding::Default as zvt_builder::encoding::Encoding<zvt_builder::Tag>>::spec_dec(rest) { None => true, Some((t, _)) => true }) }
        /// the tag loop is specified by totality and frame clauses only
        open spec fn functional() -> bool { false }
        //@ fn exp:zvt | impl zvt_builder::encoding::Encoding<SubsOnCard> for zvt_builder::encoding::Default | encode | mod=packets::tlv props=C03,~C01
        //@ end
        //@ fn exp:zvt | impl zvt_builder::encoding::Encoding<SubsOnCard> for zvt_builder::encoding::Default | decode | mod=packets::tlv all-loops props=C02,C14
        //@ loop 0
                invariant
                    crate::is_tail(bytes@, bytes0), crate::frame::tail_base(bytes0), bytes@.len() <= bytes0.len(),
                    curr_len <= usize::MAX,
        //@ tag tags.bookkeeping C13
                    actual_tags@ =~= seen,
                    required_tags@ =~= Set::<u16>::empty().difference(seen),
        //@ tag tags.stop C13
                    curr_len == bytes@.len() ==> <zvt_builder::encoding::Default as zvt_builder::encoding::Encoding<SubsOnCard>>::dec_stop(bytes@),
                ensures
                    <zvt_builder::encoding::Default as zvt_builder::encoding::Encoding<SubsOnCard>>::dec_stop(bytes@),
        //@ tag tags.loop.decreases C02
                decreases bytes@.len() + (if curr_len != bytes@.len() { 1nat } else { 0nat }),
        //@ entry
            let ghost bytes0 = bytes@;
            let ghost mut seen: Set<u16> = Set::<u16>::empty();
            proof { lemma_slice_len_le_isize_max(bytes); crate::frame::lemma_tail_base(bytes0); }
        //@ before (subs,bytes)=<
        //@ tag tags.no_second_dispatch.subs C13
            proof { assert(!seen.contains(96u16)); seen = seen.insert(96u16) ; }
            let ghost b_pre = bytes@;
        //@ after (subs,bytes)=<
        //@ tag tags.stop C13
            proof { if curr_len == bytes@.len() { crate::frame::lemma_tail_same_len(bytes@, b_pre); } }
        //@ before returnErr(zvt_builder::ZVTError::DuplicateTag(
        //@ tag tags.duplicate_error_is_true.subs C13
            proof { assert(seen.contains(96u16)) ; }
        //@ before letmutas_vec
            let ghost req_left = required_tags@;
        //@ before returnErr(zvt_builder::ZVTError::MissingRequiredTags
        //@ tag tags.missing_names_all C13
            proof {
                assert(req_left =~= Set::<u16>::empty().difference(seen));
                assert forall|i: int| 0 <= i < as_vec@.len() implies Set::<u16>::empty().contains((#[trigger] as_vec@[i]).0) && !seen.contains(as_vec@[i].0) by {
                    assert(req_left.contains(as_vec@[i].0));
                }
                assert forall|t: u16| Set::<u16>::empty().contains(t) && !seen.contains(t) implies exists|i: int| 0 <= i < as_vec@.len() && (#[trigger] as_vec@[i]).0 == t by {
                    assert(req_left.contains(t));
                }
            }
        //@ tail
        //@ tag tags.ok_only_if_all_mandatory C13
            proof { assert(Set::<u16>::empty().subset_of(seen)); }
        //@ end
        proof fn law_dec_bounds(b: Seq<u8>) {}
        proof fn law_dec_frame(b: Seq<u8>, s: Seq<u8>) {}
        proof fn law_inverse(v: &SubsOnCard) {}
    }

    // ------------------------------------------------------------------ packets::tlv::StatusInformation
    //@ item src:zvt/src/packets/tlv.rs | struct StatusInformation
    impl zvt_builder::encoding::Encoding<StatusInformation> for zvt_builder::encoding::Default {
        open spec fn enc_ok(v: &StatusInformation) -> bool { <Option<String> as zvt_builder::ZvtSerializerImpl<length::Tlv, encoding::Hex, zvt_builder::encoding::Default>>::ser_pre(&v.uuid, Some(zvt_builder::Tag(76u16))) && <Option<usize> as zvt_builder::ZvtSerializerImpl<length::Tlv, encoding::Bcd, zvt_builder::encoding::Default>>::ser_pre(&v.maximum_pre_autorisation, Some(zvt_builder::Tag(7947u16))) && <Option<String> as zvt_builder::ZvtSerializerImpl<length::Tlv, encoding::Hex, zvt_builder::encoding::Default>>::ser_pre(&v.card_identification_item, Some(zvt_builder::Tag(7956u16))) && <Option<String> as zvt_builder::ZvtSerializerImpl<length::Tlv, encoding::Hex, zvt_builder::encoding::Default>>::ser_pre(&v.ats, Some(zvt_builder::Tag(8005u16))) && <Option<u8> as zvt_builder::ZvtSerializerImpl<length::Tlv, encoding::Default, zvt_builder::encoding::Default>>::ser_pre(&v.card_type, Some(zvt_builder::Tag(8012u16))) && <Option<String> as zvt_builder::ZvtSerializerImpl<length::Tlv, encoding::Hex, zvt_builder::encoding::Default>>::ser_pre(&v.sub_type, Some(zvt_builder::Tag(8013u16))) && <Option<String> as zvt_builder::ZvtSerializerImpl<length::Tlv, encoding::Hex, zvt_builder::encoding::Default>>::ser_pre(&v.atqa, Some(zvt_builder::Tag(8015u16))) && <Option<u8> as zvt_builder::ZvtSerializerImpl<length::Tlv, encoding::Default, zvt_builder::encoding::Default>>::ser_pre(&v.sak, Some(zvt_builder::Tag(8016u16))) && <Vec<Subs> as zvt_builder::ZvtSerializerImpl<length::Tlv, encoding::Default, zvt_builder::encoding::Default>>::ser_pre(&v.subs, Some(zvt_builder::Tag(96u16))) && <Option<SubsOnCard> as zvt_builder::ZvtSerializerImpl<length::Tlv, encoding::Default, zvt_builder::encoding::Default>>::ser_pre(&v.subs_on_card, Some(zvt_builder::Tag(98u16))) }
        open spec fn canon(v: &StatusInformation) -> bool { false }
        /// layout table (spec/tables/layout.json): the fields in order, each under its tag / length style / encoding
        open spec fn spec_enc(v: &StatusInformation) -> Seq<u8> { <Option<String> as zvt_builder::ZvtSerializerImpl<length::Tlv, encoding::Hex, zvt_builder::encoding::Default>>::spec_ser_tagged(&v.uuid, Some(zvt_builder::Tag(76u16))) + <Option<usize> as zvt_builder::ZvtSerializerImpl<length::Tlv, encoding::Bcd, zvt_builder::encoding::Default>>::spec_ser_tagged(&v.maximum_pre_autorisation, Some(zvt_builder::Tag(7947u16))) + <Option<String> as zvt_builder::ZvtSerializerImpl<length::Tlv, encoding::Hex, zvt_builder::encoding::Default>>::spec_ser_tagged(&v.card_identification_item, Some(zvt_builder::Tag(7956u16))) + <Option<String> as zvt_builder::ZvtSerializerImpl<length::Tlv, encoding::Hex, zvt_builder::encoding::Default>>::spec_ser_tagged(&v.ats, Some(zvt_builder::Tag(8005u16))) + <Option<u8> as zvt_builder::ZvtSerializerImpl<length::Tlv, encoding::Default, zvt_builder::encoding::Default>>::spec_ser_tagged(&v.card_type, Some(zvt_builder::Tag(8012u16))) + <Option<String> as zvt_builder::ZvtSerializerImpl<length::Tlv, encoding::Hex, zvt_builder::encoding::Default>>::spec_ser_tagged(&v.sub_type, Some(zvt_builder::Tag(8013u16))) + <Option<String> as zvt_builder::ZvtSerializerImpl<length::Tlv, encoding::Hex, zvt_builder::encoding::Default>>::spec_ser_tagged(&v.atqa, Some(zvt_builder::Tag(8015u16))) + <Option<u8> as zvt_builder::ZvtSerializerImpl<length::Tlv, encoding::Default, zvt_builder::encoding::Default>>::spec_ser_tagged(&v.sak, Some(zvt_builder::Tag(8016u16))) + <Vec<Subs> as zvt_builder::ZvtSerializerImpl<length::Tlv, encoding::Default, zvt_builder::encoding::Default>>::spec_ser_tagged(&v.subs, Some(zvt_builder::Tag(96u16))) + <Option<SubsOnCard> as zvt_builder::ZvtSerializerImpl<length::Tlv, encoding::Default, zvt_builder::encoding::Default>>::spec_ser_tagged(&v.subs_on_card, Some(zvt_builder::Tag(98u16))) }
        uninterp spec fn spec_dec(b: Seq<u8>) -> Option<(StatusInformation, int)>;
        open spec fn progresses() -> bool { false }
        open spec fn self_delimiting() -> bool { false }
        open spec fn dec_rel(b: Seq<u8>, v: &StatusInformation, k: int) -> bool { true }
        open spec fn dec_total(b: Seq<u8>) -> bool { false }
        /// the tag loop stops only at the end of the input, in front of something that is no tag, or in front of a tag that
        /// is not one of this struct's non-repeatable fields
        open spec fn dec_stop(rest: Seq<u8>) -> bool { rest.len() == 0 || (match <zvt_builder::encoding::Default as zvt_builder::encoding::Encoding<zvt_builder::Tag>>::spec_dec(rest) { None => true, Some((t, _)) => t.0 != 76u16 && t.0 != 7947u16 && t.0 != 7956u16 && t.0 != 8005u16 && t.0 != 8012u16 && t.0 != 8013u16 && t.0 != 8015u16 && t.0 != 8016u16 && t.0 != 98u16 }) }
        /// the tag loop is specified by totality and frame clauses only
        open spec fn functional() -> bool { false }
        //@ fn exp:zvt | impl zvt_builder::encoding::Encoding<StatusInformation> for zvt_builder::encoding::Default | encode | mod=packets::tlv props=C03,~C01
        //@ end
        //@ fn exp:zvt | impl zvt_builder::encoding::Encoding<StatusInformation> for zvt_builder::encoding::Default | decode | mod=packets::tlv all-loops props=C02,C14
        //@ loop 0
                invariant
                    crate::is_tail(bytes@, bytes0), crate::frame::tail_base(bytes0), bytes@.len() <= bytes0.len(),
                    curr_len <= usize::MAX,
        //@ tag tags.bookkeeping C13
                    actual_tags@ =~= seen,
                    required_tags@ =~= Set::<u16>::empty().difference(seen),
        //@ tag tags.stop C13
                    curr_len == bytes@.len() ==> <zvt_builder::encoding::Default as zvt_builder::encoding::Encoding<StatusInformation>>::dec_stop(bytes@),
                ensures
                    <zvt_builder::encoding::Default as zvt_builder::encoding::Encoding<StatusInformation>>::dec_stop(bytes@),
        //@ tag tags.loop.decreases C02
                decreases bytes@.len() + (if curr_len != bytes@.len() { 1nat } else { 0nat }),
        //@ entry
            let ghost bytes0 = bytes@;
            let ghost mut seen: Set<u16> = Set::<u16>::empty();
            proof { lemma_slice_len_le_isize_max(bytes); crate::frame::lemma_tail_base(bytes0); }
        //@ before (uuid,bytes)=<
        //@ tag tags.no_second_dispatch.uuid C13
            proof { assert(!seen.contains(76u16)); seen = seen.insert(76u16) ; }
        //@ before returnErr(zvt_builder::ZVTError::DuplicateTag(
        //@ tag tags.duplicate_error_is_true.uuid C13
            proof { assert(seen.contains(76u16)) ; }
        //@ before (maximum_pre_autorisation,bytes)=<
        //@ tag tags.no_second_dispatch.maximum_pre_autorisation C13
            proof { assert(!seen.contains(7947u16)); seen = seen.insert(7947u16) ; }
        //@ before returnErr(zvt_builder::ZVTError::DuplicateTag(
        //@ tag tags.duplicate_error_is_true.maximum_pre_autorisation C13
            proof { assert(seen.contains(7947u16)) ; }
        //@ before (card_identification_item,bytes)=<
        //@ tag tags.no_second_dispatch.card_identification_item C13
            proof { assert(!seen.contains(7956u16)); seen = seen.insert(7956u16) ; }
        //@ before returnErr(zvt_builder::ZVTError::DuplicateTag(
        //@ tag tags.duplicate_error_is_true.card_identification_item C13
            proof { assert(seen.contains(7956u16)) ; }
        //@ before (ats,bytes)=<
        //@ tag tags.no_second_dispatch.ats C13
            proof { assert(!seen.contains(8005u16)); seen = seen.insert(8005u16) ; }
        //@ before returnErr(zvt_builder::ZVTError::DuplicateTag(
        //@ tag tags.duplicate_error_is_true.ats C13
            proof { assert(seen.contains(8005u16)) ; }
        //@ before (card_type,bytes)=<
        //@ tag tags.no_second_dispatch.card_type C13
            proof { assert(!seen.contains(8012u16)); seen = seen.insert(8012u16) ; }
        //@ before returnErr(zvt_builder::ZVTError::DuplicateTag(
        //@ tag tags.duplicate_error_is_true.card_type C13
            proof { assert(seen.contains(8012u16)) ; }
        //@ before (sub_type,bytes)=<
        //@ tag tags.no_second_dispatch.sub_type C13
            proof { assert(!seen.contains(8013u16)); seen = seen.insert(8013u16) ; }
        //@ before returnErr(zvt_builder::ZVTError::DuplicateTag(
        //@ tag tags.duplicate_error_is_true.sub_type C13
            proof { assert(seen.contains(8013u16)) ; }
        //@ before (atqa,bytes)=<
        //@ tag tags.no_second_dispatch.atqa C13
            proof { assert(!seen.contains(8015u16)); seen = seen.insert(8015u16) ; }
        //@ before returnErr(zvt_builder::ZVTError::DuplicateTag(
        //@ tag tags.duplicate_error_is_true.atqa C13
            proof { assert(seen.contains(8015u16)) ; }
        //@ before (sak,bytes)=<
        //@ tag tags.no_second_dispatch.sak C13
            proof { assert(!seen.contains(8016u16)); seen = seen.insert(8016u16) ; }
        //@ before returnErr(zvt_builder::ZVTError::DuplicateTag(
        //@ tag tags.duplicate_error_is_true.sak C13
            proof { assert(seen.contains(8016u16)) ; }
        //@ before (subs,bytes)=<
        //@ tag tags.no_second_dispatch.subs C13
            proof { assert(!seen.contains(96u16)); seen = seen.insert(96u16) ; }
            let ghost b_pre = bytes@;
        //@ after (subs,bytes)=<
        //@ tag tags.stop C13
            proof { if curr_len == bytes@.len() { crate::frame::lemma_tail_same_len(bytes@, b_pre); } }
        //@ before returnErr(zvt_builder::ZVTError::DuplicateTag(
        //@ tag tags.duplicate_error_is_true.subs C13
            proof { assert(seen.contains(96u16)) ; }
        //@ before (subs_on_card,bytes)=<
        //@ tag tags.no_second_dispatch.subs_on_card C13
            proof { assert(!seen.contains(98u16)); seen = seen.insert(98u16) ; }
        //@ before returnErr(zvt_builder::ZVTError::DuplicateTag(
        //@ tag tags.duplicate_error_is_true.subs_on_card C13
            proof { assert(seen.contains(98u16)) ; }
        //@ before letmutas_vec
            let ghost req_left = required_tags@;
        //@ before returnErr(zvt_builder::ZVTError::MissingRequiredTags
        //@ tag tags.missing_names_all C13
            proof {
                assert(req_left =~= Set::<u16>::empty().difference(seen));
                assert forall|i: int| 0 <= i < as_vec@.len() implies Set::<u16>::empty().contains((#[trigger] as_vec@[i]).0) && !seen.contains(as_vec@[i].0) by {
                    assert(req_left.contains(as_vec@[i].0));
                }
                assert forall|t: u16| Set::<u16>::empty().contains(t) && !seen.contains(t) implies exists|i: int| 0 <= i < as_vec@.len() && (#[trigger] as_vec@[i]).0 == t by {
                    assert(req_left.contains(t));
                }
            }
        //@ tail
        //@ tag tags.ok_only_if_all_mandatory C13
            proof { assert(Set::<u16>::empty().subset_of(seen)); }
        //@ end
        proof fn law_dec_bounds(b: Seq<u8>) {}
        proof fn law_dec_frame(b: Seq<u8>, s: Seq<u8>) {}
        proof fn law_inverse(v: &StatusInformation) {}
    }

    // ------------------------------------------------------------------ packets::tlv::StatusEnquiry
    //@ item src:zvt/src/packets/tlv.rs | struct StatusEnquiry
    impl zvt_builder::encoding::Encoding<StatusEnquiry> for zvt_builder::encoding::Default {
        open spec fn enc_ok(v: &StatusEnquiry) -> bool { <Option<u8> as zvt_builder::ZvtSerializerImpl<length::Tlv, encoding::Default, zvt_builder::encoding::Default>>::ser_pre(&v.enable_extended_contactless_card_detection, Some(zvt_builder::Tag(8178u16))) }
        open spec fn canon(v: &StatusEnquiry) -> bool { false }
        /// layout table (spec/tables/layout.json): the fields in order, each under its tag / length style / encoding
        open spec fn spec_enc(v: &StatusEnquiry) -> Seq<u8> { <Option<u8> as zvt_builder::ZvtSerializerImpl<length::Tlv, encoding::Default, zvt_builder::encoding::Default>>::spec_ser_tagged(&v.enable_extended_contactless_card_detection, Some(zvt_builder::Tag(8178u16))) }
        uninterp spec fn spec_dec(b: Seq<u8>) -> Option<(StatusEnquiry, int)>;
        open spec fn progresses() -> bool { false }
        open spec fn self_delimiting() -> bool { false }
        open spec fn dec_rel(b: Seq<u8>, v: &StatusEnquiry, k: int) -> bool { true }
        open spec fn dec_total(b: Seq<u8>) -> bool { false }
        /// the tag loop stops only at the end of the input, in front of something that is no tag, or in front of a tag that
        /// is not one of this struct's non-repeatable fields
        open spec fn dec_stop(rest: Seq<u8>) -> bool { rest.len() == 0 || (match <zvt_builder::encoding::Default as zvt_builder::encoding::Encoding<zvt_builder::Tag>>::spec_dec(rest) { None => true, Some((t, _)) => t.0 != 8178u16 }) }
        /// the tag loop is specified by totality and frame clauses only
        open spec fn functional() -> bool { false }
        //@ fn exp:zvt | impl zvt_builder::encoding::Encoding<StatusEnquiry> for zvt_builder::encoding::Default | encode | mod=packets::tlv props=C03,~C01
        //@ end
        //@ fn exp:zvt | impl zvt_builder::encoding::Encoding<StatusEnquiry> for zvt_builder::encoding::Default | decode | mod=packets::tlv all-loops props=C02,C14
        //@ loop 0
                invariant
                    crate::is_tail(bytes@, bytes0), crate::frame::tail_base(bytes0), bytes@.len() <= bytes0.len(),
                    curr_len <= usize::MAX,
        //@ tag tags.bookkeeping C13
                    actual_tags@ =~= seen,
                    required_tags@ =~= Set::<u16>::empty().difference(seen),
        //@ tag tags.stop C13
                    curr_len == bytes@.len() ==> <zvt_builder::encoding::Default as zvt_builder::encoding::Encoding<StatusEnquiry>>::dec_stop(bytes@),
                ensures
                    <zvt_builder::encoding::Default as zvt_builder::encoding::Encoding<StatusEnquiry>>::dec_stop(bytes@),
        //@ tag tags.loop.decreases C02
                decreases bytes@.len() + (if curr_len != bytes@.len() { 1nat } else { 0nat }),
        //@ entry
            let ghost bytes0 = bytes@;
            let ghost mut seen: Set<u16> = Set::<u16>::empty();
            proof { lemma_slice_len_le_isize_max(bytes); crate::frame::lemma_tail_base(bytes0); }
        //@ before (enable_extended_contactless_card_detection,bytes)=<
        //@ tag tags.no_second_dispatch.enable_extended_contactless_card_detection C13
            proof { assert(!seen.contains(8178u16)); seen = seen.insert(8178u16) ; }
        //@ before returnErr(zvt_builder::ZVTError::DuplicateTag(
        //@ tag tags.duplicate_error_is_true.enable_extended_contactless_card_detection C13
            proof { assert(seen.contains(8178u16)) ; }
        //@ before letmutas_vec
            let ghost req_left = required_tags@;
        //@ before returnErr(zvt_builder::ZVTError::MissingRequiredTags
        //@ tag tags.missing_names_all C13
            proof {
                assert(req_left =~= Set::<u16>::empty().difference(seen));
                assert forall|i: int| 0 <= i < as_vec@.len() implies Set::<u16>::empty().contains((#[trigger] as_vec@[i]).0) && !seen.contains(as_vec@[i].0) by {
                    assert(req_left.contains(as_vec@[i].0));
                }
                assert forall|t: u16| Set::<u16>::empty().contains(t) && !seen.contains(t) implies exists|i: int| 0 <= i < as_vec@.len() && (#[trigger] as_vec@[i]).0 == t by {
                    assert(req_left.contains(t));
                }
            }
        //@ tail
        //@ tag tags.ok_only_if_all_mandatory C13
            proof { assert(Set::<u16>::empty().subset_of(seen)); }
        //@ end
        proof fn law_dec_bounds(b: Seq<u8>) {}
        proof fn law_dec_frame(b: Seq<u8>, s: Seq<u8>) {}
        proof fn law_inverse(v: &StatusEnquiry) {}
    }

    // ------------------------------------------------------------------ packets::tlv::DeviceInformation
    //@ item src:zvt/src/packets/tlv.rs | struct DeviceInformation
    impl zvt_builder::encoding::Encoding<DeviceInformation> for zvt_builder::encoding::Default {
        open spec fn enc_ok(v: &DeviceInformation) -> bool { <Option<String> as zvt_builder::ZvtSerializerImpl<length::Tlv, encoding::Default, zvt_builder::encoding::Default>>::ser_pre(&v.device_name, Some(zvt_builder::Tag(8000u16))) && <Option<String> as zvt_builder::ZvtSerializerImpl<length::Tlv, encoding::Default, zvt_builder::encoding::Default>>::ser_pre(&v.software_version, Some(zvt_builder::Tag(8001u16))) && <Option<usize> as zvt_builder::ZvtSerializerImpl<length::Tlv, encoding::Bcd, zvt_builder::encoding::Default>>::ser_pre(&v.serial_number, Some(zvt_builder::Tag(8002u16))) && <Option<u8> as zvt_builder::ZvtSerializerImpl<length::Tlv, encoding::Default, zvt_builder::encoding::Default>>::ser_pre(&v.device_state, Some(zvt_builder::Tag(8003u16))) }
        open spec fn canon(v: &DeviceInformation) -> bool { false }
        /// layout table (spec/tables/layout.json): the fields in order, each under its tag / length style / encoding
        open spec fn spec_enc(v: &DeviceInformation) -> Seq<u8> { <Option<String> as zvt_builder::ZvtSerializerImpl<length::Tlv, encoding::Default, zvt_builder::encoding::Default>>::spec_ser_tagged(&v.device_name, Some(zvt_builder::Tag(8000u16))) + <Option<String> as zvt_builder::ZvtSerializerImpl<length::Tlv, encoding::Default, zvt_builder::encoding::Default>>::spec_ser_tagged(&v.software_version, Some(zvt_builder::Tag(8001u16))) + <Option<usize> as zvt_builder::ZvtSerializerImpl<length::Tlv, encoding::Bcd, zvt_builder::encoding::Default>>::spec_ser_tagged(&v.serial_number, Some(zvt_builder::Tag(8002u16))) + <Option<u8> as zvt_builder::ZvtSerializerImpl<length::Tlv, encoding::Default, zvt_builder::encoding::Default>>::spec_ser_tagged(&v.device_state, Some(zvt_builder::Tag(8003u16))) }
        uninterp spec fn spec_dec(b: Seq<u8>) -> Option<(DeviceInformation, int)>;
        open spec fn progresses() -> bool { false }
        open spec fn self_delimiting() -> bool { false }
        open spec fn dec_rel(b: Seq<u8>, v: &DeviceInformation, k: int) -> bool { true }
        open spec fn dec_total(b: Seq<u8>) -> bool { false }
        /// the tag loop stops only at the end of the input, in front of something that is no tag, or in front of a tag that
        /// is not one of this struct's non-repeatable fields
        open spec fn dec_stop(rest: Seq<u8>) -> bool { rest.len() == 0 || (match <zvt_builder::encoding::Default as zvt_builder::encoding::Encoding<zvt_builder::Tag>>::spec_dec(rest) { None => true, Some((t, _)) => t.0 != 8000u16 && t.0 != 8001u16 && t.0 != 8002u16 && t.0 != 8003u16 }) }
        /// the tag loop is specified by totality and frame clauses only
        open spec fn functional() -> bool { false }
        //@ fn exp:zvt | impl zvt_builder::encoding::Encoding<DeviceInformation> for zvt_builder::encoding::Default | encode | mod=packets::tlv props=C03,~C01
        //@ end
        //@ fn exp:zvt | impl zvt_builder::encoding::Encoding<DeviceInformation> for zvt_builder::encoding::Default | decode | mod=packets::tlv all-loops props=C02,C14
        //@ loop 0
                invariant
                    crate::is_tail(bytes@, bytes0), crate::frame::tail_base(bytes0), bytes@.len() <= bytes0.len(),
                    curr_len <= usize::MAX,
        //@ tag tags.bookkeeping C13
                    actual_tags@ =~= seen,
                    required_tags@ =~= Set::<u16>::empty().difference(seen),
        //@ tag tags.stop C13
                    curr_len == bytes@.len() ==> <zvt_builder::encoding::Default as zvt_builder::encoding::Encoding<DeviceInformation>>::dec_stop(bytes@),
                ensures
                    <zvt_builder::encoding::Default as zvt_builder::encoding::Encoding<DeviceInformation>>::dec_stop(bytes@),
        //@ tag tags.loop.decreases C02
                decreases bytes@.len() + (if curr_len != bytes@.len() { 1nat } else { 0nat }),
        //@ entry
            let ghost bytes0 = bytes@;
            let ghost mut seen: Set<u16> = Set::<u16>::empty();
            proof { lemma_slice_len_le_isize_max(bytes); crate::frame::lemma_tail_base(bytes0); }
        //@ before (device_name,bytes)=<
        //@ tag tags.no_second_dispatch.device_name C13
            proof { assert(!seen.contains(8000u16)); seen = seen.insert(8000u16) ; }
        //@ before returnErr(zvt_builder::ZVTError::DuplicateTag(
        //@ tag tags.duplicate_error_is_true.device_name C13
            proof { assert(seen.contains(8000u16)) ; }
        //@ before (software_version,bytes)=<
        //@ tag tags.no_second_dispatch.software_version C13
            proof { assert(!seen.contains(8001u16)); seen = seen.insert(8001u16) ; }
        //@ before returnErr(zvt_builder::ZVTError::DuplicateTag(
        //@ tag tags.duplicate_error_is_true.software_version C13
            proof { assert(seen.contains(8001u16)) ; }
        //@ before (serial_number,bytes)=<
        //@ tag tags.no_second_dispatch.serial_number C13
            proof { assert(!seen.contains(8002u16)); seen = seen.insert(8002u16) ; }
        //@ before returnErr(zvt_builder::ZVTError::DuplicateTag(
        //@ tag tags.duplicate_error_is_true.serial_number C13
            proof { assert(seen.contains(8002u16)) ; }
        //@ before (device_state,bytes)=<
        //@ tag tags.no_second_dispatch.device_state C13
            proof { assert(!seen.contains(8003u16)); seen = seen.insert(8003u16) ; }
        //@ before returnErr(zvt_builder::ZVTError::DuplicateTag(
        //@ tag tags.duplicate_error_is_true.device_state C13
            proof { assert(seen.contains(8003u16)) ; }
        //@ before letmutas_vec
            let ghost req_left = required_tags@;
        //@ before returnErr(zvt_builder::ZVTError::MissingRequiredTags
        //@ tag tags.missing_names_all C13
            proof {
                assert(req_left =~= Set::<u16>::empty().difference(seen));
                assert forall|i: int| 0 <= i < as_vec@.len() implies Set::<u16>::empty().contains((#[trigger] as_vec@[i]).0) && !seen.contains(as_vec@[i].0) by {
                    assert(req_left.contains(as_vec@[i].0));
                }
                assert forall|t: u16| Set::<u16>::empty().contains(t) && !seen.contains(t) implies exists|i: int| 0 <= i < as_vec@.len() && (#[trigger] as_vec@[i]).0 == t by {
                    assert(req_left.contains(t));
                }
            }
        //@ tail
        //@ tag tags.ok_only_if_all_mandatory C13
            proof { assert(Set::<u16>::empty().subset_of(seen)); }
        //@ end
        proof fn law_dec_bounds(b: Seq<u8>) {}
        proof fn law_dec_frame(b: Seq<u8>, s: Seq<u8>) {}
        proof fn law_inverse(v: &DeviceInformation) {}
    }

    // ------------------------------------------------------------------ packets::tlv::ReceiptPrintoutCompletion
    //@ item src:zvt/src/packets/tlv.rs | struct ReceiptPrintoutCompletion
    impl zvt_builder::encoding::Encoding<ReceiptPrintoutCompletion> for zvt_builder::encoding::Default {
        open spec fn enc_ok(v: &ReceiptPrintoutCompletion) -> bool { <Option<usize> as zvt_builder::ZvtSerializerImpl<length::Tlv, encoding::Bcd, zvt_builder::encoding::Default>>::ser_pre(&v.terminal_id, Some(zvt_builder::Tag(8004u16))) && <Option<DeviceInformation> as zvt_builder::ZvtSerializerImpl<length::Tlv, encoding::Default, zvt_builder::encoding::Default>>::ser_pre(&v.device_information, Some(zvt_builder::Tag(228u16))) && <Option<NaiveDateTime> as zvt_builder::ZvtSerializerImpl<length::Tlv, encoding::Default, zvt_builder::encoding::Default>>::ser_pre(&v.date_time, Some(zvt_builder::Tag(52u16))) }
        open spec fn canon(v: &ReceiptPrintoutCompletion) -> bool { false }
        /// layout table (spec/tables/layout.json): the fields in order, each under its tag / length style / encoding
        open spec fn spec_enc(v: &ReceiptPrintoutCompletion) -> Seq<u8> { <Option<usize> as zvt_builder::ZvtSerializerImpl<length::Tlv, encoding::Bcd, zvt_builder::encoding::Default>>::spec_ser_tagged(&v.terminal_id, Some(zvt_builder::Tag(8004u16))) + <Option<DeviceInformation> as zvt_builder::ZvtSerializerImpl<length::Tlv, encoding::Default, zvt_builder::encoding::Default>>::spec_ser_tagged(&v.device_information, Some(zvt_builder::Tag(228u16))) + <Option<NaiveDateTime> as zvt_builder::ZvtSerializerImpl<length::Tlv, encoding::Default, zvt_builder::encoding::Default>>::spec_ser_tagged(&v.date_time, Some(zvt_builder::Tag(52u16))) }
        uninterp spec fn spec_dec(b: Seq<u8>) -> Option<(ReceiptPrintoutCompletion, int)>;
        open spec fn progresses() -> bool { false }
        open spec fn self_delimiting() -> bool { false }
        open spec fn dec_rel(b: Seq<u8>, v: &ReceiptPrintoutCompletion, k: int) -> bool { true }
        open spec fn dec_total(b: Seq<u8>) -> bool { false }
        /// the tag loop stops only at the end of the input, in front of something that is no tag, or in front of a tag that
        /// is not one of this struct's non-repeatable fields
        open spec fn dec_stop(rest: Seq<u8>) -> bool { rest.len() == 0 || (match <zvt_builder::encoding::Default as zvt_builder::encoding::Encoding<zvt_builder::Tag>>::spec_dec(rest) { None => true, Some((t, _)) => t.0 != 8004u16 && t.0 != 228u16 && t.0 != 52u16 }) }
        /// the tag loop is specified by totality and frame clauses only
        open spec fn functional() -> bool { false }
        //@ fn exp:zvt | impl zvt_builder::encoding::Encoding<ReceiptPrintoutCompletion> for zvt_builder::encoding::Default | encode | mod=packets::tlv props=C03,~C01
        //@ end
        //@ fn exp:zvt | impl zvt_builder::encoding::Encoding<ReceiptPrintoutCompletion> for zvt_builder::encoding::Default | decode | mod=packets::tlv all-loops props=C02,C14
        //@ loop 0
                invariant
                    crate::is_tail(bytes@, bytes0), crate::frame::tail_base(bytes0), bytes@.len() <= bytes0.len(),
                    curr_len <= usize::MAX,
        //@ tag tags.bookkeeping C13
                    actual_tags@ =~= seen,
                    required_tags@ =~= Set::<u16>::empty().difference(seen),
        //@ tag tags.stop C13
                    curr_len == bytes@.len() ==> <zvt_builder::encoding::Default as zvt_builder::encoding::Encoding<ReceiptPrintoutCompletion>>::dec_stop(bytes@),
                ensures
                    <zvt_builder::encoding::Default as zvt_builder::encoding::Encoding<ReceiptPrintoutCompletion>>::dec_stop(bytes@),
        //@ tag tags.loop.decreases C02
                decreases bytes@.len() + (if curr_len != bytes@.len() { 1nat } else { 0nat }),
        //@ entry
            let ghost bytes0 = bytes@;
            let ghost mut seen: Set<u16> = Set::<u16>::empty();
            proof { lemma_slice_len_le_isize_max(bytes); crate::frame::lemma_tail_base(bytes0); }
        //@ before (terminal_id,bytes)=<
        //@ tag tags.no_second_dispatch.terminal_id C13
            proof { assert(!seen.contains(8004u16)); seen = seen.insert(8004u16) ; }
        //@ before returnErr(zvt_builder::ZVTError::DuplicateTag(
        //@ tag tags.duplicate_error_is_true.terminal_id C13
            proof { assert(seen.contains(8004u16)) ; }
        //@ before (device_information,bytes)=<
        //@ tag tags.no_second_dispatch.device_information C13
            proof { assert(!seen.contains(228u16)); seen = seen.insert(228u16) ; }
        //@ before returnErr(zvt_builder::ZVTError::DuplicateTag(
        //@ tag tags.duplicate_error_is_true.device_information C13
            proof { assert(seen.contains(228u16)) ; }
        //@ before (date_time,bytes)=<
        //@ tag tags.no_second_dispatch.date_time C13
            proof { assert(!seen.contains(52u16)); seen = seen.insert(52u16) ; }
        //@ before returnErr(zvt_builder::ZVTError::DuplicateTag(
        //@ tag tags.duplicate_error_is_true.date_time C13
            proof { assert(seen.contains(52u16)) ; }
        //@ before letmutas_vec
            let ghost req_left = required_tags@;
        //@ before returnErr(zvt_builder::ZVTError::MissingRequiredTags
        //@ tag tags.missing_names_all C13
            proof {
                assert(req_left =~= Set::<u16>::empty().difference(seen));
                assert forall|i: int| 0 <= i < as_vec@.len() implies Set::<u16>::empty().contains((#[trigger] as_vec@[i]).0) && !seen.contains(as_vec@[i].0) by {
                    assert(req_left.contains(as_vec@[i].0));
                }
                assert forall|t: u16| Set::<u16>::empty().contains(t) && !seen.contains(t) implies exists|i: int| 0 <= i < as_vec@.len() && (#[trigger] as_vec@[i]).0 == t by {
                    assert(req_left.contains(t));
                }
            }
        //@ tail
        //@ tag tags.ok_only_if_all_mandatory C13
            proof { assert(Set::<u16>::empty().subset_of(seen)); }
        //@ end
        proof fn law_dec_bounds(b: Seq<u8>) {}
        proof fn law_dec_frame(b: Seq<u8>, s: Seq<u8>) {}
        proof fn law_inverse(v: &ReceiptPrintoutCompletion) {}
    }

    // ------------------------------------------------------------------ packets::tlv::ReservationAbort
    //@ item src:zvt/src/packets/tlv.rs | struct ReservationAbort
    impl zvt_builder::encoding::Encoding<ReservationAbort> for zvt_builder::encoding::Default {
        open spec fn enc_ok(v: &ReservationAbort) -> bool { <Option<usize> as zvt_builder::ZvtSerializerImpl<length::Tlv, encoding::Bcd, zvt_builder::encoding::Default>>::ser_pre(&v.extended_error_code, Some(zvt_builder::Tag(7958u16))) && <Option<String> as zvt_builder::ZvtSerializerImpl<length::Tlv, encoding::Default, zvt_builder::encoding::Default>>::ser_pre(&v.extended_error_text, Some(zvt_builder::Tag(7959u16))) }
        open spec fn canon(v: &ReservationAbort) -> bool { false }
        /// layout table (spec/tables/layout.json): the fields in order, each under its tag / length style / encoding
        open spec fn spec_enc(v: &ReservationAbort) -> Seq<u8> { <Option<usize> as zvt_builder::ZvtSerializerImpl<length::Tlv, encoding::Bcd, zvt_builder::encoding::Default>>::spec_ser_tagged(&v.extended_error_code, Some(zvt_builder::Tag(7958u16))) + <Option<String> as zvt_builder::ZvtSerializerImpl<length::Tlv, encoding::Default, zvt_builder::encoding::Default>>::spec_ser_tagged(&v.extended_error_text, Some(zvt_builder::Tag(7959u16))) }
        uninterp spec fn spec_dec(b: Seq<u8>) -> Option<(ReservationAbort, int)>;
        open spec fn progresses() -> bool { false }
        open spec fn self_delimiting() -> bool { false }
        open spec fn dec_rel(b: Seq<u8>, v: &ReservationAbort, k: int) -> bool { true }
        open spec fn dec_total(b: Seq<u8>) -> bool { false }
        /// the tag loop stops only at the end of the input, in front of something that is no tag, or in front of a tag that
        /// is not one of this struct's non-repeatable fields
        open spec fn dec_stop(rest: Seq<u8>) -> bool { rest.len() == 0 || (match <zvt_builder::encoding::Default as zvt_builder::encoding::Encoding<zvt_builder::Tag>>::spec_dec(rest) { None => true, Some((t, _)) => t.0 != 7958u16 && t.0 != 7959u16 }) }
        /// the tag loop is specified by totality and frame clauses only
        open spec fn functional() -> bool { false }
        //@ fn exp:zvt | impl zvt_builder::encoding::Encoding<ReservationAbort> for zvt_builder::encoding::Default | encode | mod=packets::tlv props=C03,~C01
        //@ end
        //@ fn exp:zvt | impl zvt_builder::encoding::Encoding<ReservationAbort> for zvt_builder::encoding::Default | decode | mod=packets::tlv all-loops props=C02,C14
        //@ loop 0
                invariant
                    crate::is_tail(bytes@, bytes0), crate::frame::tail_base(bytes0), bytes@.len() <= bytes0.len(),
                    curr_len <= usize::MAX,
        //@ tag tags.bookkeeping C13
                    actual_tags@ =~= seen,
                    required_tags@ =~= Set::<u16>::empty().difference(seen),
        //@ tag tags.stop C13
                    curr_len == bytes@.len() ==> <zvt_builder::encoding::Default as zvt_builder::encoding::Encoding<ReservationAbort>>::dec_stop(bytes@),
                ensures
                    <zvt_builder::encoding::Default as zvt_builder::encoding::Encoding<ReservationAbort>>::dec_stop(bytes@),
        //@ tag tags.loop.decreases C02
                decreases bytes@.len() + (if curr_len != bytes@.len() { 1nat } else { 0nat }),
        //@ entry
            let ghost bytes0 = bytes@;
            let ghost mut seen: Set<u16> = Set::<u16>::empty();
            proof { lemma_slice_len_le_isize_max(bytes); crate::frame::lemma_tail_base(bytes0); }
        //@ before (extended_error_code,bytes)=<
        //@ tag tags.no_second_dispatch.extended_error_code C13
            proof { assert(!seen.contains(7958u16)); seen = seen.insert(7958u16) ; }
        //@ before returnErr(zvt_builder::ZVTError::DuplicateTag(
        //@ tag tags.duplicate_error_is_true.extended_error_code C13
            proof { assert(seen.contains(7958u16)) ; }
        //@ before (extended_error_text,bytes)=<
        //@ tag tags.no_second_dispatch.extended_error_text C13
            proof { assert(!seen.contains(7959u16)); seen = seen.insert(7959u16) ; }
        //@ before returnErr(zvt_builder::ZVTError::DuplicateTag(
        //@ tag tags.duplicate_error_is_true.extended_error_text C13
            proof { assert(seen.contains(7959u16)) ; }
        //@ before letmutas_vec
            let ghost req_left = required_tags@;
        //@ before returnErr(zvt_builder::ZVTError::MissingRequiredTags
        //@ tag tags.missing_names_all C13
            proof {
                assert(req_left =~= Set::<u16>::empty().difference(seen));
                assert forall|i: int| 0 <= i < as_vec@.len() implies Set::<u16>::empty().contains((#[trigger] as_vec@[i]).0) && !seen.contains(as_vec@[i].0) by {
                    assert(req_left.contains(as_vec@[i].0));
                }
                assert forall|t: u16| Set::<u16>::empty().contains(t) && !seen.contains(t) implies exists|i: int| 0 <= i < as_vec@.len() && (#[trigger] as_vec@[i]).0 == t by {
                    assert(req_left.contains(t));
                }
            }
        //@ tail
        //@ tag tags.ok_only_if_all_mandatory C13
            proof { assert(Set::<u16>::empty().subset_of(seen)); }
        //@ end
        proof fn law_dec_bounds(b: Seq<u8>) {}
        proof fn law_dec_frame(b: Seq<u8>, s: Seq<u8>) {}
        proof fn law_inverse(v: &ReservationAbort) {}
    }

    // ------------------------------------------------------------------ packets::tlv::Bmp60
    //@ item src:zvt/src/packets/tlv.rs | struct Bmp60
    impl zvt_builder::encoding::Encoding<Bmp60> for zvt_builder::encoding::Default {
        open spec fn enc_ok(v: &Bmp60) -> bool { <String as zvt_builder::ZvtSerializerImpl<length::Tlv, encoding::Default, zvt_builder::encoding::Default>>::ser_pre(&v.bmp_prefix, Some(zvt_builder::Tag(8034u16))) && <String as zvt_builder::ZvtSerializerImpl<length::Tlv, encoding::Default, zvt_builder::encoding::Default>>::ser_pre(&v.bmp_data, Some(zvt_builder::Tag(8035u16))) }
        open spec fn canon(v: &Bmp60) -> bool { false }
        /// layout table (spec/tables/layout.json): the fields in order, each under its tag / length style / encoding
        open spec fn spec_enc(v: &Bmp60) -> Seq<u8> { <String as zvt_builder::ZvtSerializerImpl<length::Tlv, encoding::Default, zvt_builder::encoding::Default>>::spec_ser_tagged(&v.bmp_prefix, Some(zvt_builder::Tag(8034u16))) + <String as zvt_builder::ZvtSerializerImpl<length::Tlv, encoding::Default, zvt_builder::encoding::Default>>::spec_ser_tagged(&v.bmp_data, Some(zvt_builder::Tag(8035u16))) }
        uninterp spec fn spec_dec(b: Seq<u8>) -> Option<(Bmp60, int)>;
        open spec fn progresses() -> bool { false }
        open spec fn self_delimiting() -> bool { false }
        open spec fn dec_rel(b: Seq<u8>, v: &Bmp60, k: int) -> bool { true }
        open spec fn dec_total(b: Seq<u8>) -> bool { false }
        /// the tag loop stops only at the end of the input, in front of something that is no tag, or in front of a tag that
        /// is not one of this struct's non-repeatable fields
        open spec fn dec_stop(rest: Seq<u8>) -> bool { rest.len() == 0 || (match <zvt_builder::encoding::Default as zvt_builder::encoding::Encoding<zvt_builder::Tag>>::spec_dec(rest) { None => true, Some((t, _)) => t.0 != 8034u16 && t.0 != 8035u16 }) }
        /// the tag loop is specified by totality and frame clauses only
        open spec fn functional() -> bool { false }
        //@ fn exp:zvt | impl zvt_builder::encoding::Encoding<Bmp60> for zvt_builder::encoding::Default | encode | mod=packets::tlv props=C03,~C01
        //@ end
        //@ fn exp:zvt | impl zvt_builder::encoding::Encoding<Bmp60> for zvt_builder::encoding::Default | decode | mod=packets::tlv all-loops props=C02,C14
        //@ loop 0
                invariant
                    crate::is_tail(bytes@, bytes0), crate::frame::tail_base(bytes0), bytes@.len() <= bytes0.len(),
                    curr_len <= usize::MAX,
        //@ tag tags.bookkeeping C13
                    actual_tags@ =~= seen,
                    required_tags@ =~= set![8034u16, 8035u16].difference(seen),
        //@ tag tags.stop C13
                    curr_len == bytes@.len() ==> <zvt_builder::encoding::Default as zvt_builder::encoding::Encoding<Bmp60>>::dec_stop(bytes@),
                ensures
                    <zvt_builder::encoding::Default as zvt_builder::encoding::Encoding<Bmp60>>::dec_stop(bytes@),
        //@ tag tags.loop.decreases C02
                decreases bytes@.len() + (if curr_len != bytes@.len() { 1nat } else { 0nat }),
        //@ entry
            let ghost bytes0 = bytes@;
            let ghost mut seen: Set<u16> = Set::<u16>::empty();
            proof { lemma_slice_len_le_isize_max(bytes); crate::frame::lemma_tail_base(bytes0); }
        //@ before (bmp_prefix,bytes)=<
        //@ tag tags.no_second_dispatch.bmp_prefix C13
            proof { assert(!seen.contains(8034u16)); seen = seen.insert(8034u16) ; }
        //@ before returnErr(zvt_builder::ZVTError::DuplicateTag(
        //@ tag tags.duplicate_error_is_true.bmp_prefix C13
            proof { assert(seen.contains(8034u16)) ; }
        //@ before (bmp_data,bytes)=<
        //@ tag tags.no_second_dispatch.bmp_data C13
            proof { assert(!seen.contains(8035u16)); seen = seen.insert(8035u16) ; }
        //@ before returnErr(zvt_builder::ZVTError::DuplicateTag(
        //@ tag tags.duplicate_error_is_true.bmp_data C13
            proof { assert(seen.contains(8035u16)) ; }
        //@ before letmutas_vec
            let ghost req_left = required_tags@;
        //@ before returnErr(zvt_builder::ZVTError::MissingRequiredTags
        //@ tag tags.missing_names_all C13
            proof {
                assert(req_left =~= set![8034u16, 8035u16].difference(seen));
                assert forall|i: int| 0 <= i < as_vec@.len() implies set![8034u16, 8035u16].contains((#[trigger] as_vec@[i]).0) && !seen.contains(as_vec@[i].0) by {
                    assert(req_left.contains(as_vec@[i].0));
                }
                assert forall|t: u16| set![8034u16, 8035u16].contains(t) && !seen.contains(t) implies exists|i: int| 0 <= i < as_vec@.len() && (#[trigger] as_vec@[i]).0 == t by {
                    assert(req_left.contains(t));
                }
            }
        //@ tail
        //@ tag tags.ok_only_if_all_mandatory C13
            proof { assert(!set![8034u16, 8035u16].difference(seen).contains(8034u16)); assert(!set![8034u16, 8035u16].difference(seen).contains(8035u16)); assert(set![8034u16, 8035u16].subset_of(seen)); }
        //@ end
        proof fn law_dec_bounds(b: Seq<u8>) {}
        proof fn law_dec_frame(b: Seq<u8>, s: Seq<u8>) {}
        proof fn law_inverse(v: &Bmp60) {}
    }

    // ------------------------------------------------------------------ packets::tlv::AuthData
    //@ item src:zvt/src/packets/tlv.rs | struct AuthData
    impl zvt_builder::encoding::Encoding<AuthData> for zvt_builder::encoding::Default {
        open spec fn enc_ok(v: &AuthData) -> bool { <Option<Bmp60> as zvt_builder::ZvtSerializerImpl<length::Tlv, encoding::Default, zvt_builder::encoding::Default>>::ser_pre(&v.bmp_data, Some(zvt_builder::Tag(233u16))) }
        open spec fn canon(v: &AuthData) -> bool { false }
        /// layout table (spec/tables/layout.json): the fields in order, each under its tag / length style / encoding
        open spec fn spec_enc(v: &AuthData) -> Seq<u8> { <Option<Bmp60> as zvt_builder::ZvtSerializerImpl<length::Tlv, encoding::Default, zvt_builder::encoding::Default>>::spec_ser_tagged(&v.bmp_data, Some(zvt_builder::Tag(233u16))) }
        uninterp spec fn spec_dec(b: Seq<u8>) -> Option<(AuthData, int)>;
        open spec fn progresses() -> bool { false }
        open spec fn self_delimiting() -> bool { false }
        open spec fn dec_rel(b: Seq<u8>, v: &AuthData, k: int) -> bool { true }
        open spec fn dec_total(b: Seq<u8>) -> bool { false }
        /// the tag loop stops only at the end of the input, in front of something that is no tag, or in front of a tag that
        /// is not one of this struct's non-repeatable fields
        open spec fn dec_stop(rest: Seq<u8>) -> bool { rest.len() == 0 || (match <zvt_builder::encoding::Default as zvt_builder::encoding::Encoding<zvt_builder::Tag>>::spec_dec(rest) { None => true, Some((t, _)) => t.0 != 233u16 }) }
        /// the tag loop is specified by totality and frame clauses only
        open spec fn functional() -> bool { false }
        //@ fn exp:zvt | impl zvt_builder::encoding::Encoding<AuthData> for zvt_builder::encoding::Default | encode | mod=packets::tlv props=C03,~C01
        //@ end
        //@ fn exp:zvt | impl zvt_builder::encoding::Encoding<AuthData> for zvt_builder::encoding::Default | decode | mod=packets::tlv all-loops props=C02,C14
        //@ loop 0
                invariant
                    crate::is_tail(bytes@, bytes0), crate::frame::tail_base(bytes0), bytes@.len() <= bytes0.len(),
                    curr_len <= usize::MAX,
        //@ tag tags.bookkeeping C13
                    actual_tags@ =~= seen,
                    required_tags@ =~= Set::<u16>::empty().difference(seen),
        //@ tag tags.stop C13
                    curr_len == bytes@.len() ==> <zvt_builder::encoding::Default as zvt_builder::encoding::Encoding<AuthData>>::dec_stop(bytes@),
                ensures
                    <zvt_builder::encoding::Default as zvt_builder::encoding::Encoding<AuthData>>::dec_stop(bytes@),
        //@ tag tags.loop.decreases C02
                decreases bytes@.len() + (if curr_len != bytes@.len() { 1nat } else { 0nat }),
        //@ entry
            let ghost bytes0 = bytes@;
            let ghost mut seen: Set<u16> = Set::<u16>::empty();
            proof { lemma_slice_len_le_isize_max(bytes); crate::frame::lemma_tail_base(bytes0); }
        //@ before (bmp_data,bytes)=<
        //@ tag tags.no_second_dispatch.bmp_data C13
            proof { assert(!seen.contains(233u16)); seen = seen.insert(233u16) ; }
        //@ before returnErr(zvt_builder::ZVTError::DuplicateTag(
        //@ tag tags.duplicate_error_is_true.bmp_data C13
            proof { assert(seen.contains(233u16)) ; }
        //@ before letmutas_vec
            let ghost req_left = required_tags@;
        //@ before returnErr(zvt_builder::ZVTError::MissingRequiredTags
        //@ tag tags.missing_names_all C13
            proof {
                assert(req_left =~= Set::<u16>::empty().difference(seen));
                assert forall|i: int| 0 <= i < as_vec@.len() implies Set::<u16>::empty().contains((#[trigger] as_vec@[i]).0) && !seen.contains(as_vec@[i].0) by {
                    assert(req_left.contains(as_vec@[i].0));
                }
                assert forall|t: u16| Set::<u16>::empty().contains(t) && !seen.contains(t) implies exists|i: int| 0 <= i < as_vec@.len() && (#[trigger] as_vec@[i]).0 == t by {
                    assert(req_left.contains(t));
                }
            }
        //@ tail
        //@ tag tags.ok_only_if_all_mandatory C13
            proof { assert(Set::<u16>::empty().subset_of(seen)); }
        //@ end
        proof fn law_dec_bounds(b: Seq<u8>) {}
        proof fn law_dec_frame(b: Seq<u8>, s: Seq<u8>) {}
        proof fn law_inverse(v: &AuthData) {}
    }

    // ------------------------------------------------------------------ packets::tlv::PreAuthData
    //@ item src:zvt/src/packets/tlv.rs | struct PreAuthData
    impl zvt_builder::encoding::Encoding<PreAuthData> for zvt_builder::encoding::Default {
        open spec fn enc_ok(v: &PreAuthData) -> bool { <Option<Bmp60> as zvt_builder::ZvtSerializerImpl<length::Tlv, encoding::Default, zvt_builder::encoding::Default>>::ser_pre(&v.bmp_data, Some(zvt_builder::Tag(233u16))) }
        open spec fn canon(v: &PreAuthData) -> bool { false }
        /// layout table (spec/tables/layout.json): the fields in order, each under its tag / length style / encoding
        open spec fn spec_enc(v: &PreAuthData) -> Seq<u8> { <Option<Bmp60> as zvt_builder::ZvtSerializerImpl<length::Tlv, encoding::Default, zvt_builder::encoding::Default>>::spec_ser_tagged(&v.bmp_data, Some(zvt_builder::Tag(233u16))) }
        uninterp spec fn spec_dec(b: Seq<u8>) -> Option<(PreAuthData, int)>;
        open spec fn progresses() -> bool { false }
        open spec fn self_delimiting() -> bool { false }
        open spec fn dec_rel(b: Seq<u8>, v: &PreAuthData, k: int) -> bool { true }
        open spec fn dec_total(b: Seq<u8>) -> bool { false }
        /// the tag loop stops only at the end of the input, in front of something that is no tag, or in front of a tag that
        /// is not one of this struct's non-repeatable fields
        open spec fn dec_stop(rest: Seq<u8>) -> bool { rest.len() == 0 || (match <zvt_builder::encoding::Default as zvt_builder::encoding::Encoding<zvt_builder::Tag>>::spec_dec(rest) { None => true, Some((t, _)) => t.0 != 233u16 }) }
        /// the tag loop is specified by totality and frame clauses only
        open spec fn functional() -> bool { false }
        //@ fn exp:zvt | impl zvt_builder::encoding::Encoding<PreAuthData> for zvt_builder::encoding::Default | encode | mod=packets::tlv props=C03,~C01
        //@ end
        //@ fn exp:zvt | impl zvt_builder::encoding::Encoding<PreAuthData> for zvt_builder::encoding::Default | decode | mod=packets::tlv all-loops props=C02,C14
        //@ loop 0
                invariant
                    crate::is_tail(bytes@, bytes0), crate::frame::tail_base(bytes0), bytes@.len() <= bytes0.len(),
                    curr_len <= usize::MAX,
        //@ tag tags.bookkeeping C13
                    actual_tags@ =~= seen,
                    required_tags@ =~= Set::<u16>::empty().difference(seen),
        //@ tag tags.stop C13
                    curr_len == bytes@.len() ==> <zvt_builder::encoding::Default as zvt_builder::encoding::Encoding<PreAuthData>>::dec_stop(bytes@),
                ensures
                    <zvt_builder::encoding::Default as zvt_builder::encoding::Encoding<PreAuthData>>::dec_stop(bytes@),
        //@ tag tags.loop.decreases C02
                decreases bytes@.len() + (if curr_len != bytes@.len() { 1nat } else { 0nat }),
        //@ entry
            let ghost bytes0 = bytes@;
            let ghost mut seen: Set<u16> = Set::<u16>::empty();
            proof { lemma_slice_len_le_isize_max(bytes); crate::frame::lemma_tail_base(bytes0); }
        //@ before (bmp_data,bytes)=<
        //@ tag tags.no_second_dispatch.bmp_data C13
            proof { assert(!seen.contains(233u16)); seen = seen.insert(233u16) ; }
        //@ before returnErr(zvt_builder::ZVTError::DuplicateTag(
        //@ tag tags.duplicate_error_is_true.bmp_data C13
            proof { assert(seen.contains(233u16)) ; }
        //@ before letmutas_vec
            let ghost req_left = required_tags@;
        //@ before returnErr(zvt_builder::ZVTError::MissingRequiredTags
        //@ tag tags.missing_names_all C13
            proof {
                assert(req_left =~= Set::<u16>::empty().difference(seen));
                assert forall|i: int| 0 <= i < as_vec@.len() implies Set::<u16>::empty().contains((#[trigger] as_vec@[i]).0) && !seen.contains(as_vec@[i].0) by {
                    assert(req_left.contains(as_vec@[i].0));
                }
                assert forall|t: u16| Set::<u16>::empty().contains(t) && !seen.contains(t) implies exists|i: int| 0 <= i < as_vec@.len() && (#[trigger] as_vec@[i]).0 == t by {
                    assert(req_left.contains(t));
                }
            }
        //@ tail
        //@ tag tags.ok_only_if_all_mandatory C13
            proof { assert(Set::<u16>::empty().subset_of(seen)); }
        //@ end
        proof fn law_dec_bounds(b: Seq<u8>) {}
        proof fn law_dec_frame(b: Seq<u8>, s: Seq<u8>) {}
        proof fn law_inverse(v: &PreAuthData) {}
    }

    // ------------------------------------------------------------------ packets::tlv::Diagnosis
    //@ item src:zvt/src/packets/tlv.rs | struct Diagnosis
    impl zvt_builder::encoding::Encoding<Diagnosis> for zvt_builder::encoding::Default {
        open spec fn enc_ok(v: &Diagnosis) -> bool { <Option<u8> as zvt_builder::ZvtSerializerImpl<length::Tlv, encoding::Default, zvt_builder::encoding::Default>>::ser_pre(&v.diagnosis_type, Some(zvt_builder::Tag(27u16))) }
        open spec fn canon(v: &Diagnosis) -> bool { false }
        /// layout table (spec/tables/layout.json): the fields in order, each under its tag / length style / encoding
        open spec fn spec_enc(v: &Diagnosis) -> Seq<u8> { <Option<u8> as zvt_builder::ZvtSerializerImpl<length::Tlv, encoding::Default, zvt_builder::encoding::Default>>::spec_ser_tagged(&v.diagnosis_type, Some(zvt_builder::Tag(27u16))) }
        uninterp spec fn spec_dec(b: Seq<u8>) -> Option<(Diagnosis, int)>;
        open spec fn progresses() -> bool { false }
        open spec fn self_delimiting() -> bool { false }
        open spec fn dec_rel(b: Seq<u8>, v: &Diagnosis, k: int) -> bool { true }
        open spec fn dec_total(b: Seq<u8>) -> bool { false }
        /// the tag loop stops only at the end of the input, in front of something that is no tag, or in front of a tag that
        /// is not one of this struct's non-repeatable fields
        open spec fn dec_stop(rest: Seq<u8>) -> bool { rest.len() == 0 || (match <zvt_builder::encoding::Default as zvt_builder::encoding::Encoding<zvt_builder::Tag>>::spec_dec(rest) { None => true, Some((t, _)) => t.0 != 27u16 }) }
        /// the tag loop is specified by totality and frame clauses only
        open spec fn functional() -> bool { false }
        //@ fn exp:zvt | impl zvt_builder::encoding::Encoding<Diagnosis> for zvt_builder::encoding::Default | encode | mod=packets::tlv props=C03,~C01
        //@ end
        //@ fn exp:zvt | impl zvt_builder::encoding::Encoding<Diagnosis> for zvt_builder::encoding::Default | decode | mod=packets::tlv all-loops props=C02,C14
        //@ loop 0
                invariant
                    crate::is_tail(bytes@, bytes0), crate::frame::tail_base(bytes0), bytes@.len() <= bytes0.len(),
                    curr_len <= usize::MAX,
        //@ tag tags.bookkeeping C13
                    actual_tags@ =~= seen,
                    required_tags@ =~= Set::<u16>::empty().difference(seen),
        //@ tag tags.stop C13
                    curr_len == bytes@.len() ==> <zvt_builder::encoding::Default as zvt_builder::encoding::Encoding<Diagnosis>>::dec_stop(bytes@),
                ensures
                    <zvt_builder::encoding::Default as zvt_builder::encoding::Encoding<Diagnosis>>::dec_stop(bytes@),
        //@ tag tags.loop.decreases C02
                decreases bytes@.len() + (if curr_len != bytes@.len() { 1nat } else { 0nat }),
        //@ entry
            let ghost bytes0 = bytes@;
            let ghost mut seen: Set<u16> = Set::<u16>::empty();
            proof { lemma_slice_len_le_isize_max(bytes); crate::frame::lemma_tail_base(bytes0); }
        //@ before (diagnosis_type,bytes)=<
        //@ tag tags.no_second_dispatch.diagnosis_type C13
            proof { assert(!seen.contains(27u16)); seen = seen.insert(27u16) ; }
        //@ before returnErr(zvt_builder::ZVTError::DuplicateTag(
        //@ tag tags.duplicate_error_is_true.diagnosis_type C13
            proof { assert(seen.contains(27u16)) ; }
        //@ before letmutas_vec
            let ghost req_left = required_tags@;
        //@ before returnErr(zvt_builder::ZVTError::MissingRequiredTags
        //@ tag tags.missing_names_all C13
            proof {
                assert(req_left =~= Set::<u16>::empty().difference(seen));
                assert forall|i: int| 0 <= i < as_vec@.len() implies Set::<u16>::empty().contains((#[trigger] as_vec@[i]).0) && !seen.contains(as_vec@[i].0) by {
                    assert(req_left.contains(as_vec@[i].0));
                }
                assert forall|t: u16| Set::<u16>::empty().contains(t) && !seen.contains(t) implies exists|i: int| 0 <= i < as_vec@.len() && (#[trigger] as_vec@[i]).0 == t by {
                    assert(req_left.contains(t));
                }
            }
        //@ tail
        //@ tag tags.ok_only_if_all_mandatory C13
            proof { assert(Set::<u16>::empty().subset_of(seen)); }
        //@ end
        proof fn law_dec_bounds(b: Seq<u8>) {}
        proof fn law_dec_frame(b: Seq<u8>, s: Seq<u8>) {}
        proof fn law_inverse(v: &Diagnosis) {}
    }

    // ------------------------------------------------------------------ packets::tlv::ReadCard
    //@ item src:zvt/src/packets/tlv.rs | struct ReadCard
    impl zvt_builder::encoding::Encoding<ReadCard> for zvt_builder::encoding::Default {
        open spec fn enc_ok(v: &ReadCard) -> bool { <Option<u8> as zvt_builder::ZvtSerializerImpl<length::Tlv, encoding::Default, zvt_builder::encoding::Default>>::ser_pre(&v.card_reading_control, Some(zvt_builder::Tag(7957u16))) && <Option<u8> as zvt_builder::ZvtSerializerImpl<length::Tlv, encoding::Default, zvt_builder::encoding::Default>>::ser_pre(&v.card_type, Some(zvt_builder::Tag(8032u16))) }
        open spec fn canon(v: &ReadCard) -> bool { false }
        /// layout table (spec/tables/layout.json): the fields in order, each under its tag / length style / encoding
        open spec fn spec_enc(v: &ReadCard) -> Seq<u8> { <Option<u8> as zvt_builder::ZvtSerializerImpl<length::Tlv, encoding::Default, zvt_builder::encoding::Default>>::spec_ser_tagged(&v.card_reading_control, Some(zvt_builder::Tag(7957u16))) + <Option<u8> as zvt_builder::ZvtSerializerImpl<length::Tlv, encoding::Default, zvt_builder::encoding::Default>>::spec_ser_tagged(&v.card_type, Some(zvt_builder::Tag(8032u16))) }
        uninterp spec fn spec_dec(b: Seq<u8>) -> Option<(ReadCard, int)>;
        open spec fn progresses() -> bool { false }
        open spec fn self_delimiting() -> bool { false }
        open spec fn dec_rel(b: Seq<u8>, v: &ReadCard, k: int) -> bool { true }
        open spec fn dec_total(b: Seq<u8>) -> bool { false }
        /// the tag loop stops only at the end of the input, in front of something that is no tag, or in front of a tag that
        /// is not one of this struct's non-repeatable fields
        open spec fn dec_stop(rest: Seq<u8>) -> bool { rest.len() == 0 || (match <zvt_builder::encoding::Default as zvt_builder::encoding::Encoding<zvt_builder::Tag>>::spec_dec(rest) { None => true, Some((t, _)) => t.0 != 7957u16 && t.0 != 8032u16 }) }
        /// the tag loop is specified by totality and frame clauses only
        open spec fn functional() -> bool { false }
        //@ fn exp:zvt | impl zvt_builder::encoding::Encoding<ReadCard> for zvt_builder::encoding::Default | encode | mod=packets::tlv props=C03,~C01
        //@ end
        //@ fn exp:zvt | impl zvt_builder::encoding::Encoding<ReadCard> for zvt_builder::encoding::Default | decode | mod=packets::tlv all-loops props=C02,C14
        //@ loop 0
                invariant
                    crate::is_tail(bytes@, bytes0), crate::frame::tail_base(bytes0), bytes@.len() <= bytes0.len(),
                    curr_len <= usize::MAX,
        //@ tag tags.bookkeeping C13
                    actual_tags@ =~= seen,
                    required_tags@ =~= Set::<u16>::empty().difference(seen),
        //@ tag tags.stop C13
                    curr_len == bytes@.len() ==> <zvt_builder::encoding::Default as zvt_builder::encoding::Encoding<ReadCard>>::dec_stop(bytes@),
                ensures
                    <zvt_builder::encoding::Default as zvt_builder::encoding::Encoding<ReadCard>>::dec_stop(bytes@),
        //@ tag tags.loop.decreases C02
                decreases bytes@.len() + (if curr_len != bytes@.len() { 1nat } else { 0nat }),
        //@ entry
            let ghost bytes0 = bytes@;
            let ghost mut seen: Set<u16> = Set::<u16>::empty();
            proof { lemma_slice_len_le_isize_max(bytes); crate::frame::lemma_tail_base(bytes0); }
        //@ before (card_reading_control,bytes)=<
        //@ tag tags.no_second_dispatch.card_reading_control C13
            proof { assert(!seen.contains(7957u16)); seen = seen.insert(7957u16) ; }
        //@ before returnErr(zvt_builder::ZVTError::DuplicateTag(
        //@ tag tags.duplicate_error_is_true.card_reading_control C13
            proof { assert(seen.contains(7957u16)) ; }
        //@ before (card_type,bytes)=<
        //@ tag tags.no_second_dispatch.card_type C13
            proof { assert(!seen.contains(8032u16)); seen = seen.insert(8032u16) ; }
        //@ before returnErr(zvt_builder::ZVTError::DuplicateTag(
        //@ tag tags.duplicate_error_is_true.card_type C13
            proof { assert(seen.contains(8032u16)) ; }
        //@ before letmutas_vec
            let ghost req_left = required_tags@;
        //@ before returnErr(zvt_builder::ZVTError::MissingRequiredTags
        //@ tag tags.missing_names_all C13
            proof {
                assert(req_left =~= Set::<u16>::empty().difference(seen));
                assert forall|i: int| 0 <= i < as_vec@.len() implies Set::<u16>::empty().contains((#[trigger] as_vec@[i]).0) && !seen.contains(as_vec@[i].0) by {
                    assert(req_left.contains(as_vec@[i].0));
                }
                assert forall|t: u16| Set::<u16>::empty().contains(t) && !seen.contains(t) implies exists|i: int| 0 <= i < as_vec@.len() && (#[trigger] as_vec@[i]).0 == t by {
                    assert(req_left.contains(t));
                }
            }
        //@ tail
        //@ tag tags.ok_only_if_all_mandatory C13
            proof { assert(Set::<u16>::empty().subset_of(seen)); }
        //@ end
        proof fn law_dec_bounds(b: Seq<u8>) {}
        proof fn law_dec_frame(b: Seq<u8>, s: Seq<u8>) {}
        proof fn law_inverse(v: &ReadCard) {}
    }

    // ------------------------------------------------------------------ packets::tlv::ZvtString
    //@ item src:zvt/src/packets/tlv.rs | struct ZvtString
    impl zvt_builder::encoding::Encoding<ZvtString> for zvt_builder::encoding::Default {
        open spec fn enc_ok(v: &ZvtString) -> bool { <String as zvt_builder::ZvtSerializerImpl<length::Tlv, encoding::Default, zvt_builder::encoding::Default>>::ser_pre(&v.line, Some(zvt_builder::Tag(7u16))) }
        open spec fn canon(v: &ZvtString) -> bool { false }
        /// layout table (spec/tables/layout.json): the fields in order, each under its tag / length style / encoding
        open spec fn spec_enc(v: &ZvtString) -> Seq<u8> { <String as zvt_builder::ZvtSerializerImpl<length::Tlv, encoding::Default, zvt_builder::encoding::Default>>::spec_ser_tagged(&v.line, Some(zvt_builder::Tag(7u16))) }
        uninterp spec fn spec_dec(b: Seq<u8>) -> Option<(ZvtString, int)>;
        open spec fn progresses() -> bool { false }
        open spec fn self_delimiting() -> bool { false }
        open spec fn dec_rel(b: Seq<u8>, v: &ZvtString, k: int) -> bool { true }
        open spec fn dec_total(b: Seq<u8>) -> bool { false }
        /// the tag loop stops only at the end of the input, in front of something that is no tag, or in front of a tag that
        /// is not one of this struct's non-repeatable fields
        open spec fn dec_stop(rest: Seq<u8>) -> bool { rest.len() == 0 || (match <zvt_builder::encoding::Default as zvt_builder::encoding::Encoding<zvt_builder::Tag>>::spec_dec(rest) { None => true, Some((t, _)) => t.0 != 7u16 }) }
        /// the tag loop is specified by totality and frame clauses only
        open spec fn functional() -> bool { false }
        //@ fn exp:zvt | impl zvt_builder::encoding::Encoding<ZvtString> for zvt_builder::encoding::Default | encode | mod=packets::tlv props=C03,~C01
        //@ end
        //@ fn exp:zvt | impl zvt_builder::encoding::Encoding<ZvtString> for zvt_builder::encoding::Default | decode | mod=packets::tlv all-loops props=C02,C14
        //@ loop 0
                invariant
                    crate::is_tail(bytes@, bytes0), crate::frame::tail_base(bytes0), bytes@.len() <= bytes0.len(),
                    curr_len <= usize::MAX,
        //@ tag tags.bookkeeping C13
                    actual_tags@ =~= seen,
                    required_tags@ =~= set![7u16].difference(seen),
        //@ tag tags.stop C13
                    curr_len == bytes@.len() ==> <zvt_builder::encoding::Default as zvt_builder::encoding::Encoding<ZvtString>>::dec_stop(bytes@),
                ensures
                    <zvt_builder::encoding::Default as zvt_builder::encoding::Encoding<ZvtString>>::dec_stop(bytes@),
        //@ tag tags.loop.decreases C02
                decreases bytes@.len() + (if curr_len != bytes@.len() { 1nat } else { 0nat }),
        //@ entry
            let ghost bytes0 = bytes@;
            let ghost mut seen: Set<u16> = Set::<u16>::empty();
            proof { lemma_slice_len_le_isize_max(bytes); crate::frame::lemma_tail_base(bytes0); }
        //@ before (line,bytes)=<
        //@ tag tags.no_second_dispatch.line C13
            proof { assert(!seen.contains(7u16)); seen = seen.insert(7u16) ; }
        //@ before returnErr(zvt_builder::ZVTError::DuplicateTag(
        //@ tag tags.duplicate_error_is_true.line C13
            proof { assert(seen.contains(7u16)) ; }
        //@ before letmutas_vec
            let ghost req_left = required_tags@;
        //@ before returnErr(zvt_builder::ZVTError::MissingRequiredTags
        //@ tag tags.missing_names_all C13
            proof {
                assert(req_left =~= set![7u16].difference(seen));
                assert forall|i: int| 0 <= i < as_vec@.len() implies set![7u16].contains((#[trigger] as_vec@[i]).0) && !seen.contains(as_vec@[i].0) by {
                    assert(req_left.contains(as_vec@[i].0));
                }
                assert forall|t: u16| set![7u16].contains(t) && !seen.contains(t) implies exists|i: int| 0 <= i < as_vec@.len() && (#[trigger] as_vec@[i]).0 == t by {
                    assert(req_left.contains(t));
                }
            }
        //@ tail
        //@ tag tags.ok_only_if_all_mandatory C13
            proof { assert(!set![7u16].difference(seen).contains(7u16)); assert(set![7u16].subset_of(seen)); }
        //@ end
        proof fn law_dec_bounds(b: Seq<u8>) {}
        proof fn law_dec_frame(b: Seq<u8>, s: Seq<u8>) {}
        proof fn law_inverse(v: &ZvtString) {}
    }

    // ------------------------------------------------------------------ packets::tlv::TextLines
    //@ item src:zvt/src/packets/tlv.rs | struct TextLines
    impl zvt_builder::encoding::Encoding<TextLines> for zvt_builder::encoding::Default {
        open spec fn enc_ok(v: &TextLines) -> bool { <Vec<String> as zvt_builder::ZvtSerializerImpl<length::Tlv, encoding::Default, zvt_builder::encoding::Default>>::ser_pre(&v.lines, Some(zvt_builder::Tag(7u16))) && <Option<u8> as zvt_builder::ZvtSerializerImpl<length::Tlv, encoding::Default, zvt_builder::encoding::Default>>::ser_pre(&v.eol, Some(zvt_builder::Tag(9u16))) }
        open spec fn canon(v: &TextLines) -> bool { false }
        /// layout table (spec/tables/layout.json): the fields in order, each under its tag / length style / encoding
        open spec fn spec_enc(v: &TextLines) -> Seq<u8> { <Vec<String> as zvt_builder::ZvtSerializerImpl<length::Tlv, encoding::Default, zvt_builder::encoding::Default>>::spec_ser_tagged(&v.lines, Some(zvt_builder::Tag(7u16))) + <Option<u8> as zvt_builder::ZvtSerializerImpl<length::Tlv, encoding::Default, zvt_builder::encoding::Default>>::spec_ser_tagged(&v.eol, Some(zvt_builder::Tag(9u16))) }
        uninterp spec fn spec_dec(b: Seq<u8>) -> Option<(TextLines, int)>;
        open spec fn progresses() -> bool { false }
        open spec fn self_delimiting() -> bool { false }
        open spec fn dec_rel(b: Seq<u8>, v: &TextLines, k: int) -> bool { true }
        open spec fn dec_total(b: Seq<u8>) -> bool { false }
        /// the tag loop stops only at the end of the input, in front of something that is no tag, or in front of a tag that
        /// is not one of this struct's non-repeatable fields
        open spec fn dec_stop(rest: Seq<u8>) -> bool { rest.len() == 0 || (match <zvt_builder::encoding::Default as zvt_builder::encoding::Encoding<zvt_builder::Tag>>::spec_dec(rest) { None => true, Some((t, _)) => t.0 != 9u16 }) }
        /// the tag loop is specified by totality and frame clauses only
        open spec fn functional() -> bool { false }
        //@ fn exp:zvt | impl zvt_builder::encoding::Encoding<TextLines> for zvt_builder::encoding::Default | encode | mod=packets::tlv props=C03,~C01
        //@ end
        //@ fn exp:zvt | impl zvt_builder::encoding::Encoding<TextLines> for zvt_builder::encoding::Default | decode | mod=packets::tlv all-loops props=C02,C14
        //@ loop 0
                invariant
                    crate::is_tail(bytes@, bytes0), crate::frame::tail_base(bytes0), bytes@.len() <= bytes0.len(),
                    curr_len <= usize::MAX,
        //@ tag tags.bookkeeping C13
                    actual_tags@ =~= seen,
                    required_tags@ =~= Set::<u16>::empty().difference(seen),
        //@ tag tags.stop C13
                    curr_len == bytes@.len() ==> <zvt_builder::encoding::Default as zvt_builder::encoding::Encoding<TextLines>>::dec_stop(bytes@),
                ensures
                    <zvt_builder::encoding::Default as zvt_builder::encoding::Encoding<TextLines>>::dec_stop(bytes@),
        //@ tag tags.loop.decreases C02
                decreases bytes@.len() + (if curr_len != bytes@.len() { 1nat } else { 0nat }),
        //@ entry
            let ghost bytes0 = bytes@;
            let ghost mut seen: Set<u16> = Set::<u16>::empty();
            proof { lemma_slice_len_le_isize_max(bytes); crate::frame::lemma_tail_base(bytes0); }
        //@ before (lines,bytes)=<
        //@ tag tags.no_second_dispatch.lines C13
            proof { assert(!seen.contains(7u16)); seen = seen.insert(7u16) ; }
            let ghost b_pre = bytes@;
        //@ after (lines,bytes)=<
        //@ tag tags.stop C13
            proof { if curr_len == bytes@.len() { crate::frame::lemma_tail_same_len(bytes@, b_pre); } }
        //@ before returnErr(zvt_builder::ZVTError::DuplicateTag(
        //@ tag tags.duplicate_error_is_true.lines C13
            proof { assert(seen.contains(7u16)) ; }
        //@ before (eol,bytes)=<
        //@ tag tags.no_second_dispatch.eol C13
            proof { assert(!seen.contains(9u16)); seen = seen.insert(9u16) ; }
        //@ before returnErr(zvt_builder::ZVTError::DuplicateTag(
        //@ tag tags.duplicate_error_is_true.eol C13
            proof { assert(seen.contains(9u16)) ; }
        //@ before letmutas_vec
            let ghost req_left = required_tags@;
        //@ before returnErr(zvt_builder::ZVTError::MissingRequiredTags
        //@ tag tags.missing_names_all C13
            proof {
                assert(req_left =~= Set::<u16>::empty().difference(seen));
                assert forall|i: int| 0 <= i < as_vec@.len() implies Set::<u16>::empty().contains((#[trigger] as_vec@[i]).0) && !seen.contains(as_vec@[i].0) by {
                    assert(req_left.contains(as_vec@[i].0));
                }
                assert forall|t: u16| Set::<u16>::empty().contains(t) && !seen.contains(t) implies exists|i: int| 0 <= i < as_vec@.len() && (#[trigger] as_vec@[i]).0 == t by {
                    assert(req_left.contains(t));
                }
            }
        //@ tail
        //@ tag tags.ok_only_if_all_mandatory C13
            proof { assert(Set::<u16>::empty().subset_of(seen)); }
        //@ end
        proof fn law_dec_bounds(b: Seq<u8>) {}
        proof fn law_dec_frame(b: Seq<u8>, s: Seq<u8>) {}
        proof fn law_inverse(v: &TextLines) {}
    }

    // ------------------------------------------------------------------ packets::tlv::PrintTextBlock
    //@ item src:zvt/src/packets/tlv.rs | struct PrintTextBlock
    impl zvt_builder::encoding::Encoding<PrintTextBlock> for zvt_builder::encoding::Default {
        open spec fn enc_ok(v: &PrintTextBlock) -> bool { <Option<u8> as zvt_builder::ZvtSerializerImpl<length::Tlv, encoding::Default, zvt_builder::encoding::Default>>::ser_pre(&v.receipt_type, Some(zvt_builder::Tag(7943u16))) && <Option<TextLines> as zvt_builder::ZvtSerializerImpl<length::Tlv, encoding::Default, zvt_builder::encoding::Default>>::ser_pre(&v.lines, Some(zvt_builder::Tag(37u16))) }
        open spec fn canon(v: &PrintTextBlock) -> bool { false }
        /// layout table (spec/tables/layout.json): the fields in order, each under its tag / length style / encoding
        open spec fn spec_enc(v: &PrintTextBlock) -> Seq<u8> { <Option<u8> as zvt_builder::ZvtSerializerImpl<length::Tlv, encoding::Default, zvt_builder::encoding::Default>>::spec_ser_tagged(&v.receipt_type, Some(zvt_builder::Tag(7943u16))) + <Option<TextLines> as zvt_builder::ZvtSerializerImpl<length::Tlv, encoding::Default, zvt_builder::encoding::Default>>::spec_ser_tagged(&v.lines, Some(zvt_builder::Tag(37u16))) }
        uninterp spec fn spec_dec(b: Seq<u8>) -> Option<(PrintTextBlock, int)>;
        open spec fn progresses() -> bool { false }
        open spec fn self_delimiting() -> bool { false }
        open spec fn dec_rel(b: Seq<u8>, v: &PrintTextBlock, k: int) -> bool { true }
        open spec fn dec_total(b: Seq<u8>) -> bool { false }
        /// the tag loop stops only at the end of the input, in front of something that is no tag, or in front of a tag that
        /// is not one of this struct's non-repeatable fields
        open spec fn dec_stop(rest: Seq<u8>) -> bool { rest.len() == 0 || (match <zvt_builder::encoding::Default as zvt_builder::encoding::Encoding<zvt_builder::Tag>>::spec_dec(rest) { None => true, Some((t, _)) => t.0 != 7943u16 && t.0 != 37u16 }) }
        /// the tag loop is specified by totality and frame clauses only
        open spec fn functional() -> bool { false }
        //@ fn exp:zvt | impl zvt_builder::encoding::Encoding<PrintTextBlock> for zvt_builder::encoding::Default | encode | mod=packets::tlv props=C03,~C01
        //@ end
        //@ fn exp:zvt | impl zvt_builder::encoding::Encoding<PrintTextBlock> for zvt_builder::encoding::Default | decode | mod=packets::tlv all-loops props=C02,C14
        //@ loop 0
                invariant
                    crate::is_tail(bytes@, bytes0), crate::frame::tail_base(bytes0), bytes@.len() <= bytes0.len(),
                    curr_len <= usize::MAX,
        //@ tag tags.bookkeeping C13
                    actual_tags@ =~= seen,
                    required_tags@ =~= Set::<u16>::empty().difference(seen),
        //@ tag tags.stop C13
                    curr_len == bytes@.len() ==> <zvt_builder::encoding::Default as zvt_builder::encoding::Encoding<PrintTextBlock>>::dec_stop(bytes@),
                ensures
                    <zvt_builder::encoding::Default as zvt_builder::encoding::Encoding<PrintTextBlock>>::dec_stop(bytes@),
        //@ tag tags.loop.decreases C02
                decreases bytes@.len() + (if curr_len != bytes@.len() { 1nat } else { 0nat }),
        //@ entry
            let ghost bytes0 = bytes@;
            let ghost mut seen: Set<u16> = Set::<u16>::empty();
            proof { lemma_slice_len_le_isize_max(bytes); crate::frame::lemma_tail_base(bytes0); }
        //@ before (receipt_type,bytes)=<
        //@ tag tags.no_second_dispatch.receipt_type C13
            proof { assert(!seen.contains(7943u16)); seen = seen.insert(7943u16) ; }
        //@ before returnErr(zvt_builder::ZVTError::DuplicateTag(
        //@ tag tags.duplicate_error_is_true.receipt_type C13
            proof { assert(seen.contains(7943u16)) ; }
        //@ before (lines,bytes)=<
        //@ tag tags.no_second_dispatch.lines C13
            proof { assert(!seen.contains(37u16)); seen = seen.insert(37u16) ; }
        //@ before returnErr(zvt_builder::ZVTError::DuplicateTag(
        //@ tag tags.duplicate_error_is_true.lines C13
            proof { assert(seen.contains(37u16)) ; }
        //@ before letmutas_vec
            let ghost req_left = required_tags@;
        //@ before returnErr(zvt_builder::ZVTError::MissingRequiredTags
        //@ tag tags.missing_names_all C13
            proof {
                assert(req_left =~= Set::<u16>::empty().difference(seen));
                assert forall|i: int| 0 <= i < as_vec@.len() implies Set::<u16>::empty().contains((#[trigger] as_vec@[i]).0) && !seen.contains(as_vec@[i].0) by {
                    assert(req_left.contains(as_vec@[i].0));
                }
                assert forall|t: u16| Set::<u16>::empty().contains(t) && !seen.contains(t) implies exists|i: int| 0 <= i < as_vec@.len() && (#[trigger] as_vec@[i]).0 == t by {
                    assert(req_left.contains(t));
                }
            }
        //@ tail
        //@ tag tags.ok_only_if_all_mandatory C13
            proof { assert(Set::<u16>::empty().subset_of(seen)); }
        //@ end
        proof fn law_dec_bounds(b: Seq<u8>) {}
        proof fn law_dec_frame(b: Seq<u8>, s: Seq<u8>) {}
        proof fn law_inverse(v: &PrintTextBlock) {}
    }

    // ------------------------------------------------------------------ packets::tlv::Registration
    //@ item src:zvt/src/packets/tlv.rs | struct Registration
    impl zvt_builder::encoding::Encoding<Registration> for zvt_builder::encoding::Default {
        open spec fn enc_ok(v: &Registration) -> bool { <Option<u16> as zvt_builder::ZvtSerializerImpl<length::Tlv, encoding::BigEndian, zvt_builder::encoding::Default>>::ser_pre(&v.max_len_adpu, Some(zvt_builder::Tag(26u16))) }
        open spec fn canon(v: &Registration) -> bool { false }
        /// layout table (spec/tables/layout.json): the fields in order, each under its tag / length style / encoding
        open spec fn spec_enc(v: &Registration) -> Seq<u8> { <Option<u16> as zvt_builder::ZvtSerializerImpl<length::Tlv, encoding::BigEndian, zvt_builder::encoding::Default>>::spec_ser_tagged(&v.max_len_adpu, Some(zvt_builder::Tag(26u16))) }
        uninterp spec fn spec_dec(b: Seq<u8>) -> Option<(Registration, int)>;
        open spec fn progresses() -> bool { false }
        open spec fn self_delimiting() -> bool { false }
        open spec fn dec_rel(b: Seq<u8>, v: &Registration, k: int) -> bool { true }
        open spec fn dec_total(b: Seq<u8>) -> bool { false }
        /// the tag loop stops only at the end of the input, in front of something that is no tag, or in front of a tag that
        /// is not one of this struct's non-repeatable fields
        open spec fn dec_stop(rest: Seq<u8>) -> bool { rest.len() == 0 || (match <zvt_builder::encoding::Default as zvt_builder::encoding::Encoding<zvt_builder::Tag>>::spec_dec(rest) { None => true, Some((t, _)) => t.0 != 26u16 }) }
        /// the tag loop is specified by totality and frame clauses only
        open spec fn functional() -> bool { false }
        //@ fn exp:zvt | impl zvt_builder::encoding::Encoding<Registration> for zvt_builder::encoding::Default | encode | mod=packets::tlv props=C03,~C01
        //@ end
        //@ fn exp:zvt | impl zvt_builder::encoding::Encoding<Registration> for zvt_builder::encoding::Default | decode | mod=packets::tlv all-loops props=C02,C14
        //@ loop 0
                invariant
                    crate::is_tail(bytes@, bytes0), crate::frame::tail_base(bytes0), bytes@.len() <= bytes0.len(),
                    curr_len <= usize::MAX,
        //@ tag tags.bookkeeping C13
                    actual_tags@ =~= seen,
                    required_tags@ =~= Set::<u16>::empty().difference(seen),
        //@ tag tags.stop C13
                    curr_len == bytes@.len() ==> <zvt_builder::encoding::Default as zvt_builder::encoding::Encoding<Registration>>::dec_stop(bytes@),
                ensures
                    <zvt_builder::encoding::Default as zvt_builder::encoding::Encoding<Registration>>::dec_stop(bytes@),
        //@ tag tags.loop.decreases C02
                decreases bytes@.len() + (if curr_len != bytes@.len() { 1nat } else { 0nat }),
        //@ entry
            let ghost bytes0 = bytes@;
            let ghost mut seen: Set<u16> = Set::<u16>::empty();
            proof { lemma_slice_len_le_isize_max(bytes); crate::frame::lemma_tail_base(bytes0); }
        //@ before (max_len_adpu,bytes)=<
        //@ tag tags.no_second_dispatch.max_len_adpu C13
            proof { assert(!seen.contains(26u16)); seen = seen.insert(26u16) ; }
        //@ before returnErr(zvt_builder::ZVTError::DuplicateTag(
        //@ tag tags.duplicate_error_is_true.max_len_adpu C13
            proof { assert(seen.contains(26u16)) ; }
        //@ before letmutas_vec
            let ghost req_left = required_tags@;
        //@ before returnErr(zvt_builder::ZVTError::MissingRequiredTags
        //@ tag tags.missing_names_all C13
            proof {
                assert(req_left =~= Set::<u16>::empty().difference(seen));
                assert forall|i: int| 0 <= i < as_vec@.len() implies Set::<u16>::empty().contains((#[trigger] as_vec@[i]).0) && !seen.contains(as_vec@[i].0) by {
                    assert(req_left.contains(as_vec@[i].0));
                }
                assert forall|t: u16| Set::<u16>::empty().contains(t) && !seen.contains(t) implies exists|i: int| 0 <= i < as_vec@.len() && (#[trigger] as_vec@[i]).0 == t by {
                    assert(req_left.contains(t));
                }
            }
        //@ tail
        //@ tag tags.ok_only_if_all_mandatory C13
            proof { assert(Set::<u16>::empty().subset_of(seen)); }
        //@ end
        proof fn law_dec_bounds(b: Seq<u8>) {}
        proof fn law_dec_frame(b: Seq<u8>, s: Seq<u8>) {}
        proof fn law_inverse(v: &Registration) {}
    }

