// U3 — derive(ZvtEnum) expansions: every reply parser `zvt_parse` (DESIGN.md §6 C15; feeds C06)
#![allow(unused_imports, unused_variables, dead_code, unused_mut, non_snake_case, unused_parens, unused_braces)]
use vstd::prelude::*;
verus! {

global size_of usize == 8;

// the integer helpers a (changed) parser may use (N6)
pub mod n6 {
    use vstd::prelude::*;
    //@ include ../prelude/n6.rs
    //@ include ../prelude/wire.rs
}

pub struct NaiveDateTime { pub opaque: u64 }

//@ item src:zvt_builder/src/lib.rs | enum ZVTError | derive=Debug
//@ item src:zvt_builder/src/lib.rs | type ZVTResult
//@ item src:zvt_builder/src/lib.rs | struct Tag | derive=Debug,PartialEq,Eq,Structural
//@ item src:zvt_builder/src/lib.rs | trait ZvtCommand
pub mod zvt_builder {
    use vstd::prelude::*;
    pub use super::{ZVTError, ZVTResult, Tag, ZvtCommand};
    /// abstract contract of a packet decoder (established for the real decoders in U1/U2)
    pub trait ZvtSerializer: Sized {
        spec fn tid() -> int;
        spec fn zd_ok(b: Seq<u8>, v: Self) -> bool;
        /// inputs the packet decoder accepts
        spec fn zd_defined(b: Seq<u8>) -> bool;
        fn zvt_deserialize(bytes: &[u8]) -> (r: ZVTResult<(Self, &[u8])>)
            ensures r matches Ok((v, rest)) ==> Self::zd_ok(bytes@, v), Self::zd_defined(bytes@) ==> r is Ok;
    }
    pub open spec fn tid_of<T: ZvtSerializer>(v: T) -> int { T::tid() }
    pub open spec fn zd_ok_of<T: ZvtSerializer>(b: Seq<u8>, v: T) -> bool { T::zd_ok(b, v) }
    // the rest of the zvt_builder surface a (changed) parser may name: abstract, nothing is known about results
    pub mod length {
        pub trait Length {}
        pub struct Empty; pub struct Adpu; pub struct Tlv;
        pub struct Fixed<const N: usize>; pub struct Llv; pub struct Lllv;
        impl Length for Empty {} impl Length for Adpu {} impl Length for Tlv {}
        impl<const N: usize> Length for Fixed<N> {} impl Length for Llv {} impl Length for Lllv {}
    }
    pub mod encoding {
        pub trait Encoding<T> {}
        pub struct Default; pub struct BigEndian; pub struct Bcd; pub struct Hex; pub struct Utf8;
        impl<T> Encoding<T> for Default {} impl<T> Encoding<T> for BigEndian {} impl<T> Encoding<T> for Bcd {}
        impl<T> Encoding<T> for Hex {} impl<T> Encoding<T> for Utf8 {}
    }
    pub trait ZvtSerializerImpl<L: length::Length = length::Empty, E: encoding::Encoding<Self> = encoding::Default, TE: encoding::Encoding<Tag> = encoding::Default>: Sized {
        fn deserialize_tagged(bytes: &[u8], tag: Option<Tag>) -> (r: ZVTResult<(Self, &[u8])>);
        fn serialize_tagged(&self, tag: Option<Tag>) -> (r: Vec<u8>);
    }
    impl<T: ZvtSerializer, L: length::Length, E: encoding::Encoding<T>, TE: encoding::Encoding<Tag>> ZvtSerializerImpl<L, E, TE> for T {
        #[verifier::external_body]
        fn deserialize_tagged(bytes: &[u8], tag: Option<Tag>) -> (r: ZVTResult<(Self, &[u8])>) { unimplemented!() }
        #[verifier::external_body]
        fn serialize_tagged(&self, tag: Option<Tag>) -> (r: Vec<u8>) { unimplemented!() }
    }
    pub trait ZvtParser: Sized {
        spec fn parse_ok(b: Seq<u8>, v: Self) -> bool;
        spec fn ctrl_known(c: u8, i: u8) -> bool;
        spec fn parse_defined(b: Seq<u8>) -> bool;
        //@ fn src:zvt_builder/src/lib.rs | trait ZvtParser | zvt_parse | sig props=C15,C02
            ensures
        //@ tag parse.only_own_ctrl C15
                r matches Ok(v) ==> Self::parse_ok(bytes@, v),
        //@ tag parse.foreign_ctrl_is_error C15 C06
                (bytes@.len() < 2 || !Self::ctrl_known(bytes@[0], bytes@[1])) ==> r is Err,
        //@ tag parse.own_ctrl_is_dispatched C15 C05 C04
                // ... and a packet of the reply set is handed to its own packet type (the sequences rely on it: C05; and the
                // transport returns the k packets of a stream only if the parser accepts each complete one, whatever its
                // body length: C04)
                Self::parse_defined(bytes@) ==> r is Ok,
        //@ end
    }
}

// all packet struct definitions (core + feig) live in one module; the source's module paths are aliases
pub mod packets {
    use vstd::prelude::*;
    use super::zvt_builder;
    //@ item src:zvt/src/packets.rs | struct Ack
    //@ include packets_all.tpl EXTRA_TLV=feig_tlv.tpl
    //@ items src:zvt/src/feig/packets/mod.rs | structs except=Temperature
    //@ include u3_pk_ser.tpl
}
pub mod seqs {
    use vstd::prelude::*;
    use crate::zvt_builder;
    use crate::packets;
    use crate::packets::*;
    use crate::n6::*;
    //@ include u3_cmd_seqs.tpl
    //@ include u3_enums_sequences.tpl
    //@ include u3_enums_feig_sequences.tpl
}
pub mod io {
    use vstd::prelude::*;
    use crate::zvt_builder;
    use crate::packets;
    use crate::packets::Ack as AckPacket;
    use crate::n6::*;
    //@ include u3_cmd_io.tpl
    //@ include u3_enums_io.tpl
}

//@ tag canary
pub proof fn zx_canary() ensures false {}
//@ untag

} // verus!
fn main() {}
