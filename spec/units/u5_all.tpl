//@ include u5_reply.tpl REPLY=ReadCardResponse FILE=src:zvt/src/sequences.rs
//@ include u5_seq_loop.tpl NAME=ReadCard REPLY=ReadCardResponse FILE=src:zvt/src/sequences.rs TERM=p~is~StatusInformation~||~p~is~Abort
//@ include u5_reply.tpl REPLY=InitializationResponse FILE=src:zvt/src/sequences.rs
//@ include u5_seq_loop.tpl NAME=Initialization REPLY=InitializationResponse FILE=src:zvt/src/sequences.rs TERM=p~is~CompletionData~||~p~is~Abort
//@ include u5_reply.tpl REPLY=DiagnosisResponse FILE=src:zvt/src/sequences.rs
//@ include u5_seq_loop.tpl NAME=Diagnosis REPLY=DiagnosisResponse FILE=src:zvt/src/sequences.rs TERM=p~is~CompletionData~||~p~is~Abort
//@ include u5_reply.tpl REPLY=EndOfDayResponse FILE=src:zvt/src/sequences.rs
//@ include u5_seq_loop.tpl NAME=EndOfDay REPLY=EndOfDayResponse FILE=src:zvt/src/sequences.rs TERM=p~is~CompletionData~||~p~is~Abort
//@ include u5_reply.tpl REPLY=AuthorizationResponse FILE=src:zvt/src/sequences.rs
//@ include u5_seq_loop.tpl NAME=Authorization REPLY=AuthorizationResponse FILE=src:zvt/src/sequences.rs TERM=p~is~CompletionData~||~p~is~Abort
//@ include u5_seq_loop.tpl NAME=Reservation REPLY=AuthorizationResponse FILE=src:zvt/src/sequences.rs TERM=p~is~CompletionData~||~p~is~Abort
//@ include u5_reply.tpl REPLY=PartialReversalResponse FILE=src:zvt/src/sequences.rs
//@ include u5_seq_loop.tpl NAME=PartialReversal REPLY=PartialReversalResponse FILE=src:zvt/src/sequences.rs TERM=p~is~CompletionData~||~p~is~PartialReversalAbort
//@ include u5_seq_loop.tpl NAME=PreAuthReversal REPLY=PartialReversalResponse FILE=src:zvt/src/sequences.rs TERM=p~is~CompletionData~||~p~is~PartialReversalAbort
//@ include u5_reply.tpl REPLY=PrintSystemConfigurationResponse FILE=src:zvt/src/sequences.rs
//@ include u5_seq_loop.tpl NAME=PrintSystemConfiguration REPLY=PrintSystemConfigurationResponse FILE=src:zvt/src/sequences.rs TERM=p~is~CompletionData
//@ include u5_reply.tpl REPLY=StatusEnquiryResponse FILE=src:zvt/src/sequences.rs
//@ include u5_seq_loop.tpl NAME=StatusEnquiry REPLY=StatusEnquiryResponse FILE=src:zvt/src/sequences.rs TERM=p~is~CompletionData
//@ assert-no-fn src:zvt/src/sequences.rs | impl Sequence for Registration | into_stream
//@ assert-no-fn src:zvt/src/sequences.rs | impl Sequence for SetTerminalId | into_stream
//@ assert-no-fn src:zvt/src/sequences.rs | impl Sequence for ResetTerminal | into_stream
//@ assert-no-fn src:zvt/src/sequences.rs | impl Sequence for SelectLanguage | into_stream
//@ assert-no-fn src:zvt/src/feig/sequences.rs | impl Sequence for GetSystemInfo | into_stream
//@ assert-no-fn src:zvt/src/feig/sequences.rs | impl Sequence for FactoryReset | into_stream
//@ assert-no-fn src:zvt/src/feig/sequences.rs | impl Sequence for ChangeHostConfiguration | into_stream
