// U1 — zvt_builder core: length.rs, encoding.rs, lib.rs (DESIGN.md §5.2, §6 C01/C02/C14/C16/C17)
// Everything between `//@ fn … //@ end` is real code taken from /repo on every run.
#![allow(unused_imports, unused_variables, dead_code, unused_mut, non_snake_case, unused_parens, unused_braces)]
extern crate alloc;
use vstd::prelude::*;
verus! {

global size_of usize == 8;

pub mod vlemmas {
    use vstd::prelude::*;
    //@ include ../prelude/lemmas.rs
}

pub mod n6 {
    use vstd::prelude::*;
    //@ include ../prelude/n6.rs
    //@ include ../prelude/wire.rs
}

//@ include u1_lib.tpl M=verify VFUNC=true

pub mod length {
    use super::encoding::{Default, Encoding};
    use super::*;
    use super::n6::*;
    use super::vlemmas::*;
    //@ include u1_length.tpl M=verify
}

pub mod encoding {
    use super::*;
    use super::n6::*;
    use super::vlemmas::*;
    //@ include u1_encoding.tpl M=verify FUNC=E::functional()~&&~TE::functional() TSI=ensures~final(self)@~==~old(self)@.insert(t),~r~==~!old(self)@.contains(t), TSR=ensures~final(self)@~==~old(self)@.remove(*t),~r~==~old(self)@.contains(*t),
}

//@ tag canary
/// vacuity guard: this obligation must FAIL on every run; if it verifies the pipeline is broken
pub proof fn zx_canary() ensures false {}
//@ untag

} // verus!
fn main() {}
