    impl zvt_builder::ZvtSerializer for SetTimeAndDate {
        /// identity of the packet type (position in the frozen reply table), so that "which type does this variant
        /// carry" is an obligation instead of a type error
        open spec fn tid() -> int { 0 }
        uninterp spec fn zd_ok(b: Seq<u8>, v: Self) -> bool;
        uninterp spec fn zd_defined(b: Seq<u8>) -> bool;
        #[verifier::external_body]
        fn zvt_deserialize(bytes: &[u8]) -> (r: zvt_builder::ZVTResult<(Self, &[u8])>) { unimplemented!() }
    }
    impl zvt_builder::ZvtSerializer for StatusInformation {
        /// identity of the packet type (position in the frozen reply table), so that "which type does this variant
        /// carry" is an obligation instead of a type error
        open spec fn tid() -> int { 1 }
        uninterp spec fn zd_ok(b: Seq<u8>, v: Self) -> bool;
        uninterp spec fn zd_defined(b: Seq<u8>) -> bool;
        #[verifier::external_body]
        fn zvt_deserialize(bytes: &[u8]) -> (r: zvt_builder::ZVTResult<(Self, &[u8])>) { unimplemented!() }
    }
    impl zvt_builder::ZvtSerializer for IntermediateStatusInformation {
        /// identity of the packet type (position in the frozen reply table), so that "which type does this variant
        /// carry" is an obligation instead of a type error
        open spec fn tid() -> int { 2 }
        uninterp spec fn zd_ok(b: Seq<u8>, v: Self) -> bool;
        uninterp spec fn zd_defined(b: Seq<u8>) -> bool;
        #[verifier::external_body]
        fn zvt_deserialize(bytes: &[u8]) -> (r: zvt_builder::ZVTResult<(Self, &[u8])>) { unimplemented!() }
    }
    impl zvt_builder::ZvtSerializer for CompletionData {
        /// identity of the packet type (position in the frozen reply table), so that "which type does this variant
        /// carry" is an obligation instead of a type error
        open spec fn tid() -> int { 3 }
        uninterp spec fn zd_ok(b: Seq<u8>, v: Self) -> bool;
        uninterp spec fn zd_defined(b: Seq<u8>) -> bool;
        #[verifier::external_body]
        fn zvt_deserialize(bytes: &[u8]) -> (r: zvt_builder::ZVTResult<(Self, &[u8])>) { unimplemented!() }
    }
    impl zvt_builder::ZvtSerializer for Abort {
        /// identity of the packet type (position in the frozen reply table), so that "which type does this variant
        /// carry" is an obligation instead of a type error
        open spec fn tid() -> int { 4 }
        uninterp spec fn zd_ok(b: Seq<u8>, v: Self) -> bool;
        uninterp spec fn zd_defined(b: Seq<u8>) -> bool;
        #[verifier::external_body]
        fn zvt_deserialize(bytes: &[u8]) -> (r: zvt_builder::ZVTResult<(Self, &[u8])>) { unimplemented!() }
    }
    impl zvt_builder::ZvtSerializer for PartialReversalAbort {
        /// identity of the packet type (position in the frozen reply table), so that "which type does this variant
        /// carry" is an obligation instead of a type error
        open spec fn tid() -> int { 5 }
        uninterp spec fn zd_ok(b: Seq<u8>, v: Self) -> bool;
        uninterp spec fn zd_defined(b: Seq<u8>) -> bool;
        #[verifier::external_body]
        fn zvt_deserialize(bytes: &[u8]) -> (r: zvt_builder::ZVTResult<(Self, &[u8])>) { unimplemented!() }
    }
    impl zvt_builder::ZvtSerializer for PrintLine {
        /// identity of the packet type (position in the frozen reply table), so that "which type does this variant
        /// carry" is an obligation instead of a type error
        open spec fn tid() -> int { 6 }
        uninterp spec fn zd_ok(b: Seq<u8>, v: Self) -> bool;
        uninterp spec fn zd_defined(b: Seq<u8>) -> bool;
        #[verifier::external_body]
        fn zvt_deserialize(bytes: &[u8]) -> (r: zvt_builder::ZVTResult<(Self, &[u8])>) { unimplemented!() }
    }
    impl zvt_builder::ZvtSerializer for PrintTextBlock {
        /// identity of the packet type (position in the frozen reply table), so that "which type does this variant
        /// carry" is an obligation instead of a type error
        open spec fn tid() -> int { 7 }
        uninterp spec fn zd_ok(b: Seq<u8>, v: Self) -> bool;
        uninterp spec fn zd_defined(b: Seq<u8>) -> bool;
        #[verifier::external_body]
        fn zvt_deserialize(bytes: &[u8]) -> (r: zvt_builder::ZVTResult<(Self, &[u8])>) { unimplemented!() }
    }
    impl zvt_builder::ZvtSerializer for Ack {
        /// identity of the packet type (position in the frozen reply table), so that "which type does this variant
        /// carry" is an obligation instead of a type error
        open spec fn tid() -> int { 8 }
        uninterp spec fn zd_ok(b: Seq<u8>, v: Self) -> bool;
        uninterp spec fn zd_defined(b: Seq<u8>) -> bool;
        #[verifier::external_body]
        fn zvt_deserialize(bytes: &[u8]) -> (r: zvt_builder::ZVTResult<(Self, &[u8])>) { unimplemented!() }
    }
    impl zvt_builder::ZvtSerializer for RequestForData {
        /// identity of the packet type (position in the frozen reply table), so that "which type does this variant
        /// carry" is an obligation instead of a type error
        open spec fn tid() -> int { 9 }
        uninterp spec fn zd_ok(b: Seq<u8>, v: Self) -> bool;
        uninterp spec fn zd_defined(b: Seq<u8>) -> bool;
        #[verifier::external_body]
        fn zvt_deserialize(bytes: &[u8]) -> (r: zvt_builder::ZVTResult<(Self, &[u8])>) { unimplemented!() }
    }
    impl zvt_builder::ZvtSerializer for CVendFunctionsEnhancedSystemInformationCompletion {
        /// identity of the packet type (position in the frozen reply table), so that "which type does this variant
        /// carry" is an obligation instead of a type error
        open spec fn tid() -> int { 10 }
        uninterp spec fn zd_ok(b: Seq<u8>, v: Self) -> bool;
        uninterp spec fn zd_defined(b: Seq<u8>) -> bool;
        #[verifier::external_body]
        fn zvt_deserialize(bytes: &[u8]) -> (r: zvt_builder::ZVTResult<(Self, &[u8])>) { unimplemented!() }
    }
    impl zvt_builder::ZvtSerializer for StatusEnquiry {
        /// identity of the packet type (position in the frozen reply table), so that "which type does this variant
        /// carry" is an obligation instead of a type error
        open spec fn tid() -> int { 11 }
        uninterp spec fn zd_ok(b: Seq<u8>, v: Self) -> bool;
        uninterp spec fn zd_defined(b: Seq<u8>) -> bool;
        #[verifier::external_body]
        fn zvt_deserialize(bytes: &[u8]) -> (r: zvt_builder::ZVTResult<(Self, &[u8])>) { unimplemented!() }
    }
    impl zvt_builder::ZvtSerializer for Registration {
        /// identity of the packet type (position in the frozen reply table), so that "which type does this variant
        /// carry" is an obligation instead of a type error
        open spec fn tid() -> int { 12 }
        uninterp spec fn zd_ok(b: Seq<u8>, v: Self) -> bool;
        uninterp spec fn zd_defined(b: Seq<u8>) -> bool;
        #[verifier::external_body]
        fn zvt_deserialize(bytes: &[u8]) -> (r: zvt_builder::ZVTResult<(Self, &[u8])>) { unimplemented!() }
    }
    impl zvt_builder::ZvtSerializer for ReceiptPrintoutCompletion {
        /// identity of the packet type (position in the frozen reply table), so that "which type does this variant
        /// carry" is an obligation instead of a type error
        open spec fn tid() -> int { 13 }
        uninterp spec fn zd_ok(b: Seq<u8>, v: Self) -> bool;
        uninterp spec fn zd_defined(b: Seq<u8>) -> bool;
        #[verifier::external_body]
        fn zvt_deserialize(bytes: &[u8]) -> (r: zvt_builder::ZVTResult<(Self, &[u8])>) { unimplemented!() }
    }
    impl zvt_builder::ZvtSerializer for ResetTerminal {
        /// identity of the packet type (position in the frozen reply table), so that "which type does this variant
        /// carry" is an obligation instead of a type error
        open spec fn tid() -> int { 14 }
        uninterp spec fn zd_ok(b: Seq<u8>, v: Self) -> bool;
        uninterp spec fn zd_defined(b: Seq<u8>) -> bool;
        #[verifier::external_body]
        fn zvt_deserialize(bytes: &[u8]) -> (r: zvt_builder::ZVTResult<(Self, &[u8])>) { unimplemented!() }
    }
    impl zvt_builder::ZvtSerializer for PrintSystemConfiguration {
        /// identity of the packet type (position in the frozen reply table), so that "which type does this variant
        /// carry" is an obligation instead of a type error
        open spec fn tid() -> int { 15 }
        uninterp spec fn zd_ok(b: Seq<u8>, v: Self) -> bool;
        uninterp spec fn zd_defined(b: Seq<u8>) -> bool;
        #[verifier::external_body]
        fn zvt_deserialize(bytes: &[u8]) -> (r: zvt_builder::ZVTResult<(Self, &[u8])>) { unimplemented!() }
    }
    impl zvt_builder::ZvtSerializer for SetTerminalId {
        /// identity of the packet type (position in the frozen reply table), so that "which type does this variant
        /// carry" is an obligation instead of a type error
        open spec fn tid() -> int { 16 }
        uninterp spec fn zd_ok(b: Seq<u8>, v: Self) -> bool;
        uninterp spec fn zd_defined(b: Seq<u8>) -> bool;
        #[verifier::external_body]
        fn zvt_deserialize(bytes: &[u8]) -> (r: zvt_builder::ZVTResult<(Self, &[u8])>) { unimplemented!() }
    }
    impl zvt_builder::ZvtSerializer for ReservationAbort {
        /// identity of the packet type (position in the frozen reply table), so that "which type does this variant
        /// carry" is an obligation instead of a type error
        open spec fn tid() -> int { 17 }
        uninterp spec fn zd_ok(b: Seq<u8>, v: Self) -> bool;
        uninterp spec fn zd_defined(b: Seq<u8>) -> bool;
        #[verifier::external_body]
        fn zvt_deserialize(bytes: &[u8]) -> (r: zvt_builder::ZVTResult<(Self, &[u8])>) { unimplemented!() }
    }
    impl zvt_builder::ZvtSerializer for Authorization {
        /// identity of the packet type (position in the frozen reply table), so that "which type does this variant
        /// carry" is an obligation instead of a type error
        open spec fn tid() -> int { 18 }
        uninterp spec fn zd_ok(b: Seq<u8>, v: Self) -> bool;
        uninterp spec fn zd_defined(b: Seq<u8>) -> bool;
        #[verifier::external_body]
        fn zvt_deserialize(bytes: &[u8]) -> (r: zvt_builder::ZVTResult<(Self, &[u8])>) { unimplemented!() }
    }
    impl zvt_builder::ZvtSerializer for Reservation {
        /// identity of the packet type (position in the frozen reply table), so that "which type does this variant
        /// carry" is an obligation instead of a type error
        open spec fn tid() -> int { 19 }
        uninterp spec fn zd_ok(b: Seq<u8>, v: Self) -> bool;
        uninterp spec fn zd_defined(b: Seq<u8>) -> bool;
        #[verifier::external_body]
        fn zvt_deserialize(bytes: &[u8]) -> (r: zvt_builder::ZVTResult<(Self, &[u8])>) { unimplemented!() }
    }
    impl zvt_builder::ZvtSerializer for PartialReversal {
        /// identity of the packet type (position in the frozen reply table), so that "which type does this variant
        /// carry" is an obligation instead of a type error
        open spec fn tid() -> int { 20 }
        uninterp spec fn zd_ok(b: Seq<u8>, v: Self) -> bool;
        uninterp spec fn zd_defined(b: Seq<u8>) -> bool;
        #[verifier::external_body]
        fn zvt_deserialize(bytes: &[u8]) -> (r: zvt_builder::ZVTResult<(Self, &[u8])>) { unimplemented!() }
    }
    impl zvt_builder::ZvtSerializer for PreAuthReversal {
        /// identity of the packet type (position in the frozen reply table), so that "which type does this variant
        /// carry" is an obligation instead of a type error
        open spec fn tid() -> int { 21 }
        uninterp spec fn zd_ok(b: Seq<u8>, v: Self) -> bool;
        uninterp spec fn zd_defined(b: Seq<u8>) -> bool;
        #[verifier::external_body]
        fn zvt_deserialize(bytes: &[u8]) -> (r: zvt_builder::ZVTResult<(Self, &[u8])>) { unimplemented!() }
    }
    impl zvt_builder::ZvtSerializer for EndOfDay {
        /// identity of the packet type (position in the frozen reply table), so that "which type does this variant
        /// carry" is an obligation instead of a type error
        open spec fn tid() -> int { 22 }
        uninterp spec fn zd_ok(b: Seq<u8>, v: Self) -> bool;
        uninterp spec fn zd_defined(b: Seq<u8>) -> bool;
        #[verifier::external_body]
        fn zvt_deserialize(bytes: &[u8]) -> (r: zvt_builder::ZVTResult<(Self, &[u8])>) { unimplemented!() }
    }
    impl zvt_builder::ZvtSerializer for Diagnosis {
        /// identity of the packet type (position in the frozen reply table), so that "which type does this variant
        /// carry" is an obligation instead of a type error
        open spec fn tid() -> int { 23 }
        uninterp spec fn zd_ok(b: Seq<u8>, v: Self) -> bool;
        uninterp spec fn zd_defined(b: Seq<u8>) -> bool;
        #[verifier::external_body]
        fn zvt_deserialize(bytes: &[u8]) -> (r: zvt_builder::ZVTResult<(Self, &[u8])>) { unimplemented!() }
    }
    impl zvt_builder::ZvtSerializer for Initialization {
        /// identity of the packet type (position in the frozen reply table), so that "which type does this variant
        /// carry" is an obligation instead of a type error
        open spec fn tid() -> int { 24 }
        uninterp spec fn zd_ok(b: Seq<u8>, v: Self) -> bool;
        uninterp spec fn zd_defined(b: Seq<u8>) -> bool;
        #[verifier::external_body]
        fn zvt_deserialize(bytes: &[u8]) -> (r: zvt_builder::ZVTResult<(Self, &[u8])>) { unimplemented!() }
    }
    impl zvt_builder::ZvtSerializer for ReadCard {
        /// identity of the packet type (position in the frozen reply table), so that "which type does this variant
        /// carry" is an obligation instead of a type error
        open spec fn tid() -> int { 25 }
        uninterp spec fn zd_ok(b: Seq<u8>, v: Self) -> bool;
        uninterp spec fn zd_defined(b: Seq<u8>) -> bool;
        #[verifier::external_body]
        fn zvt_deserialize(bytes: &[u8]) -> (r: zvt_builder::ZVTResult<(Self, &[u8])>) { unimplemented!() }
    }
    impl zvt_builder::ZvtSerializer for SelectLanguage {
        /// identity of the packet type (position in the frozen reply table), so that "which type does this variant
        /// carry" is an obligation instead of a type error
        open spec fn tid() -> int { 26 }
        uninterp spec fn zd_ok(b: Seq<u8>, v: Self) -> bool;
        uninterp spec fn zd_defined(b: Seq<u8>) -> bool;
        #[verifier::external_body]
        fn zvt_deserialize(bytes: &[u8]) -> (r: zvt_builder::ZVTResult<(Self, &[u8])>) { unimplemented!() }
    }
    impl zvt_builder::ZvtSerializer for WriteFile {
        /// identity of the packet type (position in the frozen reply table), so that "which type does this variant
        /// carry" is an obligation instead of a type error
        open spec fn tid() -> int { 27 }
        uninterp spec fn zd_ok(b: Seq<u8>, v: Self) -> bool;
        uninterp spec fn zd_defined(b: Seq<u8>) -> bool;
        #[verifier::external_body]
        fn zvt_deserialize(bytes: &[u8]) -> (r: zvt_builder::ZVTResult<(Self, &[u8])>) { unimplemented!() }
    }
    impl zvt_builder::ZvtSerializer for ChangeConfiguration {
        /// identity of the packet type (position in the frozen reply table), so that "which type does this variant
        /// carry" is an obligation instead of a type error
        open spec fn tid() -> int { 28 }
        uninterp spec fn zd_ok(b: Seq<u8>, v: Self) -> bool;
        uninterp spec fn zd_defined(b: Seq<u8>) -> bool;
        #[verifier::external_body]
        fn zvt_deserialize(bytes: &[u8]) -> (r: zvt_builder::ZVTResult<(Self, &[u8])>) { unimplemented!() }
    }
    impl zvt_builder::ZvtSerializer for CVendFunctions {
        /// identity of the packet type (position in the frozen reply table), so that "which type does this variant
        /// carry" is an obligation instead of a type error
        open spec fn tid() -> int { 29 }
        uninterp spec fn zd_ok(b: Seq<u8>, v: Self) -> bool;
        uninterp spec fn zd_defined(b: Seq<u8>) -> bool;
        #[verifier::external_body]
        fn zvt_deserialize(bytes: &[u8]) -> (r: zvt_builder::ZVTResult<(Self, &[u8])>) { unimplemented!() }
    }
    impl zvt_builder::ZvtSerializer for WriteData {
        /// identity of the packet type (position in the frozen reply table), so that "which type does this variant
        /// carry" is an obligation instead of a type error
        open spec fn tid() -> int { 30 }
        uninterp spec fn zd_ok(b: Seq<u8>, v: Self) -> bool;
        uninterp spec fn zd_defined(b: Seq<u8>) -> bool;
        #[verifier::external_body]
        fn zvt_deserialize(bytes: &[u8]) -> (r: zvt_builder::ZVTResult<(Self, &[u8])>) { unimplemented!() }
    }
