    impl zvt_builder::ZvtSerializer for SetTimeAndDate {
        uninterp spec fn zd_ok(b: Seq<u8>, v: Self) -> bool;
        #[verifier::external_body]
        fn zvt_deserialize(bytes: &[u8]) -> (r: zvt_builder::ZVTResult<(Self, &[u8])>) { unimplemented!() }
    }
    impl zvt_builder::ZvtSerializer for StatusInformation {
        uninterp spec fn zd_ok(b: Seq<u8>, v: Self) -> bool;
        #[verifier::external_body]
        fn zvt_deserialize(bytes: &[u8]) -> (r: zvt_builder::ZVTResult<(Self, &[u8])>) { unimplemented!() }
    }
    impl zvt_builder::ZvtSerializer for IntermediateStatusInformation {
        uninterp spec fn zd_ok(b: Seq<u8>, v: Self) -> bool;
        #[verifier::external_body]
        fn zvt_deserialize(bytes: &[u8]) -> (r: zvt_builder::ZVTResult<(Self, &[u8])>) { unimplemented!() }
    }
    impl zvt_builder::ZvtSerializer for CompletionData {
        uninterp spec fn zd_ok(b: Seq<u8>, v: Self) -> bool;
        #[verifier::external_body]
        fn zvt_deserialize(bytes: &[u8]) -> (r: zvt_builder::ZVTResult<(Self, &[u8])>) { unimplemented!() }
    }
    impl zvt_builder::ZvtSerializer for Abort {
        uninterp spec fn zd_ok(b: Seq<u8>, v: Self) -> bool;
        #[verifier::external_body]
        fn zvt_deserialize(bytes: &[u8]) -> (r: zvt_builder::ZVTResult<(Self, &[u8])>) { unimplemented!() }
    }
    impl zvt_builder::ZvtSerializer for PartialReversalAbort {
        uninterp spec fn zd_ok(b: Seq<u8>, v: Self) -> bool;
        #[verifier::external_body]
        fn zvt_deserialize(bytes: &[u8]) -> (r: zvt_builder::ZVTResult<(Self, &[u8])>) { unimplemented!() }
    }
    impl zvt_builder::ZvtSerializer for PrintLine {
        uninterp spec fn zd_ok(b: Seq<u8>, v: Self) -> bool;
        #[verifier::external_body]
        fn zvt_deserialize(bytes: &[u8]) -> (r: zvt_builder::ZVTResult<(Self, &[u8])>) { unimplemented!() }
    }
    impl zvt_builder::ZvtSerializer for PrintTextBlock {
        uninterp spec fn zd_ok(b: Seq<u8>, v: Self) -> bool;
        #[verifier::external_body]
        fn zvt_deserialize(bytes: &[u8]) -> (r: zvt_builder::ZVTResult<(Self, &[u8])>) { unimplemented!() }
    }
    impl zvt_builder::ZvtSerializer for Ack {
        uninterp spec fn zd_ok(b: Seq<u8>, v: Self) -> bool;
        #[verifier::external_body]
        fn zvt_deserialize(bytes: &[u8]) -> (r: zvt_builder::ZVTResult<(Self, &[u8])>) { unimplemented!() }
    }
    impl zvt_builder::ZvtSerializer for RequestForData {
        uninterp spec fn zd_ok(b: Seq<u8>, v: Self) -> bool;
        #[verifier::external_body]
        fn zvt_deserialize(bytes: &[u8]) -> (r: zvt_builder::ZVTResult<(Self, &[u8])>) { unimplemented!() }
    }
    impl zvt_builder::ZvtSerializer for CVendFunctionsEnhancedSystemInformationCompletion {
        uninterp spec fn zd_ok(b: Seq<u8>, v: Self) -> bool;
        #[verifier::external_body]
        fn zvt_deserialize(bytes: &[u8]) -> (r: zvt_builder::ZVTResult<(Self, &[u8])>) { unimplemented!() }
    }
