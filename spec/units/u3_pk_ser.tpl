    impl zvt_builder::ZvtSerializer for SetTimeAndDate {
        /// identity of the packet type (position in the frozen reply table), so that "which type does this variant
        /// carry" is an obligation instead of a type error
        open spec fn tid() -> int { 0 }
        uninterp spec fn zd_ok(b: Seq<u8>, v: Self) -> bool;
        uninterp spec fn zd_defined(b: Seq<u8>) -> bool;
        #[verifier::external_body]
        fn zvt_deserialize(bytes: &[u8]) -> (r: zvt_builder::ZVTResult<(Self, &[u8])>) { unimplemented!() }
    }
    impl zvt_builder::ZvtSerializer for StatusInformation {
        /// identity of the packet type (position in the frozen reply table), so that "which type does this variant
        /// carry" is an obligation instead of a type error
        open spec fn tid() -> int { 1 }
        uninterp spec fn zd_ok(b: Seq<u8>, v: Self) -> bool;
        uninterp spec fn zd_defined(b: Seq<u8>) -> bool;
        #[verifier::external_body]
        fn zvt_deserialize(bytes: &[u8]) -> (r: zvt_builder::ZVTResult<(Self, &[u8])>) { unimplemented!() }
    }
    impl zvt_builder::ZvtSerializer for IntermediateStatusInformation {
        /// identity of the packet type (position in the frozen reply table), so that "which type does this variant
        /// carry" is an obligation instead of a type error
        open spec fn tid() -> int { 2 }
        uninterp spec fn zd_ok(b: Seq<u8>, v: Self) -> bool;
        uninterp spec fn zd_defined(b: Seq<u8>) -> bool;
        #[verifier::external_body]
        fn zvt_deserialize(bytes: &[u8]) -> (r: zvt_builder::ZVTResult<(Self, &[u8])>) { unimplemented!() }
    }
    impl zvt_builder::ZvtSerializer for CompletionData {
        /// identity of the packet type (position in the frozen reply table), so that "which type does this variant
        /// carry" is an obligation instead of a type error
        open spec fn tid() -> int { 3 }
        uninterp spec fn zd_ok(b: Seq<u8>, v: Self) -> bool;
        uninterp spec fn zd_defined(b: Seq<u8>) -> bool;
        #[verifier::external_body]
        fn zvt_deserialize(bytes: &[u8]) -> (r: zvt_builder::ZVTResult<(Self, &[u8])>) { unimplemented!() }
    }
    impl zvt_builder::ZvtSerializer for Abort {
        /// identity of the packet type (position in the frozen reply table), so that "which type does this variant
        /// carry" is an obligation instead of a type error
        open spec fn tid() -> int { 4 }
        uninterp spec fn zd_ok(b: Seq<u8>, v: Self) -> bool;
        uninterp spec fn zd_defined(b: Seq<u8>) -> bool;
        #[verifier::external_body]
        fn zvt_deserialize(bytes: &[u8]) -> (r: zvt_builder::ZVTResult<(Self, &[u8])>) { unimplemented!() }
    }
    impl zvt_builder::ZvtSerializer for PartialReversalAbort {
        /// identity of the packet type (position in the frozen reply table), so that "which type does this variant
        /// carry" is an obligation instead of a type error
        open spec fn tid() -> int { 5 }
        uninterp spec fn zd_ok(b: Seq<u8>, v: Self) -> bool;
        uninterp spec fn zd_defined(b: Seq<u8>) -> bool;
        #[verifier::external_body]
        fn zvt_deserialize(bytes: &[u8]) -> (r: zvt_builder::ZVTResult<(Self, &[u8])>) { unimplemented!() }
    }
    impl zvt_builder::ZvtSerializer for PrintLine {
        /// identity of the packet type (position in the frozen reply table), so that "which type does this variant
        /// carry" is an obligation instead of a type error
        open spec fn tid() -> int { 6 }
        uninterp spec fn zd_ok(b: Seq<u8>, v: Self) -> bool;
        uninterp spec fn zd_defined(b: Seq<u8>) -> bool;
        #[verifier::external_body]
        fn zvt_deserialize(bytes: &[u8]) -> (r: zvt_builder::ZVTResult<(Self, &[u8])>) { unimplemented!() }
    }
    impl zvt_builder::ZvtSerializer for PrintTextBlock {
        /// identity of the packet type (position in the frozen reply table), so that "which type does this variant
        /// carry" is an obligation instead of a type error
        open spec fn tid() -> int { 7 }
        uninterp spec fn zd_ok(b: Seq<u8>, v: Self) -> bool;
        uninterp spec fn zd_defined(b: Seq<u8>) -> bool;
        #[verifier::external_body]
        fn zvt_deserialize(bytes: &[u8]) -> (r: zvt_builder::ZVTResult<(Self, &[u8])>) { unimplemented!() }
    }
    impl zvt_builder::ZvtSerializer for Ack {
        /// identity of the packet type (position in the frozen reply table), so that "which type does this variant
        /// carry" is an obligation instead of a type error
        open spec fn tid() -> int { 8 }
        uninterp spec fn zd_ok(b: Seq<u8>, v: Self) -> bool;
        uninterp spec fn zd_defined(b: Seq<u8>) -> bool;
        #[verifier::external_body]
        fn zvt_deserialize(bytes: &[u8]) -> (r: zvt_builder::ZVTResult<(Self, &[u8])>) { unimplemented!() }
    }
    impl zvt_builder::ZvtSerializer for RequestForData {
        /// identity of the packet type (position in the frozen reply table), so that "which type does this variant
        /// carry" is an obligation instead of a type error
        open spec fn tid() -> int { 9 }
        uninterp spec fn zd_ok(b: Seq<u8>, v: Self) -> bool;
        uninterp spec fn zd_defined(b: Seq<u8>) -> bool;
        #[verifier::external_body]
        fn zvt_deserialize(bytes: &[u8]) -> (r: zvt_builder::ZVTResult<(Self, &[u8])>) { unimplemented!() }
    }
    impl zvt_builder::ZvtSerializer for CVendFunctionsEnhancedSystemInformationCompletion {
        /// identity of the packet type (position in the frozen reply table), so that "which type does this variant
        /// carry" is an obligation instead of a type error
        open spec fn tid() -> int { 10 }
        uninterp spec fn zd_ok(b: Seq<u8>, v: Self) -> bool;
        uninterp spec fn zd_defined(b: Seq<u8>) -> bool;
        #[verifier::external_body]
        fn zvt_deserialize(bytes: &[u8]) -> (r: zvt_builder::ZVTResult<(Self, &[u8])>) { unimplemented!() }
    }
