        pub struct $SEQ;
        impl $SEQ {
            /// `<$SEQ as ResetSequence>::into_stream(input, src)`: one more exchange in the ghost log; the items are arbitrary
            #[verifier::external_body]
            pub fn into_stream(input: $INPUT, src: &mut crate::stream::TcpStream) -> (s: crate::VStream<$REPLY>)
                ensures
                    final(src).cfg() == old(src).cfg(),
                    final(src).pending_drop() == old(src).pending_drop(),
                    final(src).reused_bad() == (old(src).reused_bad() || old(src).pending_drop()),
                    final(src).log() == old(src).log().push(crate::stream::Exch {
                        req: crate::stream::Req::$SEQ(input),
                        items: crate::stream::AnyItems::$SEQ(s.rest()),
                    }),
            { unimplemented!() }
        }
