    // ------------------------------------------------------------------ feig::packets::RequestForData
    //@ item src:zvt/src/feig/packets/mod.rs | struct RequestForData
    impl zvt_builder::encoding::Encoding<RequestForData> for zvt_builder::encoding::Default {
        open spec fn enc_ok(v: &RequestForData) -> bool { <Option<tlv::WriteData> as zvt_builder::ZvtSerializerImpl<length::Tlv, encoding::Default, zvt_builder::encoding::Default>>::ser_pre(&v.tlv, Some(zvt_builder::Tag(6u16))) }
        open spec fn canon(v: &RequestForData) -> bool { false }
        /// layout table (spec/tables/layout.json): the fields in order, each under its tag / length style / encoding
        open spec fn spec_enc(v: &RequestForData) -> Seq<u8> { <Option<tlv::WriteData> as zvt_builder::ZvtSerializerImpl<length::Tlv, encoding::Default, zvt_builder::encoding::Default>>::spec_ser_tagged(&v.tlv, Some(zvt_builder::Tag(6u16))) }
        uninterp spec fn spec_dec(b: Seq<u8>) -> Option<(RequestForData, int)>;
        open spec fn progresses() -> bool { false }
        open spec fn self_delimiting() -> bool { false }
        open spec fn dec_rel(b: Seq<u8>, v: &RequestForData, k: int) -> bool { true }
        open spec fn dec_total(b: Seq<u8>) -> bool { false }
        /// the tag loop stops only at the end of the input, in front of something that is no tag, or in front of a tag that
        /// is not one of this struct's non-repeatable fields
        open spec fn dec_stop(rest: Seq<u8>) -> bool { rest.len() == 0 || (match <zvt_builder::encoding::Default as zvt_builder::encoding::Encoding<zvt_builder::Tag>>::spec_dec(rest) { None => true, Some((t, _)) => t.0 != 6u16 }) }
        /// the tag loop is specified by totality and frame clauses only
        open spec fn functional() -> bool { false }
        //@ fn exp:zvt | impl zvt_builder::encoding::Encoding<RequestForData> for zvt_builder::encoding::Default | encode | mod=feig::packets props=C03,~C01
        //@ end
        //@ fn exp:zvt | impl zvt_builder::encoding::Encoding<RequestForData> for zvt_builder::encoding::Default | decode | mod=feig::packets all-loops props=C02,C14
        //@ loop 0
                invariant
                    crate::is_tail(bytes@, bytes0), crate::frame::tail_base(bytes0), bytes@.len() <= bytes0.len(),
                    curr_len <= usize::MAX,
        //@ tag tags.bookkeeping C13
                    actual_tags@ =~= seen,
                    required_tags@ =~= Set::<u16>::empty().difference(seen),
        //@ tag tags.stop C13
                    curr_len == bytes@.len() ==> <zvt_builder::encoding::Default as zvt_builder::encoding::Encoding<RequestForData>>::dec_stop(bytes@),
                ensures
                    <zvt_builder::encoding::Default as zvt_builder::encoding::Encoding<RequestForData>>::dec_stop(bytes@),
        //@ tag tags.loop.decreases C02
                decreases bytes@.len() + (if curr_len != bytes@.len() { 1nat } else { 0nat }),
        //@ entry
            let ghost bytes0 = bytes@;
            let ghost mut seen: Set<u16> = Set::<u16>::empty();
            proof { lemma_slice_len_le_isize_max(bytes); crate::frame::lemma_tail_base(bytes0); }
        //@ before (tlv,bytes)=<
        //@ tag tags.no_second_dispatch.tlv C13
            proof { assert(!seen.contains(6u16)); seen = seen.insert(6u16) ; }
        //@ before returnErr(zvt_builder::ZVTError::DuplicateTag(
        //@ tag tags.duplicate_error_is_true.tlv C13
            proof { assert(seen.contains(6u16)) ; }
        //@ before letmutas_vec
            let ghost req_left = required_tags@;
        //@ before returnErr(zvt_builder::ZVTError::MissingRequiredTags
        //@ tag tags.missing_names_all C13
            proof {
                assert(req_left =~= Set::<u16>::empty().difference(seen));
                assert forall|i: int| 0 <= i < as_vec@.len() implies Set::<u16>::empty().contains((#[trigger] as_vec@[i]).0) && !seen.contains(as_vec@[i].0) by {
                    assert(req_left.contains(as_vec@[i].0));
                }
                assert forall|t: u16| Set::<u16>::empty().contains(t) && !seen.contains(t) implies exists|i: int| 0 <= i < as_vec@.len() && (#[trigger] as_vec@[i]).0 == t by {
                    assert(req_left.contains(t));
                }
            }
        //@ tail
        //@ tag tags.ok_only_if_all_mandatory C13
            proof { assert(Set::<u16>::empty().subset_of(seen)); }
        //@ end
        proof fn law_dec_bounds(b: Seq<u8>) {}
        proof fn law_dec_frame(b: Seq<u8>, s: Seq<u8>) {}
        proof fn law_inverse(v: &RequestForData) {}
    }

    //@ item exp:zvt | impl zvt_builder::ZvtCommand for RequestForData | mod=feig::packets
    //@ tag layout.control_field.RequestForData C03
    /// CLASS/INSTR of the APDU (layout table)
    pub proof fn lemma_ctrl_RequestForData()
        ensures <RequestForData as zvt_builder::ZvtCommand>::CLASS == 4, <RequestForData as zvt_builder::ZvtCommand>::INSTR == 12,
    {}
    //@ untag
    // ------------------------------------------------------------------ feig::packets::CVendFunctionsEnhancedSystemInformationCompletion
    //@ item src:zvt/src/feig/packets/mod.rs | struct CVendFunctionsEnhancedSystemInformationCompletion
    impl zvt_builder::encoding::Encoding<CVendFunctionsEnhancedSystemInformationCompletion> for zvt_builder::encoding::Default {
        open spec fn enc_ok(v: &CVendFunctionsEnhancedSystemInformationCompletion) -> bool { <String as zvt_builder::ZvtSerializerImpl<length::Fixed<8>, encoding::Default, zvt_builder::encoding::Default>>::ser_pre(&v.device_id, None) && <String as zvt_builder::ZvtSerializerImpl<length::Fixed<17>, encoding::Default, zvt_builder::encoding::Default>>::ser_pre(&v.sw_version, None) && <String as zvt_builder::ZvtSerializerImpl<length::Fixed<8>, encoding::Default, zvt_builder::encoding::Default>>::ser_pre(&v.terminal_id, None) && <String as zvt_builder::ZvtSerializerImpl<Temperature, encoding::Default, zvt_builder::encoding::Default>>::ser_pre(&v.temperature, None) }
        open spec fn canon(v: &CVendFunctionsEnhancedSystemInformationCompletion) -> bool { false }
        /// layout table (spec/tables/layout.json): the fields in order, each under its tag / length style / encoding
        open spec fn spec_enc(v: &CVendFunctionsEnhancedSystemInformationCompletion) -> Seq<u8> { <String as zvt_builder::ZvtSerializerImpl<length::Fixed<8>, encoding::Default, zvt_builder::encoding::Default>>::spec_ser_tagged(&v.device_id, None) + <String as zvt_builder::ZvtSerializerImpl<length::Fixed<17>, encoding::Default, zvt_builder::encoding::Default>>::spec_ser_tagged(&v.sw_version, None) + <String as zvt_builder::ZvtSerializerImpl<length::Fixed<8>, encoding::Default, zvt_builder::encoding::Default>>::spec_ser_tagged(&v.terminal_id, None) + <String as zvt_builder::ZvtSerializerImpl<Temperature, encoding::Default, zvt_builder::encoding::Default>>::spec_ser_tagged(&v.temperature, None) }
        uninterp spec fn spec_dec(b: Seq<u8>) -> Option<(CVendFunctionsEnhancedSystemInformationCompletion, int)>;
        open spec fn progresses() -> bool { false }
        open spec fn self_delimiting() -> bool { false }
        open spec fn dec_rel(b: Seq<u8>, v: &CVendFunctionsEnhancedSystemInformationCompletion, k: int) -> bool { true }
        open spec fn dec_total(b: Seq<u8>) -> bool { false }
        /// the tag loop stops only at the end of the input, in front of something that is no tag, or in front of a tag that
        /// is not one of this struct's non-repeatable fields
        open spec fn dec_stop(rest: Seq<u8>) -> bool { rest.len() == 0 || (match <zvt_builder::encoding::Default as zvt_builder::encoding::Encoding<zvt_builder::Tag>>::spec_dec(rest) { None => true, Some((t, _)) => true }) }
        /// the tag loop is specified by totality and frame clauses only
        open spec fn functional() -> bool { false }
        //@ fn exp:zvt | impl zvt_builder::encoding::Encoding<CVendFunctionsEnhancedSystemInformationCompletion> for zvt_builder::encoding::Default | encode | mod=feig::packets props=C03,~C01
        //@ end
        //@ fn exp:zvt | impl zvt_builder::encoding::Encoding<CVendFunctionsEnhancedSystemInformationCompletion> for zvt_builder::encoding::Default | decode | mod=feig::packets all-loops props=C02,C14
        //@ loop 0
                invariant
                    crate::is_tail(bytes@, bytes0), crate::frame::tail_base(bytes0), bytes@.len() <= bytes0.len(),
                    curr_len <= usize::MAX,
        //@ tag tags.bookkeeping C13
                    actual_tags@ =~= seen,
                    required_tags@ =~= Set::<u16>::empty().difference(seen),
        //@ tag tags.stop C13
                    curr_len == bytes@.len() ==> <zvt_builder::encoding::Default as zvt_builder::encoding::Encoding<CVendFunctionsEnhancedSystemInformationCompletion>>::dec_stop(bytes@),
                ensures
                    <zvt_builder::encoding::Default as zvt_builder::encoding::Encoding<CVendFunctionsEnhancedSystemInformationCompletion>>::dec_stop(bytes@),
        //@ tag tags.loop.decreases C02
                decreases bytes@.len() + (if curr_len != bytes@.len() { 1nat } else { 0nat }),
        //@ entry
            let ghost bytes0 = bytes@;
            let ghost mut seen: Set<u16> = Set::<u16>::empty();
            proof { lemma_slice_len_le_isize_max(bytes); crate::frame::lemma_tail_base(bytes0); }
        //@ before letmutas_vec
            let ghost req_left = required_tags@;
        //@ before returnErr(zvt_builder::ZVTError::MissingRequiredTags
        //@ tag tags.missing_names_all C13
            proof {
                assert(req_left =~= Set::<u16>::empty().difference(seen));
                assert forall|i: int| 0 <= i < as_vec@.len() implies Set::<u16>::empty().contains((#[trigger] as_vec@[i]).0) && !seen.contains(as_vec@[i].0) by {
                    assert(req_left.contains(as_vec@[i].0));
                }
                assert forall|t: u16| Set::<u16>::empty().contains(t) && !seen.contains(t) implies exists|i: int| 0 <= i < as_vec@.len() && (#[trigger] as_vec@[i]).0 == t by {
                    assert(req_left.contains(t));
                }
            }
        //@ tail
        //@ tag tags.ok_only_if_all_mandatory C13
            proof { assert(Set::<u16>::empty().subset_of(seen)); }
        //@ end
        proof fn law_dec_bounds(b: Seq<u8>) {}
        proof fn law_dec_frame(b: Seq<u8>, s: Seq<u8>) {}
        proof fn law_inverse(v: &CVendFunctionsEnhancedSystemInformationCompletion) {}
    }

    //@ item exp:zvt | impl zvt_builder::ZvtCommand for CVendFunctionsEnhancedSystemInformationCompletion | mod=feig::packets
    //@ tag layout.control_field.CVendFunctionsEnhancedSystemInformationCompletion C03
    /// CLASS/INSTR of the APDU (layout table)
    pub proof fn lemma_ctrl_CVendFunctionsEnhancedSystemInformationCompletion()
        ensures <CVendFunctionsEnhancedSystemInformationCompletion as zvt_builder::ZvtCommand>::CLASS == 6, <CVendFunctionsEnhancedSystemInformationCompletion as zvt_builder::ZvtCommand>::INSTR == 15,
    {}
    //@ untag
    // ------------------------------------------------------------------ feig::packets::WriteFile
    //@ item src:zvt/src/feig/packets/mod.rs | struct WriteFile
    impl zvt_builder::encoding::Encoding<WriteFile> for zvt_builder::encoding::Default {
        open spec fn enc_ok(v: &WriteFile) -> bool { <usize as zvt_builder::ZvtSerializerImpl<length::Fixed<3>, encoding::Bcd, zvt_builder::encoding::Default>>::ser_pre(&v.password, None) && <Option<tlv::WriteFile> as zvt_builder::ZvtSerializerImpl<length::Tlv, encoding::Default, zvt_builder::encoding::Default>>::ser_pre(&v.tlv, Some(zvt_builder::Tag(6u16))) }
        open spec fn canon(v: &WriteFile) -> bool { false }
        /// layout table (spec/tables/layout.json): the fields in order, each under its tag / length style / encoding
        open spec fn spec_enc(v: &WriteFile) -> Seq<u8> { <usize as zvt_builder::ZvtSerializerImpl<length::Fixed<3>, encoding::Bcd, zvt_builder::encoding::Default>>::spec_ser_tagged(&v.password, None) + <Option<tlv::WriteFile> as zvt_builder::ZvtSerializerImpl<length::Tlv, encoding::Default, zvt_builder::encoding::Default>>::spec_ser_tagged(&v.tlv, Some(zvt_builder::Tag(6u16))) }
        uninterp spec fn spec_dec(b: Seq<u8>) -> Option<(WriteFile, int)>;
        open spec fn progresses() -> bool { false }
        open spec fn self_delimiting() -> bool { false }
        open spec fn dec_rel(b: Seq<u8>, v: &WriteFile, k: int) -> bool { true }
        open spec fn dec_total(b: Seq<u8>) -> bool { false }
        /// the tag loop stops only at the end of the input, in front of something that is no tag, or in front of a tag that
        /// is not one of this struct's non-repeatable fields
        open spec fn dec_stop(rest: Seq<u8>) -> bool { rest.len() == 0 || (match <zvt_builder::encoding::Default as zvt_builder::encoding::Encoding<zvt_builder::Tag>>::spec_dec(rest) { None => true, Some((t, _)) => t.0 != 6u16 }) }
        /// the tag loop is specified by totality and frame clauses only
        open spec fn functional() -> bool { false }
        //@ fn exp:zvt | impl zvt_builder::encoding::Encoding<WriteFile> for zvt_builder::encoding::Default | encode | mod=feig::packets props=C03,~C01
        //@ end
        //@ fn exp:zvt | impl zvt_builder::encoding::Encoding<WriteFile> for zvt_builder::encoding::Default | decode | mod=feig::packets all-loops props=C02,C14
        //@ loop 0
                invariant
                    crate::is_tail(bytes@, bytes0), crate::frame::tail_base(bytes0), bytes@.len() <= bytes0.len(),
                    curr_len <= usize::MAX,
        //@ tag tags.bookkeeping C13
                    actual_tags@ =~= seen,
                    required_tags@ =~= Set::<u16>::empty().difference(seen),
        //@ tag tags.stop C13
                    curr_len == bytes@.len() ==> <zvt_builder::encoding::Default as zvt_builder::encoding::Encoding<WriteFile>>::dec_stop(bytes@),
                ensures
                    <zvt_builder::encoding::Default as zvt_builder::encoding::Encoding<WriteFile>>::dec_stop(bytes@),
        //@ tag tags.loop.decreases C02
                decreases bytes@.len() + (if curr_len != bytes@.len() { 1nat } else { 0nat }),
        //@ entry
            let ghost bytes0 = bytes@;
            let ghost mut seen: Set<u16> = Set::<u16>::empty();
            proof { lemma_slice_len_le_isize_max(bytes); crate::frame::lemma_tail_base(bytes0); }
        //@ before (tlv,bytes)=<
        //@ tag tags.no_second_dispatch.tlv C13
            proof { assert(!seen.contains(6u16)); seen = seen.insert(6u16) ; }
        //@ before returnErr(zvt_builder::ZVTError::DuplicateTag(
        //@ tag tags.duplicate_error_is_true.tlv C13
            proof { assert(seen.contains(6u16)) ; }
        //@ before letmutas_vec
            let ghost req_left = required_tags@;
        //@ before returnErr(zvt_builder::ZVTError::MissingRequiredTags
        //@ tag tags.missing_names_all C13
            proof {
                assert(req_left =~= Set::<u16>::empty().difference(seen));
                assert forall|i: int| 0 <= i < as_vec@.len() implies Set::<u16>::empty().contains((#[trigger] as_vec@[i]).0) && !seen.contains(as_vec@[i].0) by {
                    assert(req_left.contains(as_vec@[i].0));
                }
                assert forall|t: u16| Set::<u16>::empty().contains(t) && !seen.contains(t) implies exists|i: int| 0 <= i < as_vec@.len() && (#[trigger] as_vec@[i]).0 == t by {
                    assert(req_left.contains(t));
                }
            }
        //@ tail
        //@ tag tags.ok_only_if_all_mandatory C13
            proof { assert(Set::<u16>::empty().subset_of(seen)); }
        //@ end
        proof fn law_dec_bounds(b: Seq<u8>) {}
        proof fn law_dec_frame(b: Seq<u8>, s: Seq<u8>) {}
        proof fn law_inverse(v: &WriteFile) {}
    }

    //@ item exp:zvt | impl zvt_builder::ZvtCommand for WriteFile | mod=feig::packets
    //@ tag layout.control_field.WriteFile C03
    /// CLASS/INSTR of the APDU (layout table)
    pub proof fn lemma_ctrl_WriteFile()
        ensures <WriteFile as zvt_builder::ZvtCommand>::CLASS == 8, <WriteFile as zvt_builder::ZvtCommand>::INSTR == 20,
    {}
    //@ untag
    // ------------------------------------------------------------------ feig::packets::ChangeConfiguration
    //@ item src:zvt/src/feig/packets/mod.rs | struct ChangeConfiguration
    impl zvt_builder::encoding::Encoding<ChangeConfiguration> for zvt_builder::encoding::Default {
        open spec fn enc_ok(v: &ChangeConfiguration) -> bool { <tlv::ChangeConfiguration as zvt_builder::ZvtSerializerImpl<length::Tlv, encoding::Default, zvt_builder::encoding::Default>>::ser_pre(&v.tlv, Some(zvt_builder::Tag(6u16))) }
        open spec fn canon(v: &ChangeConfiguration) -> bool { false }
        /// layout table (spec/tables/layout.json): the fields in order, each under its tag / length style / encoding
        open spec fn spec_enc(v: &ChangeConfiguration) -> Seq<u8> { <tlv::ChangeConfiguration as zvt_builder::ZvtSerializerImpl<length::Tlv, encoding::Default, zvt_builder::encoding::Default>>::spec_ser_tagged(&v.tlv, Some(zvt_builder::Tag(6u16))) }
        uninterp spec fn spec_dec(b: Seq<u8>) -> Option<(ChangeConfiguration, int)>;
        open spec fn progresses() -> bool { false }
        open spec fn self_delimiting() -> bool { false }
        open spec fn dec_rel(b: Seq<u8>, v: &ChangeConfiguration, k: int) -> bool { true }
        open spec fn dec_total(b: Seq<u8>) -> bool { false }
        /// the tag loop stops only at the end of the input, in front of something that is no tag, or in front of a tag that
        /// is not one of this struct's non-repeatable fields
        open spec fn dec_stop(rest: Seq<u8>) -> bool { rest.len() == 0 || (match <zvt_builder::encoding::Default as zvt_builder::encoding::Encoding<zvt_builder::Tag>>::spec_dec(rest) { None => true, Some((t, _)) => t.0 != 6u16 }) }
        /// the tag loop is specified by totality and frame clauses only
        open spec fn functional() -> bool { false }
        //@ fn exp:zvt | impl zvt_builder::encoding::Encoding<ChangeConfiguration> for zvt_builder::encoding::Default | encode | mod=feig::packets props=C03,~C01
        //@ end
        //@ fn exp:zvt | impl zvt_builder::encoding::Encoding<ChangeConfiguration> for zvt_builder::encoding::Default | decode | mod=feig::packets all-loops props=C02,C14
        //@ loop 0
                invariant
                    crate::is_tail(bytes@, bytes0), crate::frame::tail_base(bytes0), bytes@.len() <= bytes0.len(),
                    curr_len <= usize::MAX,
        //@ tag tags.bookkeeping C13
                    actual_tags@ =~= seen,
                    required_tags@ =~= set![6u16].difference(seen),
        //@ tag tags.stop C13
                    curr_len == bytes@.len() ==> <zvt_builder::encoding::Default as zvt_builder::encoding::Encoding<ChangeConfiguration>>::dec_stop(bytes@),
                ensures
                    <zvt_builder::encoding::Default as zvt_builder::encoding::Encoding<ChangeConfiguration>>::dec_stop(bytes@),
        //@ tag tags.loop.decreases C02
                decreases bytes@.len() + (if curr_len != bytes@.len() { 1nat } else { 0nat }),
        //@ entry
            let ghost bytes0 = bytes@;
            let ghost mut seen: Set<u16> = Set::<u16>::empty();
            proof { lemma_slice_len_le_isize_max(bytes); crate::frame::lemma_tail_base(bytes0); }
        //@ before (tlv,bytes)=<
        //@ tag tags.no_second_dispatch.tlv C13
            proof { assert(!seen.contains(6u16)); seen = seen.insert(6u16) ; }
        //@ before returnErr(zvt_builder::ZVTError::DuplicateTag(
        //@ tag tags.duplicate_error_is_true.tlv C13
            proof { assert(seen.contains(6u16)) ; }
        //@ before letmutas_vec
            let ghost req_left = required_tags@;
        //@ before returnErr(zvt_builder::ZVTError::MissingRequiredTags
        //@ tag tags.missing_names_all C13
            proof {
                assert(req_left =~= set![6u16].difference(seen));
                assert forall|i: int| 0 <= i < as_vec@.len() implies set![6u16].contains((#[trigger] as_vec@[i]).0) && !seen.contains(as_vec@[i].0) by {
                    assert(req_left.contains(as_vec@[i].0));
                }
                assert forall|t: u16| set![6u16].contains(t) && !seen.contains(t) implies exists|i: int| 0 <= i < as_vec@.len() && (#[trigger] as_vec@[i]).0 == t by {
                    assert(req_left.contains(t));
                }
            }
        //@ tail
        //@ tag tags.ok_only_if_all_mandatory C13
            proof { assert(!set![6u16].difference(seen).contains(6u16)); assert(set![6u16].subset_of(seen)); }
        //@ end
        proof fn law_dec_bounds(b: Seq<u8>) {}
        proof fn law_dec_frame(b: Seq<u8>, s: Seq<u8>) {}
        proof fn law_inverse(v: &ChangeConfiguration) {}
    }

    //@ item exp:zvt | impl zvt_builder::ZvtCommand for ChangeConfiguration | mod=feig::packets
    //@ tag layout.control_field.ChangeConfiguration C03
    /// CLASS/INSTR of the APDU (layout table)
    pub proof fn lemma_ctrl_ChangeConfiguration()
        ensures <ChangeConfiguration as zvt_builder::ZvtCommand>::CLASS == 8, <ChangeConfiguration as zvt_builder::ZvtCommand>::INSTR == 19,
    {}
    //@ untag
    // ------------------------------------------------------------------ feig::packets::CVendFunctions
    //@ item src:zvt/src/feig/packets/mod.rs | struct CVendFunctions
    impl zvt_builder::encoding::Encoding<CVendFunctions> for zvt_builder::encoding::Default {
        open spec fn enc_ok(v: &CVendFunctions) -> bool { <Option<usize> as zvt_builder::ZvtSerializerImpl<length::Fixed<3>, encoding::Bcd, zvt_builder::encoding::Default>>::ser_pre(&v.password, None) && <u16 as zvt_builder::ZvtSerializerImpl<length::Empty, encoding::BigEndian, zvt_builder::encoding::Default>>::ser_pre(&v.instr, None) }
        open spec fn canon(v: &CVendFunctions) -> bool { false }
        /// layout table (spec/tables/layout.json): the fields in order, each under its tag / length style / encoding
        open spec fn spec_enc(v: &CVendFunctions) -> Seq<u8> { <Option<usize> as zvt_builder::ZvtSerializerImpl<length::Fixed<3>, encoding::Bcd, zvt_builder::encoding::Default>>::spec_ser_tagged(&v.password, None) + <u16 as zvt_builder::ZvtSerializerImpl<length::Empty, encoding::BigEndian, zvt_builder::encoding::Default>>::spec_ser_tagged(&v.instr, None) }
        uninterp spec fn spec_dec(b: Seq<u8>) -> Option<(CVendFunctions, int)>;
        open spec fn progresses() -> bool { false }
        open spec fn self_delimiting() -> bool { false }
        open spec fn dec_rel(b: Seq<u8>, v: &CVendFunctions, k: int) -> bool { true }
        open spec fn dec_total(b: Seq<u8>) -> bool { false }
        /// the tag loop stops only at the end of the input, in front of something that is no tag, or in front of a tag that
        /// is not one of this struct's non-repeatable fields
        open spec fn dec_stop(rest: Seq<u8>) -> bool { rest.len() == 0 || (match <zvt_builder::encoding::Default as zvt_builder::encoding::Encoding<zvt_builder::Tag>>::spec_dec(rest) { None => true, Some((t, _)) => true }) }
        /// the tag loop is specified by totality and frame clauses only
        open spec fn functional() -> bool { false }
        //@ fn exp:zvt | impl zvt_builder::encoding::Encoding<CVendFunctions> for zvt_builder::encoding::Default | encode | mod=feig::packets props=C03,~C01
        //@ end
        //@ fn exp:zvt | impl zvt_builder::encoding::Encoding<CVendFunctions> for zvt_builder::encoding::Default | decode | mod=feig::packets all-loops props=C02,C14
        //@ loop 0
                invariant
                    crate::is_tail(bytes@, bytes0), crate::frame::tail_base(bytes0), bytes@.len() <= bytes0.len(),
                    curr_len <= usize::MAX,
        //@ tag tags.bookkeeping C13
                    actual_tags@ =~= seen,
                    required_tags@ =~= Set::<u16>::empty().difference(seen),
        //@ tag tags.stop C13
                    curr_len == bytes@.len() ==> <zvt_builder::encoding::Default as zvt_builder::encoding::Encoding<CVendFunctions>>::dec_stop(bytes@),
                ensures
                    <zvt_builder::encoding::Default as zvt_builder::encoding::Encoding<CVendFunctions>>::dec_stop(bytes@),
        //@ tag tags.loop.decreases C02
                decreases bytes@.len() + (if curr_len != bytes@.len() { 1nat } else { 0nat }),
        //@ entry
            let ghost bytes0 = bytes@;
            let ghost mut seen: Set<u16> = Set::<u16>::empty();
            proof { lemma_slice_len_le_isize_max(bytes); crate::frame::lemma_tail_base(bytes0); }
        //@ before letmutas_vec
            let ghost req_left = required_tags@;
        //@ before returnErr(zvt_builder::ZVTError::MissingRequiredTags
        //@ tag tags.missing_names_all C13
            proof {
                assert(req_left =~= Set::<u16>::empty().difference(seen));
                assert forall|i: int| 0 <= i < as_vec@.len() implies Set::<u16>::empty().contains((#[trigger] as_vec@[i]).0) && !seen.contains(as_vec@[i].0) by {
                    assert(req_left.contains(as_vec@[i].0));
                }
                assert forall|t: u16| Set::<u16>::empty().contains(t) && !seen.contains(t) implies exists|i: int| 0 <= i < as_vec@.len() && (#[trigger] as_vec@[i]).0 == t by {
                    assert(req_left.contains(t));
                }
            }
        //@ tail
        //@ tag tags.ok_only_if_all_mandatory C13
            proof { assert(Set::<u16>::empty().subset_of(seen)); }
        //@ end
        proof fn law_dec_bounds(b: Seq<u8>) {}
        proof fn law_dec_frame(b: Seq<u8>, s: Seq<u8>) {}
        proof fn law_inverse(v: &CVendFunctions) {}
    }

    //@ item exp:zvt | impl zvt_builder::ZvtCommand for CVendFunctions | mod=feig::packets
    //@ tag layout.control_field.CVendFunctions C03
    /// CLASS/INSTR of the APDU (layout table)
    pub proof fn lemma_ctrl_CVendFunctions()
        ensures <CVendFunctions as zvt_builder::ZvtCommand>::CLASS == 15, <CVendFunctions as zvt_builder::ZvtCommand>::INSTR == 161,
    {}
    //@ untag
    // ------------------------------------------------------------------ feig::packets::WriteData
    //@ item src:zvt/src/feig/packets/mod.rs | struct WriteData
    impl zvt_builder::encoding::Encoding<WriteData> for zvt_builder::encoding::Default {
        open spec fn enc_ok(v: &WriteData) -> bool { <Option<tlv::WriteData> as zvt_builder::ZvtSerializerImpl<length::Tlv, encoding::Default, zvt_builder::encoding::Default>>::ser_pre(&v.tlv, Some(zvt_builder::Tag(6u16))) }
        open spec fn canon(v: &WriteData) -> bool { false }
        /// layout table (spec/tables/layout.json): the fields in order, each under its tag / length style / encoding
        open spec fn spec_enc(v: &WriteData) -> Seq<u8> { <Option<tlv::WriteData> as zvt_builder::ZvtSerializerImpl<length::Tlv, encoding::Default, zvt_builder::encoding::Default>>::spec_ser_tagged(&v.tlv, Some(zvt_builder::Tag(6u16))) }
        uninterp spec fn spec_dec(b: Seq<u8>) -> Option<(WriteData, int)>;
        open spec fn progresses() -> bool { false }
        open spec fn self_delimiting() -> bool { false }
        open spec fn dec_rel(b: Seq<u8>, v: &WriteData, k: int) -> bool { true }
        open spec fn dec_total(b: Seq<u8>) -> bool { false }
        /// the tag loop stops only at the end of the input, in front of something that is no tag, or in front of a tag that
        /// is not one of this struct's non-repeatable fields
        open spec fn dec_stop(rest: Seq<u8>) -> bool { rest.len() == 0 || (match <zvt_builder::encoding::Default as zvt_builder::encoding::Encoding<zvt_builder::Tag>>::spec_dec(rest) { None => true, Some((t, _)) => t.0 != 6u16 }) }
        /// the tag loop is specified by totality and frame clauses only
        open spec fn functional() -> bool { false }
        //@ fn exp:zvt | impl zvt_builder::encoding::Encoding<WriteData> for zvt_builder::encoding::Default | encode | mod=feig::packets props=C03,~C01
        //@ end
        //@ fn exp:zvt | impl zvt_builder::encoding::Encoding<WriteData> for zvt_builder::encoding::Default | decode | mod=feig::packets all-loops props=C02,C14
        //@ loop 0
                invariant
                    crate::is_tail(bytes@, bytes0), crate::frame::tail_base(bytes0), bytes@.len() <= bytes0.len(),
                    curr_len <= usize::MAX,
        //@ tag tags.bookkeeping C13
                    actual_tags@ =~= seen,
                    required_tags@ =~= Set::<u16>::empty().difference(seen),
        //@ tag tags.stop C13
                    curr_len == bytes@.len() ==> <zvt_builder::encoding::Default as zvt_builder::encoding::Encoding<WriteData>>::dec_stop(bytes@),
                ensures
                    <zvt_builder::encoding::Default as zvt_builder::encoding::Encoding<WriteData>>::dec_stop(bytes@),
        //@ tag tags.loop.decreases C02
                decreases bytes@.len() + (if curr_len != bytes@.len() { 1nat } else { 0nat }),
        //@ entry
            let ghost bytes0 = bytes@;
            let ghost mut seen: Set<u16> = Set::<u16>::empty();
            proof { lemma_slice_len_le_isize_max(bytes); crate::frame::lemma_tail_base(bytes0); }
        //@ before (tlv,bytes)=<
        //@ tag tags.no_second_dispatch.tlv C13
            proof { assert(!seen.contains(6u16)); seen = seen.insert(6u16) ; }
        //@ before returnErr(zvt_builder::ZVTError::DuplicateTag(
        //@ tag tags.duplicate_error_is_true.tlv C13
            proof { assert(seen.contains(6u16)) ; }
        //@ before letmutas_vec
            let ghost req_left = required_tags@;
        //@ before returnErr(zvt_builder::ZVTError::MissingRequiredTags
        //@ tag tags.missing_names_all C13
            proof {
                assert(req_left =~= Set::<u16>::empty().difference(seen));
                assert forall|i: int| 0 <= i < as_vec@.len() implies Set::<u16>::empty().contains((#[trigger] as_vec@[i]).0) && !seen.contains(as_vec@[i].0) by {
                    assert(req_left.contains(as_vec@[i].0));
                }
                assert forall|t: u16| Set::<u16>::empty().contains(t) && !seen.contains(t) implies exists|i: int| 0 <= i < as_vec@.len() && (#[trigger] as_vec@[i]).0 == t by {
                    assert(req_left.contains(t));
                }
            }
        //@ tail
        //@ tag tags.ok_only_if_all_mandatory C13
            proof { assert(Set::<u16>::empty().subset_of(seen)); }
        //@ end
        proof fn law_dec_bounds(b: Seq<u8>) {}
        proof fn law_dec_frame(b: Seq<u8>, s: Seq<u8>) {}
        proof fn law_inverse(v: &WriteData) {}
    }

    //@ item exp:zvt | impl zvt_builder::ZvtCommand for WriteData | mod=feig::packets
    //@ tag layout.control_field.WriteData C03
    /// CLASS/INSTR of the APDU (layout table)
    pub proof fn lemma_ctrl_WriteData()
        ensures <WriteData as zvt_builder::ZvtCommand>::CLASS == 128, <WriteData as zvt_builder::ZvtCommand>::INSTR == 0,
    {}
    //@ untag
