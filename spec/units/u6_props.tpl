// ------------------------------------------------------------------ property-level lemmas over the reference semantics
// (pure specification; they tie the fold functions used in the contracts to the wording of the properties)

/// items that decide nothing for any operation: transport/codec errors and intermediate statuses
pub open spec fn eod_skippable(it: Result<EndOfDayResponse>) -> bool { !(it matches Ok(EndOfDayResponse::CompletionData(_))) && !(it matches Ok(EndOfDayResponse::Abort(_))) }
pub open spec fn pr_skippable(it: Result<PartialReversalResponse>) -> bool { !(it matches Ok(PartialReversalResponse::CompletionData(_))) && !(it matches Ok(PartialReversalResponse::PartialReversalAbort(_))) }
pub open spec fn auth_skippable(it: Result<AuthorizationResponse>) -> bool { !(it matches Ok(AuthorizationResponse::Abort(_))) && !(it matches Ok(AuthorizationResponse::StatusInformation(_))) }
pub open spec fn rc_skippable(it: Result<ReadCardResponse>) -> bool { !(it matches Ok(ReadCardResponse::Abort(_))) && !(it matches Ok(ReadCardResponse::StatusInformation(_))) }

//@ tag c20.abort_surfaces C20
/// end-of-day: an abort with code c is an error carrying c — except A0 'receiver not ready', which is tolerated
pub proof fn lemma_eod_abort(pre: Seq<Result<EndOfDayResponse>>, a: packets::PartialReversalAbort, post: Seq<Result<EndOfDayResponse>>)
    requires forall|i: int| 0 <= i < pre.len() ==> eod_skippable(#[trigger] pre[i]),
    ensures eod_fold(pre + seq![Ok(EndOfDayResponse::Abort(a))] + post) == (if a.error == 0xa0 { Result::<()>::Ok(()) } else { Err(aborted(a.error)) }),
    decreases pre.len()
{
    let all = pre + seq![Ok(EndOfDayResponse::Abort(a))] + post;
    if pre.len() > 0 {
        assert(all[0] == pre[0]);
        assert(all.skip(1) =~= pre.skip(1) + seq![Ok(EndOfDayResponse::Abort(a))] + post);
        lemma_eod_abort(pre.skip(1), a, post);
    } else {
        assert(all[0] == Result::<EndOfDayResponse>::Ok(EndOfDayResponse::Abort(a)));
    }
}
/// cancel (pre-authorisation reversal): an abort with code c is the error Aborted(c), never success
/// a clean abort in the reply items of a reversal decides its outcome
pub proof fn lemma_cancel_clean_abort(its: Seq<Result<PartialReversalResponse>>)
    ensures pr_clean_abort(its, true) matches Some(c) ==> cancel_fold(its) == Result::<()>::Err(aborted(c)),
    decreases its.len()
{
    if its.len() > 0 {
        match its[0] {
            Ok(PartialReversalResponse::PartialReversalAbort(a)) => {},
            Ok(PartialReversalResponse::CompletionData(_)) => {},
            Err(_) => {},
            Ok(_) => { lemma_cancel_clean_abort(its.skip(1)); },
        }
    }
}
pub proof fn lemma_cancel_abort(pre: Seq<Result<PartialReversalResponse>>, a: packets::PartialReversalAbort, post: Seq<Result<PartialReversalResponse>>)
    requires forall|i: int| 0 <= i < pre.len() ==> pr_skippable(#[trigger] pre[i]),
    ensures cancel_fold(pre + seq![Ok(PartialReversalResponse::PartialReversalAbort(a))] + post) == Result::<()>::Err(aborted(a.error)),
    decreases pre.len()
{
    let all = pre + seq![Ok(PartialReversalResponse::PartialReversalAbort(a))] + post;
    if pre.len() > 0 {
        assert(all[0] == pre[0]);
        assert(all.skip(1) =~= pre.skip(1) + seq![Ok(PartialReversalResponse::PartialReversalAbort(a))] + post);
        lemma_cancel_abort(pre.skip(1), a, post);
    } else {
        assert(all[0] == Result::<PartialReversalResponse>::Ok(PartialReversalResponse::PartialReversalAbort(a)));
    }
}
/// commit: an abort with code c is the error Aborted(c) wherever it arrives, whatever status information preceded it
pub proof fn lemma_commit_abort(pre: Seq<Result<PartialReversalResponse>>, a: packets::PartialReversalAbort, post: Seq<Result<PartialReversalResponse>>, si: Option<packets::StatusInformation>)
    requires forall|i: int| 0 <= i < pre.len() ==> !((#[trigger] pre[i]) matches Ok(PartialReversalResponse::PartialReversalAbort(_))),
    ensures commit_fold(pre + seq![Ok(PartialReversalResponse::PartialReversalAbort(a))] + post, si) == Result::<Option<packets::StatusInformation>>::Err(aborted(a.error)),
    decreases pre.len()
{
    let all = pre + seq![Ok(PartialReversalResponse::PartialReversalAbort(a))] + post;
    if pre.len() > 0 {
        assert(all[0] == pre[0]);
        assert(all.skip(1) =~= pre.skip(1) + seq![Ok(PartialReversalResponse::PartialReversalAbort(a))] + post);
        match pre[0] {
            Ok(PartialReversalResponse::StatusInformation(d)) => lemma_commit_abort(pre.skip(1), a, post, Some(d)),
            _ => lemma_commit_abort(pre.skip(1), a, post, si),
        }
    } else {
        assert(all[0] == Result::<PartialReversalResponse>::Ok(PartialReversalResponse::PartialReversalAbort(a)));
    }
}
/// reservation: an abort is never success; it is NeedsPinEntry exactly for FC 'device missing', the numeric code otherwise
pub proof fn lemma_begin_abort(pre: Seq<Result<AuthorizationResponse>>, a: packets::Abort, post: Seq<Result<AuthorizationResponse>>, rn: Option<usize>)
    requires forall|i: int| 0 <= i < pre.len() ==> !((#[trigger] pre[i]) matches Ok(AuthorizationResponse::Abort(_))),
    ensures
        begin_fold(pre + seq![Ok(AuthorizationResponse::Abort(a))] + post, rn) is Err,
        a.error == 0xfc ==> begin_fold(pre + seq![Ok(AuthorizationResponse::Abort(a))] + post, rn) == Result::<Option<usize>>::Err(VErr::Feig(Error::NeedsPinEntry)),
        (a.error != 0xfc && constants::em_from_u8(a.error) is Some) ==> begin_fold(pre + seq![Ok(AuthorizationResponse::Abort(a))] + post, rn) == Result::<Option<usize>>::Err(aborted(a.error)),
    decreases pre.len()
{
    let all = pre + seq![Ok(AuthorizationResponse::Abort(a))] + post;
    if pre.len() > 0 {
        assert(all[0] == pre[0]);
        assert(all.skip(1) =~= pre.skip(1) + seq![Ok(AuthorizationResponse::Abort(a))] + post);
        match pre[0] {
            Ok(AuthorizationResponse::StatusInformation(d)) => lemma_begin_abort(pre.skip(1), a, post, if d.receipt_no is Some { d.receipt_no } else { rn }),
            _ => lemma_begin_abort(pre.skip(1), a, post, rn),
        }
    } else {
        assert(all[0] == Result::<AuthorizationResponse>::Ok(AuthorizationResponse::Abort(a)));
    }
}
/// read-card: an abort is never success; 6C (time-out) means no card was presented, everything else is an error
pub proof fn lemma_read_abort(pre: Seq<Result<ReadCardResponse>>, a: packets::Abort, post: Seq<Result<ReadCardResponse>>, ci: Option<CardSpec>)
    requires forall|i: int| 0 <= i < pre.len() ==> rc_skippable(#[trigger] pre[i]),
    ensures
        read_fold(pre + seq![Ok(ReadCardResponse::Abort(a))] + post, ci) is Err,
        a.error == 0x6c <==> read_fold(pre + seq![Ok(ReadCardResponse::Abort(a))] + post, ci) == Result::<Option<CardSpec>>::Err(VErr::Feig(Error::NoCardPresented)),
    decreases pre.len()
{
    let all = pre + seq![Ok(ReadCardResponse::Abort(a))] + post;
    if pre.len() > 0 {
        assert(all[0] == pre[0]);
        assert(all.skip(1) =~= pre.skip(1) + seq![Ok(ReadCardResponse::Abort(a))] + post);
        lemma_read_abort(pre.skip(1), a, post, ci);
    } else {
        assert(all[0] == Result::<ReadCardResponse>::Ok(ReadCardResponse::Abort(a)));
    }
}

//@ tag c18.classification C18
/// what one status-information reply says about the card
pub open spec fn classify(d: packets::StatusInformation) -> Result<CardSpec> {
    match d.tlv {
        None => Err(incomplete()),
        Some(tlv) => if tlv.subs@.len() > 0 {
            if tlv.subs@[0].application_id is Some { Ok(CardSpec::Bank) } else { Err(VErr::Msg(@FMTID("Unknown card type"))) }
        } else {
            match tlv.uuid { Some(u) => Ok(CardSpec::Member(canon_uid(u@))), None => Err(incomplete()) }
        },
    }
}
/// the identity is a fixed function of the status data, whatever intermediate statuses or transport errors precede it;
/// a card with a listed payment application is a bank card and never a membership card
pub proof fn lemma_read_classify(pre: Seq<Result<ReadCardResponse>>, d: packets::StatusInformation, ci: Option<CardSpec>)
    requires forall|i: int| 0 <= i < pre.len() ==> rc_skippable(#[trigger] pre[i]),
    ensures
        read_fold(pre + seq![Ok(ReadCardResponse::StatusInformation(d))], ci) == (match classify(d) { Ok(c) => Result::<Option<CardSpec>>::Ok(Some(c)), Err(e) => Err(e) }),
        (d.tlv matches Some(t) && t.subs@.len() > 0 && t.subs@[0].application_id is Some) ==> classify(d) == Result::<CardSpec>::Ok(CardSpec::Bank),
        (d.tlv matches Some(t) && t.subs@.len() > 0) ==> !(classify(d) matches Ok(CardSpec::Member(_))),
    decreases pre.len()
{
    let one = seq![Result::<ReadCardResponse>::Ok(ReadCardResponse::StatusInformation(d))];
    let all = pre + one;
    if pre.len() > 0 {
        assert(all[0] == pre[0]);
        assert(all.skip(1) =~= pre.skip(1) + one);
        lemma_read_classify(pre.skip(1), d, ci);
    } else {
        assert(all[0] == one[0]);
        assert(all.skip(1) =~= Seq::<Result<ReadCardResponse>>::empty());
        reveal_with_fuel(read_fold, 2);
    }
}

//@ tag c08.release_amount C08
/// exactly the unused part: released + charged = pre-authorised (charged capped at the pre-authorisation);
/// zero when the final amount is larger; never negative, wrapped or greater than the pre-authorisation
pub proof fn lemma_release_amount(pre: usize, fin: u64)
    ensures
        release_amount(pre, fin) <= pre,
        fin as int <= pre as int ==> release_amount(pre, fin) as int + fin as int == pre as int,
        fin as int >= pre as int ==> release_amount(pre, fin) == 0,
{}
//@ untag
