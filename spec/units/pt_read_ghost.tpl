    //@ entry
        let ghost inbox0 = self.source.inbox();
    //@ after self.source.read_exact(&mutbuf)
        // the header: three consecutive bytes of the stream
        proof {
            assert(buf@ =~= inbox0.take(3));
            assert(self.source.inbox() =~= inbox0.skip(3));
        }
    //@ after letlen=
        // with the extended length (two more bytes) where the third header byte says so
        proof {
            assert(buf@ =~= inbox0.take(buf@.len() as int));
            assert(self.source.inbox() =~= inbox0.skip(buf@.len() as int));
            if inbox0[2] == 0xff {
                assert(buf@.len() == 5);
                assert(pow256(0) == 1 && pow256(1) == 256);
                assert(buf@.subrange(3, 5) =~= seq![inbox0[3], inbox0[4]]);
                assert(len == inbox0[3] as int + 256 * (inbox0[4] as int));
            } else {
                assert(buf@.len() == 3 && len == inbox0[2] as int);
            }
        }
    //@ after self.source.read_exact(&mutbuf[start..])
        // and the body (directly behind the read, so that every later exit - also the `?` of the parser - sees it)
        proof {
            assert(buf@ =~= inbox0.take(buf@.len() as int));
            assert(apdu_total(inbox0) == Some(buf@.len() as int));
            assert(self.source.inbox() =~= inbox0.skip(buf@.len() as int));
        }
