    //@ entry
        let ghost inbox0 = self.source.inbox();
    //@ tail
        proof { assert(buf@ =~= inbox0.take(buf@.len() as int)); }
