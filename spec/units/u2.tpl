// U2 — every derive(Zvt) expansion of the crate `zvt` (DESIGN.md §6 C02 C03 C14; C13/C01 struct level: see DESIGN)
// zvt_builder appears with the contracts proved in U1 (same template text, bodies not repeated: M=ext)
#![allow(unused_imports, unused_variables, dead_code, unused_mut, non_snake_case, unused_parens, unused_braces, unused_assignments)]
extern crate alloc;
use vstd::prelude::*;
verus! {

global size_of usize == 8;

pub mod vlemmas {
    use vstd::prelude::*;
    //@ include ../prelude/lemmas.rs
    /// T5b: a slice never has more than isize::MAX elements (Rust allocation invariant); needed for `bytes.len() + 1`
    #[verifier::external_body]
    pub proof fn lemma_slice_len_le_isize_max(s: &[u8])
        ensures s@.len() <= 0x7fff_ffff_ffff_ffff
    {}
}
pub mod n6 {
    use vstd::prelude::*;
    //@ include ../prelude/n6.rs
    //@ include ../prelude/wire.rs
}

//@ include u1_lib.tpl M=ext VFUNC=false

pub mod length {
    use super::encoding::{Default, Encoding};
    use super::*;
    use super::n6::*;
    use super::vlemmas::*;
    //@ include u1_length.tpl M=ext
}
pub mod encoding {
    use super::*;
    use super::n6::*;
    use super::vlemmas::*;
    //@ include u1_encoding.tpl M=ext FUNC=false TSI=ensures~final(self)@~==~old(self)@.insert(t),~r~==~!old(self)@.contains(t), TSR=ensures~final(self)@~==~old(self)@.remove(*t),~r~==~old(self)@.contains(*t),
}
/// the crate name under which the expansions refer to all of the above
pub mod zvt_builder { pub use crate::*; }

pub mod packets {
    use vstd::prelude::*;
    use crate::n6::*;
    use crate::{encoding, length, zvt_builder};
    use crate::encoding::{NaiveDateTime, VTagSet, v_sorted_tags};
    use crate::vlemmas::lemma_slice_len_le_isize_max;
    use crate::{IntoVErr, Tag, ZVTResult, ZVTError};
    use crate::encoding::Encoding;
    use crate::length::Length;
    use crate::ZvtSerializerImpl;
    broadcast use {crate::frame::lemma_tail_trans, crate::frame::lemma_tail_refl};
    //@ item src:zvt/src/packets.rs | struct PartialReversalReceiptNo
    /// receipt-number field of 06 23 / 06 1E: two BCD bytes, or FF FF for "none" (ZVT 2.10.1)
    impl encoding::Encoding<usize> for PartialReversalReceiptNo {
        open spec fn enc_ok(v: &usize) -> bool { true }
        /// values whose own encoding is the two bytes of the field (four digits, or the marker 0xffff); shorter numbers
        /// reach two bytes through the zero padding of `Fixed<2>`
        open spec fn canon(v: &usize) -> bool { 1000 <= *v <= 9999 || *v == 0xffff }
        open spec fn spec_enc(v: &usize) -> Seq<u8> {
            if *v == 0xffff { le_seq2(0xffff) } else { <encoding::Bcd as encoding::Encoding<usize>>::spec_enc(v) }
        }
        open spec fn spec_dec(b: Seq<u8>) -> Option<(usize, int)> {
            if b.len() < 2 { None }
            else if b[0] == 0xff && b[1] == 0xff { Some((0xffffusize, 2int)) }
            else { match <encoding::Bcd as encoding::Encoding<usize>>::spec_dec(b.subrange(0, 2)) { Some((v, _)) => Some((v, 2int)), None => None } }
        }
        open spec fn progresses() -> bool { true }
        open spec fn self_delimiting() -> bool { true }
        open spec fn dec_rel(b: Seq<u8>, v: &usize, k: int) -> bool { true }
        open spec fn dec_total(b: Seq<u8>) -> bool { false }
        open spec fn dec_stop(rest: Seq<u8>) -> bool { true }
        open spec fn functional() -> bool { true }
        //@ fn src:zvt/src/packets.rs | impl encoding::Encoding<usize> for PartialReversalReceiptNo | decode | also=C17,C01 props=C02,C17
        //@ entry
            proof {
                // what is handed back is the input without its first two bytes
                if bytes@.len() >= 2 {
                    assert(bytes@.subrange(2, bytes@.len() as int) =~= bytes@.skip(2));
                    crate::frame::lemma_tail_intro(bytes@.skip(2), bytes@);
                }
            }
        //@ end
        //@ fn src:zvt/src/packets.rs | impl encoding::Encoding<usize> for PartialReversalReceiptNo | encode | also=C17,C01 props=C03,C17
        //@ end
        proof fn law_dec_bounds(b: Seq<u8>) {}
        proof fn law_dec_frame(b: Seq<u8>, s: Seq<u8>) {
            assert((b + s).subrange(0, 2) =~= b.subrange(0, 2));
        }
        //@ tag enc.law_inverse.receipt_no C17 C01
        proof fn law_inverse(v: &usize) {
            if *v == 0xffff {
                assert(le_seq2(0xffff) =~= seq![0xffu8, 0xffu8]);
            } else {
                let k = *v as nat;
                <encoding::Bcd as encoding::Encoding<usize>>::law_inverse(v);
                crate::vlemmas::lemma_bcd_rev_msb(k);
                crate::vlemmas::lemma_bcd_msb_val(k);
                let e = crate::vlemmas::bcd_msb(k);
                // four digits are two bytes
                assert(crate::vlemmas::bcd_msb(k / 100 / 100) =~= Seq::<u8>::empty());
                assert(crate::vlemmas::bcd_msb(k / 100) =~= Seq::<u8>::empty().push(crate::vlemmas::bcd_byte(k / 100)));
                assert(e =~= crate::vlemmas::bcd_msb(k / 100).push(crate::vlemmas::bcd_byte(k)));
                assert(e.len() == 2);
                assert(<encoding::Bcd as encoding::Encoding<usize>>::spec_enc(v) =~= e);
                assert(e.subrange(0, 2) =~= e);
                // a BCD byte is never ff
                assert((e[0] & 0xf) < 10);
                assert(e[0] != 0xff) by { assert(forall|x: u8| (x & 0xf) < 10 ==> x != 0xff) by (bit_vector); }
            }
        }
        //@ untag
    }
    //@ include u2_packets.tpl
    pub mod tlv {
        use vstd::prelude::*;
        use crate::{encoding, length, zvt_builder};
        use crate::encoding::{NaiveDateTime, VTagSet, v_sorted_tags};
        use crate::vlemmas::lemma_slice_len_le_isize_max;
        use crate::{IntoVErr, Tag, ZVTResult, ZVTError};
    use crate::encoding::Encoding;
    use crate::length::Length;
    use crate::ZvtSerializerImpl;
    broadcast use {crate::frame::lemma_tail_trans, crate::frame::lemma_tail_refl};
        //@ include u2_packets_tlv.tpl
    }
}

pub mod feig {
    pub mod packets {
        use vstd::prelude::*;
        use crate::{encoding, length, zvt_builder};
        use crate::encoding::{VTagSet, v_sorted_tags};
        use crate::vlemmas::lemma_slice_len_le_isize_max;
        use crate::{IntoVErr, Tag, ZVTResult, ZVTError};
        use crate::encoding::Encoding;
        use crate::length::Length;
        use crate::ZvtSerializerImpl;
        broadcast use {crate::frame::lemma_tail_trans, crate::frame::lemma_tail_refl, crate::frame::lemma_tail_intro};
        //@ item src:zvt/src/feig/packets/mod.rs | struct Temperature
        // N6: `std::cmp::min(a, b)` on usize
        pub mod std { pub mod cmp {
            use vstd::prelude::*;
            #[verifier::external_body]
            pub fn min(a: usize, b: usize) -> (r: usize) ensures r == (if a <= b { a } else { b }) { core::cmp::min(a, b) }
        } }
        /// temperature field of the cVEND system information: 3 or 4 characters at the end of the packet, no prefix
        impl length::Length for Temperature {
            open spec fn wf() -> bool { true }
            open spec fn delimiting() -> bool { false }
            open spec fn ser_ok(len: usize) -> bool { 3 <= len <= 4 }
            open spec fn spec_ser(len: usize) -> Seq<u8> { Seq::<u8>::empty() }
            open spec fn spec_deser(b: Seq<u8>) -> Option<(usize, int)> {
                if b.len() < 3 { None } else { Some(((if b.len() < 4 { b.len() } else { 4 }) as usize, 0)) }
            }
            open spec fn spec_pad(len: usize) -> Seq<u8> { Seq::<u8>::empty() }
            //@ fn src:zvt/src/feig/packets/mod.rs | impl length::Length for Temperature | deserialize | props=C02,C16
            //@ end
            //@ fn src:zvt/src/feig/packets/mod.rs | impl length::Length for Temperature | serialize | props=C03
            //@ end
            proof fn law_inverse(len: usize, p: Seq<u8>, s: Seq<u8>) { assert(Self::spec_ser(len) + p + s =~= p); }
            proof fn law_bounds(b: Seq<u8>) {}
            proof fn law_frame(b: Seq<u8>, s: Seq<u8>) {}
        }
        //@ include u2_feig_packets.tpl
        pub mod tlv {
            use vstd::prelude::*;
            use crate::{encoding, length, zvt_builder};
            use crate::encoding::{VTagSet, v_sorted_tags};
            use crate::vlemmas::lemma_slice_len_le_isize_max;
            use crate::{IntoVErr, Tag, ZVTResult, ZVTError};
            use crate::encoding::Encoding;
            use crate::length::Length;
            use crate::ZvtSerializerImpl;
            broadcast use {crate::frame::lemma_tail_trans, crate::frame::lemma_tail_refl, crate::frame::lemma_tail_intro, crate::frame::lemma_tail_elim};
            //@ item src:zvt/src/feig/packets/tlv.rs | struct Custom
            pub uninterp spec fn custom_dec(b: Seq<u8>) -> Option<(Vec<u8>, int)>;
            /// raw payload bytes (firmware blocks): copied verbatim in both directions. `Vec` has no spec-level
            /// equality, so the decoder is specified by the relation `dec_rel` over the view instead of `spec_dec`.
            impl encoding::Encoding<Vec<u8>> for Custom {
                open spec fn enc_ok(v: &Vec<u8>) -> bool { true }
                open spec fn canon(v: &Vec<u8>) -> bool { false }
                open spec fn spec_enc(v: &Vec<u8>) -> Seq<u8> { v@ }
                open spec fn spec_dec(b: Seq<u8>) -> Option<(Vec<u8>, int)> { custom_dec(b) }
                open spec fn dec_rel(b: Seq<u8>, v: &Vec<u8>, k: int) -> bool { v@ == b && k == b.len() }
                open spec fn dec_total(b: Seq<u8>) -> bool { true }
                open spec fn dec_stop(rest: Seq<u8>) -> bool { true }
                open spec fn progresses() -> bool { false }
                open spec fn self_delimiting() -> bool { false }
                open spec fn functional() -> bool { false }
                //@ fn src:zvt/src/feig/packets/tlv.rs | impl encoding::Encoding<Vec<u8>> for Custom | encode | props=C03,C11
                //@ end
                //@ fn src:zvt/src/feig/packets/tlv.rs | impl encoding::Encoding<Vec<u8>> for Custom | decode | props=C02,C14
                //@ end
                proof fn law_dec_bounds(b: Seq<u8>) {}
                proof fn law_dec_frame(b: Seq<u8>, s: Seq<u8>) {}
                proof fn law_inverse(v: &Vec<u8>) {}
            }
            /// after the (optional) tag: TLV length, then exactly that many bytes, copied
            pub open spec fn raw_body_defined(b1: Seq<u8>) -> bool {
                <length::Tlv as length::Length>::spec_deser(b1) matches Some((n, kl)) && n <= b1.len() - kl
            }
            pub open spec fn raw_body_ok(b1: Seq<u8>, v: Seq<u8>, k1: int) -> bool {
                <length::Tlv as length::Length>::spec_deser(b1) matches Some((n, kl)) && k1 == kl + n && v =~= b1.subrange(kl, kl + n)
            }
            /// TLV-wrapped raw bytes; an empty payload is not written at all
            impl<TE: encoding::Encoding<Tag>> ZvtSerializerImpl<length::Tlv, Custom, TE> for Vec<u8> {
                open spec fn ser_pre(&self, tag: Option<Tag>) -> bool { self@.len() <= 65535 && (tag matches Some(t) ==> TE::enc_ok(&t)) }
                open spec fn spec_ser_tagged(&self, tag: Option<Tag>) -> Seq<u8> {
                    if self@.len() == 0 { Seq::<u8>::empty() } else { crate::tag_bytes::<TE>(tag) + <length::Tlv as length::Length>::spec_ser(self@.len() as usize) + self@ }
                }
                open spec fn deser_pre(tag: Option<Tag>) -> bool { true }
                /// completely specified whenever the tag decoder is
                open spec fn functional() -> bool { TE::functional() }
                open spec fn deser_progresses(tag: Option<Tag>) -> bool { tag is Some && TE::progresses() }
                /// succeeds exactly when the expected tag is there and the announced length fits
                open spec fn deser_defined(b: Seq<u8>, tag: Option<Tag>) -> bool {
                    match tag {
                        Some(t) => TE::spec_dec(b) matches Some((t2, kt)) && t2 == t && raw_body_defined(b.skip(kt)),
                        None => raw_body_defined(b),
                    }
                }
                /// the value is exactly the announced bytes, and exactly tag + length + those bytes are consumed
                open spec fn deser_ok(b: Seq<u8>, tag: Option<Tag>, v: Self, k: int) -> bool {
                    match tag {
                        Some(t) => TE::spec_dec(b) matches Some((t2, kt)) && raw_body_ok(b.skip(kt), v@, k - kt),
                        None => raw_body_ok(b, v@, k),
                    }
                }
                //@ fn src:zvt/src/feig/packets/tlv.rs | impl ZvtSerializerImpl<length::Tlv,Custom,TE> for Vec<u8> | deserialize_tagged | also=~C13 props=C02,C14,~C13
                //@ end
                //@ fn src:zvt/src/feig/packets/tlv.rs | impl ZvtSerializerImpl<length::Tlv,Custom,TE> for Vec<u8> | serialize_tagged | props=C03
                //@ end
            }
            //@ include u2_feig_packets_tlv.tpl
            // `#[derive(Default)]` of the two structs that are used as non-optional tagged fields (T9)
            impl core::default::Default for SystemInformation { #[verifier::external_body] fn default() -> (r: Self) { unimplemented!() } }
            impl core::default::Default for ChangeConfiguration { #[verifier::external_body] fn default() -> (r: Self) { unimplemented!() } }
        }
    }
}

/// the inherited `ZvtSerializerImpl` default bodies of every packet struct (N15), kept apart from the tag loops
/// because they need the byte-level meaning of the frame predicate
pub mod packets_ser {
    use vstd::prelude::*;
    use crate::{encoding, length, zvt_builder};
    use crate::{IntoVErr, Tag, ZVTResult, ZVTError};
    use crate::encoding::Encoding;
    use crate::length::Length;
    use crate::ZvtSerializerImpl;
    broadcast use {crate::frame::lemma_tail_intro, crate::frame::lemma_tail_elim, crate::frame::lemma_tail_refl};
    //@ include u2ser_packets.tpl
    //@ include u2ser_packets_tlv.tpl
    //@ include u2ser_feig_packets.tpl
    //@ include u2ser_feig_packets_tlv.tpl
}

//@ tag canary
pub proof fn zx_canary() ensures false {}
//@ untag

} // verus!
fn main() {}
